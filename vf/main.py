"""Driver:  ./check <Cxx> <quick|thorough> | ./check <Cxx> --replay <file>

Exit 0: property held on everything explored.  Exit 1 + a line
``VIOLATION property=<id> replay=<path>``: a violation not listed as a known
finding.  Exit 2 + ``INCONCLUSIVE property=<id> reason=...``: the monitors did not
observe enough to decide (watchdog fired, monitor never reached, harness error).
"""
import importlib
import json
import os
import pickle
import shutil
import subprocess
import sys
import tempfile
import time

from .core import env, recorder, util

ROOT = env.VERIF_ROOT
# Runs against a scratch copy of the repository (self-test of the monitors, SEMPLER_SRC set) must
# never overwrite the evidence of /repo: they write below $VERIF_OUT instead.
_OUT = os.environ.get("VERIF_OUT") or (ROOT if not os.environ.get("SEMPLER_SRC") else tempfile.gettempdir() + "/vf-selftest-out")
EVIDENCE_DIR = os.path.join(_OUT, "evidence")
REPLAY_DIR = os.path.join(_OUT, "replays")
KNOWN = os.path.join(ROOT, "known_findings.txt")


def load_known(pid):
    known = {}
    if os.path.exists(KNOWN):
        for line in open(KNOWN):
            line = line.strip()
            if not line.startswith("known:"):
                continue
            fields = line[len("known:"):].split()
            prop = key = None
            rest = []
            for f in fields:
                if f.startswith("property=") and prop is None:
                    prop = f.split("=", 1)[1]
                elif f.startswith("key=") and key is None:
                    key = f.split("=", 1)[1]
                else:
                    rest.append(f)
            if prop == pid and key:
                known[key] = " ".join(rest)
    return known


def run_shards(pid, tier, seed, nshards, jobs, soft, hard):
    tmp = tempfile.mkdtemp(prefix="vf-%s-" % pid)
    procs = {}
    pending = list(range(nshards))
    results = {}
    failures = []
    cenv = env.child_env()
    try:
        while pending or procs:
            while pending and len(procs) < jobs:
                s = pending.pop(0)
                out = os.path.join(tmp, "shard%d.pkl" % s)
                log = open(os.path.join(tmp, "shard%d.log" % s), "wb")
                p = subprocess.Popen(
                    [sys.executable, "-m", "vf.core.shard", pid, tier, str(seed), str(s), str(nshards), out, str(soft)],
                    cwd=ROOT, env=cenv, stdout=log, stderr=subprocess.STDOUT)
                procs[s] = (p, time.time(), out, log)
            time.sleep(0.05)
            for s in list(procs):
                p, t0, out, log = procs[s]
                rc = p.poll()
                if rc is None:
                    if time.time() - t0 > hard:
                        p.kill()
                        p.wait()
                        log.close()
                        failures.append("shard %d: watchdog fired after %.0f s" % (s, hard))
                        del procs[s]
                    continue
                log.close()
                del procs[s]
                if rc != 0 or not os.path.exists(out):
                    tail = open(log.name, "rb").read()[-1500:].decode("utf8", "replace")
                    failures.append("shard %d: exit %s: %s" % (s, rc, tail))
                    continue
                with open(out, "rb") as f:
                    d = pickle.load(f)
                if d.get("status") != "ok":
                    failures.append("shard %d: harness error: %s" % (s, (d.get("error") or "")[-1500:]))
                results[s] = d
    finally:
        for s in list(procs):
            procs[s][0].kill()
        shutil.rmtree(tmp, ignore_errors=True)
    return [results[s] for s in sorted(results)], failures


def write_replay(pid, tier, seed, idx, v):
    os.makedirs(REPLAY_DIR, exist_ok=True)
    path = os.path.join(REPLAY_DIR, "%s-%s-seed%d-%d.json" % (pid, tier, seed, idx))
    with open(path, "w") as f:
        json.dump({"property": pid, "tier": tier, "seed": seed, "key": v["key"], "family": v["family"],
                   "case": v["case"], "what": v["what"], "detail": v["detail"]}, f, indent=1, sort_keys=True)
    return path


def do_replay(pid, path):
    mod = importlib.import_module("vf.checks." + pid)
    env.ensure_deps()
    env.bootstrap(fake_rpy2=getattr(mod, "FAKE_RPY2", False))
    import numpy as np
    import warnings
    warnings.simplefilter("ignore")
    np.seterr(all="ignore")
    r = json.load(open(path))
    rec = recorder.Recorder(pid, r.get("tier", "quick"), r.get("seed", 0))
    if hasattr(mod, "setup"):
        mod.setup(rec)
    case = util.dec(r["case"])
    rec.current = (r["family"], case)
    mod.judge(r["family"], case, rec)
    if hasattr(mod, "shard_end"):
        mod.shard_end(rec)
    known = load_known(pid)
    bad = [v for v in rec.violations if v["key"] not in known]
    for v in rec.violations:
        print("replayed: key=%s what=%s" % (v["key"], v["what"]))
        print(json.dumps(v["detail"], indent=1)[:4000])
    if bad:
        print("VIOLATION property=%s replay=%s" % (pid, path))
        return 1
    print("replay of %s: no violation reproduced" % path)
    return 0


def main(argv):
    if len(argv) < 2:
        print(__doc__)
        return 2
    pid = argv[0]
    if argv[1] == "--replay":
        return do_replay(pid, argv[2])
    tier = os.environ.get("VERIF_TIER") if argv[1] not in ("quick", "thorough") else argv[1]
    if tier not in ("quick", "thorough"):
        tier = "quick"
    seed = int(os.environ.get("VERIF_SEED", "0") or 0)
    jobs = int(os.environ.get("VERIF_JOBS", "0") or 0) or min(16, os.cpu_count() or 4)
    t0 = time.time()
    env.ensure_deps()
    mod = importlib.import_module("vf.checks." + pid)
    nshards = getattr(mod, "SHARDS", {}).get(tier, 16)
    soft = getattr(mod, "SOFT_LIMIT", {}).get(tier, 240 if tier == "quick" else 1500)
    hard = getattr(mod, "HARD_LIMIT", {}).get(tier, soft * 2 + 120)
    dumps, failures = run_shards(pid, tier, seed, nshards, jobs, soft, hard)
    m = recorder.merge(dumps)
    inconclusive = list(failures)
    # cross-shard decisions (frequencies over seeds etc.)
    if hasattr(mod, "finalize") and not failures:
        rec = recorder.Recorder(pid, tier, seed)
        extra = mod.finalize(m, tier, seed, rec) or []
        inconclusive.extend(extra)
        m["violations"].extend(rec.violations)
        m["n_violations"] += rec.n_violations
        m["counters"].update(rec.counters)
        for k, v in rec.maxes.items():
            m["maxes"][k] = max(v, m["maxes"].get(k, v))
    # monitors that were never reached => inconclusive, never "held"
    for need in getattr(mod, "REQUIRED_FUNCS", []):
        if need not in m["funcs_entered"]:
            inconclusive.append("anchor function never entered: %s" % need)
    for name, least in getattr(mod, "REQUIRED_COUNTERS", {}).get(tier, {}).items():
        if m["counters"].get(name, 0) < least:
            inconclusive.append("monitor counter %s = %d < %d" % (name, m["counters"].get(name, 0), least))
    if m["evaluations"] == 0:
        inconclusive.append("no monitor evaluation recorded")
    if len(m["digests"]) < 2:
        inconclusive.append("fewer than 2 distinct non-trivial cases")

    known = load_known(pid)
    reported_known = set()
    real = []
    for v in m["violations"]:
        if v["key"] in known:
            if v["key"] not in reported_known:
                reported_known.add(v["key"])
                print("KNOWN-FINDING: property=%s %s %s" % (pid, v["key"], known[v["key"]]))
        else:
            real.append(v)
    # counts of violations by key that are not known
    unknown_count = sum(c for k, c in m["counters"].items()
                        if k.startswith("violations:") and k[len("violations:"):] not in known)

    samples = []
    for fam in sorted(m["samples"]):
        for s in m["samples"][fam]:
            samples.append({"family": fam, "case": s})
    samples = samples[:24]
    rule = getattr(mod, "RULE", "")
    coverage = {
        "evaluations": int(m["evaluations"]),
        "distinct_nontrivial": int(len(m["digests"])),
        "rule": rule,
        "samples": samples,
        "exhaustive": bool(getattr(mod, "EXHAUSTIVE", {}).get(tier, False) and not m["cut_short"]),
        "cut_short_by_time_box": bool(m["cut_short"]),
        "counters": {k: int(v) for k, v in sorted(m["counters"].items())},
        "maxima": {k: float(v) for k, v in sorted(m["maxes"].items())},
        "observed_sets": {k: sorted(map(str, v))[:60] for k, v in sorted(m["sets"].items())},
        "repository_functions_entered": sorted(m["funcs_entered"]),
        "shards": nshards,
        "shard_wall_s": m["shard_wall_s"],
        "inconclusive_reasons": inconclusive,
        "known_findings_matched": sorted(reported_known),
        "source_tree": env.repo_root(),
    }
    if hasattr(mod, "describe"):
        coverage.update(mod.describe(m, tier) or {})
    ev = {
        "property_id": pid, "tier": tier, "seed": seed, "level": "exploration",
        "coverage": coverage,
        "assumptions": list(getattr(mod, "ASSUMPTIONS", [])),
        "wall_s": round(time.time() - t0, 2),
        "violations": int(unknown_count),
    }
    os.makedirs(EVIDENCE_DIR, exist_ok=True)
    tmp = os.path.join(EVIDENCE_DIR, ".%s.json.tmp" % pid)
    with open(tmp, "w") as f:
        json.dump(ev, f, indent=1, sort_keys=True)
    os.replace(tmp, os.path.join(EVIDENCE_DIR, "%s.json" % pid))

    print("%s %s seed=%d: %d evaluations, %d distinct non-trivial, %d violations, %.1f s"
          % (pid, tier, seed, m["evaluations"], len(m["digests"]), unknown_count, time.time() - t0))
    if real:
        for i, v in enumerate(real[:8]):
            path = write_replay(pid, tier, seed, i, v)
            print("  [%s] %s" % (v["key"], v["what"]))
            print("VIOLATION property=%s replay=%s" % (pid, path))
        return 1
    if inconclusive:
        for r in inconclusive[:8]:
            print("INCONCLUSIVE property=%s reason=%s" % (pid, r.replace("\n", " | ")[:1500]))
        return 2
    return 0


if __name__ == "__main__":
    sys.exit(main(sys.argv[1:]))
