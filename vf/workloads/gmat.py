"""Generators of matrices handed to the code under check (numpy side of the
oracle's bitmask graphs)."""
import numpy as np

from ..oracles import graphs as G


def to_np(out, dtype=int):
    p = len(out)
    A = np.zeros((p, p), dtype=dtype)
    for i in range(p):
        for j in G.bits(out[i]):
            A[i, j] = 1
    return A


def masks(A):
    """Bitmask pattern of a numpy matrix (python-level, independent of sempler)."""
    return G.masks_from_rows(np.asarray(A).tolist())


def weighted(rng, out, kind=None, dtype=float):
    """Weight matrix with the non-zero pattern ``out``.

    kinds: 'signed' (uniform magnitudes, random signs), 'cancel' (weights +-w so
    that columns/rows/total tend to sum to exactly zero), 'negative', 'wide'
    (magnitudes over 1e-3..1e3), 'int' (small signed integers)."""
    p = len(out)
    kinds = ["signed", "cancel", "negative", "wide", "int"]
    if kind is None:
        kind = kinds[int(rng.integers(len(kinds)))]
    W = np.zeros((p, p), dtype=float)
    for i in range(p):
        for j in G.bits(out[i]):
            if kind == "signed":
                w = rng.uniform(0.1, 3) * rng.choice([-1, 1])
            elif kind == "negative":
                w = -rng.uniform(0.1, 3)
            elif kind == "wide":
                w = 10 ** rng.uniform(-3, 3) * rng.choice([-1, 1])
            elif kind == "int":
                w = float(rng.choice([-3, -2, -1, 1, 2, 3]))
            else:  # cancel: filled below
                w = 1.0
            W[i, j] = w
    if kind == "cancel":
        # make the entries of every column alternate +w/-w so that columns with an
        # even number of parents sum to exactly 0, and balance the rest to make the
        # total sum <= 0
        for j in range(p):
            idx = [i for i in range(p) if W[i, j] != 0]
            w = float(rng.choice([0.5, 1.0, 2.0, 1.5]))
            for k, i in enumerate(idx):
                W[i, j] = w if k % 2 == 0 else -w
            if len(idx) % 2 == 1 and rng.random() < 0.5:
                W[idx[-1], j] = -abs(W[idx[-1], j])
    if dtype is not float:
        if kind in ("int", "cancel") and np.all(W == np.round(W)):
            return W.astype(dtype)
    return W


def random_dag_masks(rng, p, density=None):
    if density is None:
        density = rng.uniform(0.1, 0.9)
    return G.random_dag(rng, p, density)


def random_pdag_masks(rng, p, mode=None):
    """Random PDAG with acyclic directed part.
    'unorient': a DAG with a random subset of edges made undirected (often
    extendable); 'mixed': random mixed graph (re-drawn until the directed part is
    acyclic); 'cpdag-ish': DAG with all non-v-structure edges undirected."""
    if mode is None:
        mode = ["unorient", "mixed", "vs"][int(rng.integers(3))]
    if mode == "mixed":
        for _ in range(200):
            out = [0] * p
            dens = rng.uniform(0.15, 0.8)
            for (i, j) in G.pairs(p):
                if rng.random() < dens:
                    d = int(rng.integers(1, 4))
                    if d & 1:
                        out[i] |= 1 << j
                    if d & 2:
                        out[j] |= 1 << i
            if G.directed_part_acyclic(out):
                return out
        mode = "unorient"
    dag = random_dag_masks(rng, p)
    out = list(dag)
    if mode == "unorient":
        q = rng.uniform(0, 1)
        for i in range(p):
            for j in G.bits(dag[i]):
                if rng.random() < q:
                    out[j] |= 1 << i
        return out
    # 'vs': keep only edges taking part in a v-structure directed
    vs = G.vstructures(dag)
    keep = set()
    for (i, c, j) in vs:
        keep.add((i, c))
        keep.add((j, c))
    for i in range(p):
        for j in G.bits(dag[i]):
            if (i, j) not in keep:
                out[j] |= 1 << i
    return out
