"""Generators of matrices handed to the code under check (numpy side of the
oracle's bitmask graphs)."""
import numpy as np

from ..oracles import graphs as G


def to_np(out, dtype=int):
    p = len(out)
    A = np.zeros((p, p), dtype=dtype)
    for i in range(p):
        for j in G.bits(out[i]):
            A[i, j] = 1
    return A


def masks(A):
    """Bitmask pattern of a numpy matrix (python-level, independent of sempler)."""
    return G.masks_from_rows(np.asarray(A).tolist())


def weighted(rng, out, kind=None, dtype=float):
    """Weight matrix with the non-zero pattern ``out``.

    kinds: 'signed' (uniform magnitudes, random signs), 'cancel' (weights +-w so
    that columns/rows/total tend to sum to exactly zero), 'negative', 'wide'
    (magnitudes over 1e-3..1e3), 'int' (small signed integers), 'tiny' (a mix of
    ordinary weights and non-zero weights of magnitude 1e-9 .. 5e-324)."""
    p = len(out)
    kinds = ["signed", "cancel", "negative", "wide", "int", "tiny"]
    if kind is None:
        kind = kinds[int(rng.integers(len(kinds)))]
    W = np.zeros((p, p), dtype=float)
    for i in range(p):
        for j in G.bits(out[i]):
            if kind == "signed":
                w = rng.uniform(0.1, 3) * rng.choice([-1, 1])
            elif kind == "negative":
                w = -rng.uniform(0.1, 3)
            elif kind == "wide":
                w = 10 ** rng.uniform(-3, 3) * rng.choice([-1, 1])
            elif kind == "int":
                w = float(rng.choice([-3, -2, -1, 1, 2, 3]))
            elif kind == "tiny":
                # non-zero but far below any absolute tolerance (down to denormals): the non-zero pattern is what counts
                if rng.random() < 0.6:
                    w = float(rng.choice([-1, 1])) * float(rng.choice([1e-9, 1e-12, 1e-100, 1e-300, 5e-324, 10 ** rng.uniform(-200, -8.5)]))
                else:
                    w = rng.uniform(0.1, 3) * rng.choice([-1, 1])
            else:  # cancel: filled below
                w = 1.0
            W[i, j] = w
    if kind == "cancel":
        # make the entries of every column alternate +w/-w so that columns with an
        # even number of parents sum to exactly 0, and balance the rest to make the
        # total sum <= 0
        for j in range(p):
            idx = [i for i in range(p) if W[i, j] != 0]
            w = float(rng.choice([0.5, 1.0, 2.0, 1.5]))
            for k, i in enumerate(idx):
                W[i, j] = w if k % 2 == 0 else -w
            if len(idx) % 2 == 1 and rng.random() < 0.5:
                W[idx[-1], j] = -abs(W[idx[-1], j])
    if dtype is not float:
        if kind in ("int", "cancel") and np.all(W == np.round(W)):
            return W.astype(dtype)
    return W


def random_dag_masks(rng, p, density=None):
    if density is None:
        density = rng.uniform(0.1, 0.9)
    return G.random_dag(rng, p, density)


def random_pdag_masks(rng, p, mode=None):
    """Random PDAG with acyclic directed part.
    'unorient': a DAG with a random subset of edges made undirected (often
    extendable); 'mixed': random mixed graph (re-drawn until the directed part is
    acyclic); 'cpdag-ish': DAG with all non-v-structure edges undirected."""
    if mode is None:
        mode = ["unorient", "mixed", "vs"][int(rng.integers(3))]
    if mode == "mixed":
        for _ in range(200):
            out = [0] * p
            dens = rng.uniform(0.15, 0.8)
            for (i, j) in G.pairs(p):
                if rng.random() < dens:
                    d = int(rng.integers(1, 4))
                    if d & 1:
                        out[i] |= 1 << j
                    if d & 2:
                        out[j] |= 1 << i
            if G.directed_part_acyclic(out):
                return out
        mode = "unorient"
    dag = random_dag_masks(rng, p)
    out = list(dag)
    if mode == "unorient":
        q = rng.uniform(0, 1)
        for i in range(p):
            for j in G.bits(dag[i]):
                if rng.random() < q:
                    out[j] |= 1 << i
        return out
    # 'vs': keep only edges taking part in a v-structure directed
    vs = G.vstructures(dag)
    keep = set()
    for (i, c, j) in vs:
        keep.add((i, c))
        keep.add((j, c))
    for i in range(p):
        for j in G.bits(dag[i]):
            if (i, j) not in keep:
                out[j] |= 1 << i
    return out


# ---------------------------------------------------------------------------
# the same array object, overwritten in place, handed to the library again and again

_BUFFERS = {}


def reuse(A):
    """Return a persistent caller-owned buffer (one per shape and dtype) overwritten in place with A's content.
    A caller may legitimately edit his own array between two library calls; anything the library remembers about an
    array *object* (identity-keyed caches, stored views) then shows up as a wrong answer for the new content."""
    A = np.asarray(A)
    key = (A.shape, A.dtype.str)
    buf = _BUFFERS.get(key)
    if buf is None:
        buf = np.zeros(A.shape, dtype=A.dtype)
        _BUFFERS[key] = buf
    buf[...] = A
    return buf


# labels that collide modulo 8 (the table size of small Python sets): the iteration order of a set of such labels depends on
# which other labels are in the set, e.g. {1, 8} iterates as [8, 1] but {0, 1, 8} as [0, 1, 8]
HOSTILE_SMALL = (0, 1, 2, 3)
HOSTILE_LARGE = (8, 9, 10, 11, 16, 17, 18, 19)


def embed_hostile(out, rng):
    """Embed into 20 nodes with labels chosen so that Python's set iteration order of a *pair* of labels differs from
    numeric order (a small label 3..7 together with a label >= 8 that is small modulo 8), while larger sets may come out
    in yet another order.  Code that relies on sets of nodes being iterated in increasing order breaks on these."""
    p = len(out)
    pool = list(HOSTILE_SMALL) + list(HOSTILE_LARGE)
    for _ in range(20):
        labels = [int(v) for v in rng.choice(pool, p, replace=False)]
        if p < 2 or (min(labels) < 8 <= max(labels)):
            break
    P = 20
    big = [0] * P
    for i in range(p):
        for j in G.bits(out[i]):
            big[labels[i]] |= 1 << labels[j]
    return big


def embed(out, P, rng):
    """Embed the graph ``out`` (p nodes) into P >= p nodes under a random injective relabelling (the other nodes stay
    isolated).  Graph notions are label-equivariant; Python sets of node labels iterate in hash order, not numeric
    order, once labels reach 8, so relabelled copies exercise order assumptions the small canonical graphs cannot."""
    p = len(out)
    labels = [int(v) for v in rng.permutation(P)[:p]]
    if P > 8 and max(labels) < 8:
        labels[int(rng.integers(p))] = int(rng.integers(8, P))
        if len(set(labels)) < p:
            labels = [int(v) for v in rng.permutation(P)[:p]]
    big = [0] * P
    for i in range(p):
        for j in G.bits(out[i]):
            big[labels[i]] |= 1 << labels[j]
    return big


def embed_any(out, P, rng, code):
    """Random relabelling for even codes, hash-hostile relabelling (see embed_hostile) for odd ones."""
    return embed_hostile(out, rng) if code % 2 else embed(out, P, rng)


_DTYPES_BINARY = (np.int8, np.int32, np.uint8, np.float32, np.int64, np.float64, bool)


def hostile_array(A, h):
    """The same matrix in a different *presentation*, chosen by the integer h: the re-used caller-owned buffer (see
    ``reuse``), Fortran order, a strided view into a larger array, a read-only array, another dtype (0/1 matrices only).
    None of these change the matrix a user passes; code that assumes C-contiguity, writes into its input or keys a cache
    on raw bytes / identity answers differently."""
    A = np.asarray(A)
    k = h % 8
    if k <= 2:
        return reuse(A)
    if k == 3:
        return np.asfortranarray(A)
    if k == 4:
        B = np.zeros((A.shape[0] * 2, A.shape[1] * 3), dtype=A.dtype)
        B[1::2, ::3] = A
        return B[1::2, ::3]
    if k == 5:
        R = A.copy()
        R.flags.writeable = False
        return R
    if k == 6 and A.size and bool(((A == 0) | (A == 1)).all()):
        return A.astype(_DTYPES_BINARY[(h // 8) % len(_DTYPES_BINARY)])
    if k == 7 and A.dtype.kind == "f" and A.size:
        Z = A.copy()
        Z[Z == 0] = -0.0          # negative zeros are zeros: no edge
        return Z
    return A


def named_shapes(p):
    """Hand-picked DAG shapes on p nodes (before relabelling): chains, stars, colliders sharing parents, diamonds, ladders,
    layered and bipartite graphs, a cycle skeleton with one collider, the complete DAG.  Returns {name: masks}."""
    def g(edges):
        out = [0] * p
        for a, b in edges:
            out[a] |= 1 << b
        return out
    shapes = {
        "chain": g([(i, i + 1) for i in range(p - 1)]),
        "anti-chain": g([(i + 1, i) for i in range(p - 1)]),
        "out-star": g([(0, i) for i in range(1, p)]),
        "in-star": g([(i, 0) for i in range(1, p)]),
        "zigzag": g([(i, i + 1) if i % 2 == 0 else (i + 1, i) for i in range(p - 1)]),
        "two-colliders-sharing-parents": g([(0, 2), (1, 2), (0, 3), (1, 3), (2, 3)] + [(3, i) for i in range(4, p)]),
        "diamonds": g([e for k in range(0, p - 3, 3) for e in ((k, k + 1), (k, k + 2), (k + 1, k + 3), (k + 2, k + 3))]),
        "ladder": g([(i, i + 2) for i in range(p - 2)] + [(i, i + 1) for i in range(0, p - 1, 2)]),
        "cycle-skeleton-one-collider": g([(i, i + 1) for i in range(p - 1)] + [(0, p - 1)]),
        "layered": g([(i, j) for i in range(p // 3) for j in range(p // 3, 2 * (p // 3))] +
                     [(j, k) for j in range(p // 3, 2 * (p // 3)) for k in range(2 * (p // 3), p)][: max(0, 14 - (p // 3) ** 2)]),
        "bipartite": g([(i, j) for i in range(p // 2) for j in range(p // 2, p)]),
        "complete": g([(i, j) for i in range(p) for j in range(i + 1, p)]),
        "chain-plus-long-edge": g([(i, i + 1) for i in range(p - 1)] + [(0, p - 1), (1, p - 2)]),
        "binary-tree": g([((i - 1) // 2, i) for i in range(1, p)]),
        # long-range propagation: a v-structure whose compelledness travels down a long tail
        "collider-with-tail": g([(0, 2), (1, 2)] + [(i, i + 1) for i in range(2, p - 1)]),
        "collider-with-two-tails": g([(0, 2), (1, 2)] + [(i, i + 2) for i in range(2, p - 2)]),
        "tail-into-collider": g([(i, i + 1) for i in range(0, p - 2)] + [(p - 1, p - 2)]),
        "collider-tail-shortcut": g([(0, 2), (1, 2)] + [(i, i + 1) for i in range(2, p - 1)] + [(2, p - 1)]),
        "inverted-tree": g([(i, (i - 1) // 2) for i in range(1, p)]),
        # a long shortcut-free path with a small gadget at one end (reachability over many edges decides what happens in the gadget)
        "chain-ending-in-triangle": g([(i, i + 1) for i in range(p - 2)] + [(p - 3, p - 1), (p - 2, p - 1)]),
        "chain-starting-with-triangle": g([(0, 1), (0, 2), (1, 2)] + [(i, i + 1) for i in range(2, p - 1)]),
        "chain-ending-in-fork": g([(i, i + 1) for i in range(p - 3)] + [(p - 3, p - 2), (p - 3, p - 1)]),
        "chain-ending-in-collider-pair": g([(i, i + 1) for i in range(p - 3)] + [(p - 3, p - 1), (p - 2, p - 1)]),
    }
    return shapes


def relabel(out, rng):
    p = len(out)
    perm = [int(v) for v in rng.permutation(p)]
    big = [0] * p
    for i in range(p):
        for j in G.bits(out[i]):
            big[perm[i]] |= 1 << perm[j]
    return big
