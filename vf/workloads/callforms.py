"""Documented call signatures (parameter order and defaults at the pinned commit, as in the docstrings / README).

A caller may pass any documented parameter positionally.  The checks call the library mostly with keywords; ``positional``
turns such a call into the equivalent all-positional one *according to the documented order* - hard-coded here on purpose, so
that a change of the parameter order in the code under check does not silently adapt the harness with it.
"""

_REQUIRED = object()

DOCUMENTED = {
    "LGANM": (("W", _REQUIRED), ("means", _REQUIRED), ("variances", _REQUIRED), ("random_state", None)),
    "LGANM.sample": (("n", 100), ("population", False), ("do_interventions", {}), ("shift_interventions", {}),
                     ("noise_interventions", {}), ("random_state", None)),
    "ANM.sample": (("n", _REQUIRED), ("do_interventions", {}), ("shift_interventions", {}), ("noise_interventions", {}),
                   ("random_state", None)),
    "NormalDistribution": (("mean", _REQUIRED), ("covariance", _REQUIRED), ("check_valid", "ignore")),
    "NormalDistribution.sample": (("n", _REQUIRED), ("random_state", None)),
    "DRFNet.sample": (("n", None), ("random_state", None)),
    "mec": (("A", _REQUIRED), ("check_chain", True)),
    "imec": (("A", _REQUIRED), ("I", _REQUIRED), ("check_chain", True)),
    "all_dags": (("pdag", _REQUIRED), ("max_combinations", None)),
    "is_consistent_extension": (("G", _REQUIRED), ("P", _REQUIRED), ("debug", False)),
    "pdag_to_dag": (("P", _REQUIRED), ("debug", False)),
    "maximally_orient": (("P", _REQUIRED), ("debug", False)),
    "dag_to_icpdag": (("G", _REQUIRED), ("I", _REQUIRED), ("debug", False)),
    "dag_avg_deg": (("p", _REQUIRED), ("k", _REQUIRED), ("w_min", 1), ("w_max", 1), ("return_ordering", False),
                    ("random_state", None), ("debug", False)),
    "dag_full": (("p", _REQUIRED), ("w_min", 1), ("w_max", 1), ("return_ordering", False), ("random_state", None)),
    "intervention_targets": (("p", _REQUIRED), ("K", _REQUIRED), ("size", _REQUIRED), ("replace", True), ("random_state", None)),
    "split_data": (("data", _REQUIRED), ("ratios", _REQUIRED), ("random_state", 42)),
    "remove_edges": (("A", _REQUIRED), ("no_edges", _REQUIRED), ("random_state", 42)),
    "add_edges": (("A", _REQUIRED), ("no_edges", _REQUIRED), ("random_state", 42)),
    "noise.normal": (("mean", 0), ("var", 1)),
    "noise.uniform": (("lo", 0), ("hi", 1)),
    "noise.laplace": (("mean", 0), ("scale", 1)),
}


def positional(name, *args, **kw):
    """The positional argument tuple equivalent to ``f(*args, **kw)`` under the documented signature: every parameter up to the
    last one given is filled in, omitted ones with a fresh copy of their documented default."""
    sig = DOCUMENTED[name]
    names = [n for n, _ in sig]
    unknown = set(kw) - set(names)
    if unknown:
        raise KeyError("not a documented parameter of %s: %s" % (name, sorted(unknown)))
    given = dict(zip(names, args))
    given.update(kw)
    last = max(names.index(n) for n in given) if given else -1
    out = []
    for n, d in sig[:last + 1]:
        if n in given:
            out.append(given[n])
        elif d is _REQUIRED:
            raise TypeError("%s: required parameter %s missing" % (name, n))
        else:
            out.append({} if isinstance(d, dict) else d)
    return tuple(out)
