"""Run the repository's own test modules in-process with the monitors armed
(thorough tiers of C14, C15, C16).  A contract that fires there is either too
strict or a defect the tests do not assert; test failures themselves are not our
verdict (they are counted)."""
import os

from ..core import env


class _Plugin:
    def __init__(self, rec):
        self.rec = rec

    def pytest_runtest_setup(self, item):
        self.rec.current = ("repo-tests", {"test": item.nodeid})
        self.rec.case("repo-tests", {"test": item.nodeid}, True, key=item.nodeid)

    def pytest_runtest_logreport(self, report):
        if report.when == "call":
            self.rec.count("repo-tests:" + report.outcome)


def run(rec, module):
    import pytest
    root = env.repo_root()
    path = os.path.join(root, "sempler", "test", module)
    cwd = os.getcwd()
    os.chdir(root)
    try:
        rc = pytest.main(["-q", "-p", "no:cacheprovider", "-p", "no:xdist", "-p", "no:randomly", "--timeout=1500", "-x" if False else "-q",
                          "--rootdir", root, path], plugins=[_Plugin(rec)])
    finally:
        os.chdir(cwd)
    rec.count("repo-tests:modules-run")
    rec.add("repo-tests:exit-codes", "%s=%s" % (module, int(rc)))
    return rc
