"""Finite-sample statistical oracles with an explicit false-alarm budget.

* DKW: P(sup|F_n - F| > eps) <= 2 exp(-2 n eps^2)  (valid for every n, continuous F).
* Chernoff / KL bound on binomial tails: P(X >= k) <= exp(-n KL(k/n || p)) (and the
  mirror image), a true upper bound for every n.
* z-scores with exact variances for means / variances / covariances; a large |z| is
  only a *suspicion* and must be confirmed by the escalation rule (see ``confirm``).

Nothing here imports scipy or the code under check.
"""
import math

import numpy as np

DELTA = 1e-12          # per-test false-alarm probability for the bound-based tests
Z_SUSPECT = 6.5
Z_CONFIRM = 5.0

_erf = np.vectorize(math.erf, otypes=[float])


def norm_cdf(x, mean=0.0, sd=1.0):
    return 0.5 * (1.0 + _erf((np.asarray(x, dtype=float) - mean) / (sd * math.sqrt(2.0))))


def uniform_cdf(x, lo, hi):
    return np.clip((np.asarray(x, dtype=float) - lo) / (hi - lo), 0.0, 1.0)


def laplace_cdf(x, mean, scale):
    z = (np.asarray(x, dtype=float) - mean) / scale
    return np.where(z < 0, 0.5 * np.exp(np.minimum(z, 0)), 1 - 0.5 * np.exp(-np.maximum(z, 0)))


def dkw_eps(n, delta=DELTA):
    return math.sqrt(math.log(2.0 / delta) / (2.0 * n))


def ks_distance(sample, cdf):
    """sup_x |F_n(x) - F(x)| for a continuous F given as a vectorised function."""
    x = np.sort(np.asarray(sample, dtype=float))
    n = len(x)
    if n == 0:
        return 0.0
    F = cdf(x)
    i = np.arange(1, n + 1)
    return float(max(np.max(i / n - F), np.max(F - (i - 1) / n)))


def kl_bern(q, p):
    if q <= 0:
        return -math.log(1 - p) if p < 1 else float("inf")
    if q >= 1:
        return -math.log(p) if p > 0 else float("inf")
    if p <= 0 or p >= 1:
        return float("inf")
    return q * math.log(q / p) + (1 - q) * math.log((1 - q) / (1 - p))


def binom_tail_bound(k, n, p):
    """Upper bound on P(|X - np| at least as extreme as observed k), X ~ Bin(n, p):
    two-sided Chernoff-KL bound.  Returns 1.0 when k is on the mean."""
    if n == 0:
        return 1.0
    q = k / n
    if abs(q - p) < 1e-15:
        return 1.0
    return min(1.0, 2.0 * math.exp(-n * kl_bern(q, p)))


def z_mean(x, mu, var):
    n = len(x)
    if n == 0 or var <= 0:
        return 0.0
    return float((np.mean(x) - mu) / (math.sqrt(var) / math.sqrt(n)))      # sqrt(var) first: var / n may be denormal


def z_var(x, mu, var, kurt_excess):
    """z-score of the (known-mean) second moment; Var[(x-mu)^2] = var^2 (2 + excess kurtosis)."""
    n = len(x)
    if n == 0 or var <= 0:
        return 0.0
    d = (np.asarray(x, dtype=float) - mu) / math.sqrt(var)           # standardise first: var * var under- / overflows for extreme scales
    return (float(np.mean(d * d)) - 1.0) / math.sqrt((2.0 + kurt_excess) / n)


def z_lag1(x):
    """z-score of the lag-1 autocorrelation of an i.i.d. sequence (approximately N(0, 1/n))."""
    x = np.asarray(x, dtype=float)
    n = len(x)
    if n < 10:
        return 0.0
    d = x - x.mean()
    den = float(np.dot(d, d))
    if den == 0:
        return 0.0
    return float(np.dot(d[:-1], d[1:]) / den * math.sqrt(n))


def z_cov_matrix(sample, mean, cov):
    """Matrices of z-scores for the sample mean and the sample covariance of an
    i.i.d. Gaussian sample against (mean, cov).  Entries whose population variance
    is 0 get z = 0 (they are judged separately as point masses).  Wishart:
    Var[S_jk] = (C_jj C_kk + C_jk^2) / (n - 1)."""
    X = np.asarray(sample, dtype=float)
    n, p = X.shape
    mean = np.asarray(mean, dtype=float)
    cov = np.asarray(cov, dtype=float)
    d = np.diag(cov)
    zm = np.zeros(p)
    ok = d > 0
    zm[ok] = (X.mean(axis=0)[ok] - mean[ok]) / np.sqrt(d[ok] / n)
    S = np.cov(X, rowvar=False).reshape(p, p) if n > 1 else np.zeros((p, p))
    V = (np.outer(d, d) + cov ** 2) / max(n - 1, 1)
    zc = np.zeros((p, p))
    okc = V > 0
    zc[okc] = (S[okc] - cov[okc]) / np.sqrt(V[okc])
    return zm, zc


def confirm(stat_fn, n, reps=3, factor=4):
    """Escalation rule.  ``stat_fn(rep, n)`` recomputes the same |z| statistic on a
    fresh derived seed with sample size n.  A suspicion is confirmed only if the
    statistic exceeds Z_CONFIRM in all ``reps`` re-runs at ``factor`` x the size."""
    zs = []
    for r in range(reps):
        z = abs(stat_fn(r, n * factor))
        zs.append(z)
        if not z > Z_CONFIRM:
            return False, zs
    return True, zs


def expected_coincidences(n, magnitude, sd):
    """Expected number of exactly repeated values among n i.i.d. draws of a continuous law with standard deviation sd whose
    values have magnitude up to ``magnitude``, due to the finite resolution of doubles: n^2/2 * ulp * integral f^2, with
    integral f^2 = 1/(2 sd sqrt(pi)) for a normal law (other unimodal laws are within a small factor)."""
    if sd <= 0:
        return float("inf")
    ulp = math.ulp(max(magnitude, 1e-300))
    return 0.5 * n * n * ulp / (2.0 * sd * math.sqrt(math.pi))


def z_halves(x, var):
    """z-score of the difference between the means of the first and second half of a sequence that should be i.i.d.
    with variance var (a change of regime in the middle of a sample - a generator re-seeded, a block repeated - shows here)."""
    x = np.asarray(x, dtype=float)
    n = len(x) // 2
    if n < 10 or var <= 0:
        return 0.0
    return float((x[:n].mean() - x[n:2 * n].mean()) / (math.sqrt(var) * math.sqrt(2.0 / n)))      # sqrt(var) first: scale-robust


def z_lag(x, k):
    """z-score of the lag-k autocorrelation (approximately N(0, 1/n) for an i.i.d. sequence)."""
    x = np.asarray(x, dtype=float)
    n = len(x)
    if n < 10 * (k + 1):
        return 0.0
    d = x - x.mean()
    den = float(np.dot(d, d))
    if den == 0:
        return 0.0
    return float(np.dot(d[:-k], d[k:]) / den * math.sqrt(n))
