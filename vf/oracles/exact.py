"""Exact rational reference models (fractions.Fraction).  Imports nothing from the
code under check.  Floats are converted exactly (every finite double is a
rational), so the oracle answers the question "what is the true result for the
numbers that were actually passed"."""
from fractions import Fraction

from . import graphs as G


def F(x):
    if isinstance(x, Fraction):
        return x
    if hasattr(x, "item"):
        x = x.item()
    if isinstance(x, bool):
        x = int(x)
    return Fraction(x)


def fvec(v):
    return [F(x) for x in (v.tolist() if hasattr(v, "tolist") else v)]


def fmat(M):
    rows = M.tolist() if hasattr(M, "tolist") else M
    return [[F(x) for x in r] for r in rows]


def matmul(A, B):
    n, m, k = len(A), len(B[0]) if B else 0, len(B)
    return [[sum((A[i][t] * B[t][j] for t in range(k)), Fraction(0)) for j in range(m)] for i in range(n)]


def solve(A, B):
    """Solve A X = B exactly (Gauss-Jordan, first non-zero pivot).  Raises
    ZeroDivisionError if A is singular."""
    n = len(A)
    m = len(B[0]) if n else 0
    M = [list(A[i]) + list(B[i]) for i in range(n)]
    for c in range(n):
        piv = None
        for r in range(c, n):
            if M[r][c] != 0:
                piv = r
                break
        if piv is None:
            raise ZeroDivisionError("singular")
        M[c], M[piv] = M[piv], M[c]
        pv = M[c][c]
        M[c] = [x / pv for x in M[c]]
        for r in range(n):
            if r != c and M[r][c] != 0:
                f = M[r][c]
                M[r] = [x - f * y for x, y in zip(M[r], M[c])]
    return [row[n:] for row in M]


def inv(A):
    n = len(A)
    I = [[Fraction(int(i == j)) for j in range(n)] for i in range(n)]
    return solve(A, I)


def block(M, rows, cols):
    return [[M[i][j] for j in cols] for i in rows]


# ---------------------------------------------------------------------------
# linear Gaussian SEM

def parse_param(v):
    """(mean, variance) from a tuple, or point mass from a scalar."""
    if isinstance(v, tuple):
        return F(v[0]), F(v[1])
    return F(v), Fraction(0)


def intervene(W, means, variances, do=None, noise=None, shift=None):
    """Apply the specification literally: shift adds, noise replaces, do replaces and
    deletes the incoming edges; do > noise > shift on shared targets."""
    p = len(W)
    W = [list(r) for r in W]
    mu = list(means)
    var = list(variances)
    do = do or {}
    noise = noise or {}
    shift = shift or {}
    for j in range(p):
        if j in do:
            m, v = parse_param(do[j])
            mu[j], var[j] = m, v
            for i in range(p):
                W[i][j] = Fraction(0)
        elif j in noise:
            m, v = parse_param(noise[j])
            mu[j], var[j] = m, v
        elif j in shift:
            m, v = parse_param(shift[j])
            mu[j], var[j] = mu[j] + m, var[j] + v
    return W, mu, var


def sem_law(W, mu, var):
    """Mean vector and covariance matrix of the solution of X_j = sum_i W[i][j] X_i + eps_j
    with independent eps_j ~ (mu_j, var_j), by path sums along the oracle's own
    topological order."""
    p = len(W)
    succ = [sum(1 << j for j in range(p) if W[i][j] != 0) for i in range(p)]
    order = G.topological_order(succ)      # raises ValueError if cyclic
    coef = [None] * p                      # coef[j][k]: coefficient of eps_k in X_j
    for j in order:
        c = [Fraction(0)] * p
        c[j] = Fraction(1)
        for i in range(p):
            w = W[i][j]
            if w != 0:
                ci = coef[i]
                for k in range(p):
                    if ci[k] != 0:
                        c[k] += w * ci[k]
        coef[j] = c
    mean = [sum((coef[j][k] * mu[k] for k in range(p)), Fraction(0)) for j in range(p)]
    cov = [[sum((coef[j][k] * coef[l][k] * var[k] for k in range(p)), Fraction(0)) for l in range(p)] for j in range(p)]
    return mean, cov


# ---------------------------------------------------------------------------
# Gaussian conditioning / regression

def conditional(mean, cov, Y, X, x):
    """Exact conditional of Y given X = x.  Returns (mean_Y|x, cov_Y|x)."""
    if not X:
        return [mean[i] for i in Y], block(cov, Y, Y)
    Cxx = block(cov, X, X)
    Cxy = block(cov, X, Y)
    rhs = [Cxy[r] + [x[r] - mean[X[r]]] for r in range(len(X))]
    sol = solve(Cxx, rhs)          # columns: Cxx^-1 Cxy | Cxx^-1 (x - mu_x)
    ny = len(Y)
    B = [row[:ny] for row in sol]  # |X| x |Y|
    d = [row[ny] for row in sol]
    m = [mean[Y[a]] + sum((cov[Y[a]][X[r]] * d[r] for r in range(len(X))), Fraction(0)) for a in range(ny)]
    C = [[cov[Y[a]][Y[b]] - sum((cov[Y[a]][X[r]] * B[r][b] for r in range(len(X))), Fraction(0)) for b in range(ny)] for a in range(ny)]
    return m, C


def conditional_via_precision(mean, cov, Y, X, x):
    """Same quantity through the precision matrix of the (Y, X) marginal:
    cov = (L_YY)^-1, mean = mu_Y - L_YY^-1 L_YX (x - mu_X)."""
    if not X:
        return [mean[i] for i in Y], block(cov, Y, Y)
    idx = list(Y) + list(X)
    L = inv(block(cov, idx, idx))
    ny = len(Y)
    Lyy = [row[:ny] for row in L[:ny]]
    Lyx = [row[ny:] for row in L[:ny]]
    C = inv(Lyy)
    dx = [x[r] - mean[X[r]] for r in range(len(X))]
    t = [sum((Lyx[a][r] * dx[r] for r in range(len(X))), Fraction(0)) for a in range(ny)]
    m = [mean[Y[a]] - sum((C[a][b] * t[b] for b in range(ny)), Fraction(0)) for a in range(ny)]
    return m, C


def maxabs(M):
    if not M:
        return Fraction(0)
    if isinstance(M[0], list):
        return max((abs(x) for r in M for x in r), default=Fraction(0))
    return max((abs(x) for x in M), default=Fraction(0))
