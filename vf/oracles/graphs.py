"""Reference graph models over Python ints (bitmasks).  Imports nothing from the
code under check and nothing from numpy.

A graph on p nodes is a list ``out`` of p ints: bit j of ``out[i]`` is set iff the
matrix entry (i, j) is non-zero.  A PDAG has i -> j when only (i, j) is set and
i - j when both (i, j) and (j, i) are set.

Pair codes: the unordered pairs (i < j) in lexicographic order are numbered
0..m-1; a *PDAG code* has one base-4 digit per pair (0 none, 1 i->j, 2 j->i,
3 i-j), a *DAG code* one base-3 digit (0 none, 1 i->j, 2 j->i).
"""
import functools
import itertools


# ---------------------------------------------------------------------------
# basic conversions

def masks_from_rows(rows):
    return [sum(1 << j for j, v in enumerate(r) if v != 0) for r in rows]


def rows_from_masks(out):
    p = len(out)
    return [[(out[i] >> j) & 1 for j in range(p)] for i in range(p)]


def transpose(out):
    p = len(out)
    inn = [0] * p
    for i in range(p):
        m = out[i]
        j = 0
        while m:
            if m & 1:
                inn[j] |= 1 << i
            m >>= 1
            j += 1
    return inn


def bits(m):
    r = []
    j = 0
    while m:
        if m & 1:
            r.append(j)
        m >>= 1
        j += 1
    return r


def popcount(m):
    return bin(m).count("1")


class Parts:
    """Parents / children / neighbours / adjacency masks of a PDAG."""
    __slots__ = ("p", "out", "inn", "pa", "ch", "nb", "adj")

    def __init__(self, out):
        self.p = len(out)
        self.out = list(out)
        self.inn = transpose(out)
        self.pa = [self.inn[i] & ~self.out[i] for i in range(self.p)]
        self.ch = [self.out[i] & ~self.inn[i] for i in range(self.p)]
        self.nb = [self.out[i] & self.inn[i] for i in range(self.p)]
        self.adj = [self.out[i] | self.inn[i] for i in range(self.p)]


@functools.lru_cache(maxsize=None)
def pairs(p):
    return tuple((i, j) for i in range(p) for j in range(i + 1, p))


def pdag_from_code(p, code):
    out = [0] * p
    for (i, j) in pairs(p):
        d = code & 3
        code >>= 2
        if d & 1:
            out[i] |= 1 << j
        if d & 2:
            out[j] |= 1 << i
    return out


def code_from_pdag(out):
    p = len(out)
    code = 0
    for k, (i, j) in enumerate(pairs(p)):
        d = ((out[i] >> j) & 1) | (((out[j] >> i) & 1) << 1)
        code |= d << (2 * k)
    return code


def dag_from_code3(p, code):
    out = [0] * p
    for (i, j) in pairs(p):
        d = code % 3
        code //= 3
        if d == 1:
            out[i] |= 1 << j
        elif d == 2:
            out[j] |= 1 << i
    return out


def code3_from_dag(out):
    p = len(out)
    code = 0
    mul = 1
    for (i, j) in pairs(p):
        if (out[i] >> j) & 1:
            code += mul
        elif (out[j] >> i) & 1:
            code += 2 * mul
        mul *= 3
    return code


# ---------------------------------------------------------------------------
# cycles, orders, reachability

def has_cycle(succ):
    """Three-colour DFS on the digraph given by successor masks (self-loops and
    two-cycles are cycles)."""
    p = len(succ)
    colour = [0] * p
    for s in range(p):
        if colour[s]:
            continue
        stack = [(s, bits(succ[s]))]
        colour[s] = 1
        while stack:
            v, todo = stack[-1]
            if todo:
                w = todo.pop()
                if colour[w] == 1:
                    return True
                if colour[w] == 0:
                    colour[w] = 1
                    stack.append((w, bits(succ[w])))
            else:
                colour[v] = 2
                stack.pop()
    return False


def is_topological_order(order, succ):
    """order lists every node exactly once and every edge points forward."""
    p = len(succ)
    try:
        order = [int(x) for x in order]
    except Exception:
        return False
    if sorted(order) != list(range(p)):
        return False
    pos = {v: k for k, v in enumerate(order)}
    for i in range(p):
        for j in bits(succ[i]):
            if pos[i] >= pos[j]:
                return False
    return True


def topological_order(succ):
    """A topological order of an acyclic successor-mask graph (own Kahn, by counts)."""
    p = len(succ)
    indeg = [0] * p
    for i in range(p):
        for j in bits(succ[i]):
            indeg[j] += 1
    ready = [i for i in range(p) if indeg[i] == 0]
    order = []
    while ready:
        v = ready.pop()
        order.append(v)
        for w in bits(succ[v]):
            indeg[w] -= 1
            if indeg[w] == 0:
                ready.append(w)
    if len(order) != p:
        raise ValueError("cyclic")
    return order


def reach(succ, start_mask, removed=0):
    """Mask of nodes reachable (>= 0 steps) from start_mask avoiding ``removed``."""
    seen = start_mask & ~removed
    frontier = seen
    while frontier:
        nxt = 0
        for v in bits(frontier):
            nxt |= succ[v]
        nxt &= ~removed & ~seen
        seen |= nxt
        frontier = nxt
    return seen


def simple_paths(succ, a, b):
    """All simple paths a .. b along successor masks, as lists of nodes."""
    res = []

    def rec(v, path, used):
        if v == b:
            res.append(list(path))
            return
        for w in bits(succ[v] & ~used):
            path.append(w)
            rec(w, path, used | (1 << w))
            path.pop()

    rec(a, [a], 1 << a)
    return res


def components(nb):
    """Connected components through the symmetric masks ``nb`` (union-find)."""
    p = len(nb)
    parent = list(range(p))

    def find(x):
        while parent[x] != x:
            parent[x] = parent[parent[x]]
            x = parent[x]
        return x

    for i in range(p):
        for j in bits(nb[i]):
            ri, rj = find(i), find(j)
            if ri != rj:
                parent[ri] = rj
    comp = {}
    for i in range(p):
        comp.setdefault(find(i), set()).add(i)
    return [comp[find(i)] for i in range(p)]


# ---------------------------------------------------------------------------
# skeleton / v-structures / equivalence classes

def skeleton_pairs(out):
    p = len(out)
    s = 0
    for k, (i, j) in enumerate(pairs(p)):
        if ((out[i] >> j) | (out[j] >> i)) & 1:
            s |= 1 << k
    return s


def vstructures(out):
    """Unshielded colliders (i, c, j), i < j, over *directed* edges."""
    P = Parts(out)
    vs = set()
    for c in range(P.p):
        pas = bits(P.pa[c])
        for a in range(len(pas)):
            for b in range(a + 1, len(pas)):
                i, j = pas[a], pas[b]
                if not (P.adj[i] >> j) & 1:
                    vs.add((i, c, j))
    return vs


def signature(out):
    return (skeleton_pairs(out), frozenset(vstructures(out)))


@functools.lru_cache(maxsize=None)
def all_dag_codes(p):
    """All DAGs on p labelled nodes as base-3 codes (own acyclicity test)."""
    m = len(pairs(p))
    res = []
    for code in range(3 ** m):
        out = dag_from_code3(p, code)
        if not has_cycle(out):
            res.append(code)
    return tuple(res)


@functools.lru_cache(maxsize=None)
def class_table(p):
    """signature -> tuple of DAG codes (the Markov equivalence classes)."""
    table = {}
    for code in all_dag_codes(p):
        table.setdefault(signature(dag_from_code3(p, code)), []).append(code)
    return {k: tuple(v) for k, v in table.items()}


def mec_of(out):
    """All members of the Markov equivalence class of DAG ``out`` (as mask lists).
    Table lookup for p <= 5, orientation enumeration of the skeleton beyond."""
    p = len(out)
    if p <= 5:
        return [dag_from_code3(p, c) for c in class_table(p)[signature(out)]]
    if n_edges(out) > 13:
        res = mec_by_covered_reversals(out)
        if res is not None:
            return res
    return mec_by_orientation(out)


def mec_by_covered_reversals(out, limit=20000):
    """Class members by breadth-first search over covered-edge reversals (Chickering 1995: two DAGs are Markov equivalent iff
    one is reached from the other by a sequence of reversals of covered edges x -> y, i.e. pa(y) = pa(x) + {x}).  Cost is
    proportional to the class size, not to 2^edges: the route for dense graphs on 6..8 nodes.  Returns None when the class
    has more than ``limit`` members."""
    p = len(out)
    start = tuple(out)
    seen = {start}
    todo = [start]
    while todo:
        g = todo.pop()
        inn = transpose(list(g))
        for x in range(p):
            for y in bits(g[x]):
                if inn[y] == inn[x] | (1 << x):
                    h = list(g)
                    h[x] &= ~(1 << y)
                    h[y] |= 1 << x
                    t = tuple(h)
                    if t not in seen:
                        seen.add(t)
                        if len(seen) > limit:
                            return None
                        todo.append(t)
    return [list(t) for t in seen]


def mec_by_orientation(out):
    """Class members by enumerating the acyclic orientations of the skeleton (any p; exponential in the edges)."""
    sig = signature(out)
    return [g for g in acyclic_orientations(out) if signature(g) == sig]


def self_check(n=150, seed=0):
    """Cross-check the oracle's independent routes against each other (run by the graph checks at start-up): class table
    vs orientation enumeration, extension enumeration vs class membership, DFS vs Kahn.  Raises RuntimeError on
    disagreement: an oracle bug must never be reported as a violation of the code under check."""
    import random
    rnd = random.Random(seed)
    if len(all_dag_codes(4)) != 543 or len(class_table(4)) != 185 or len(all_dag_codes(3)) != 25 or len(class_table(3)) != 11:
        raise RuntimeError("oracle self-check: wrong number of DAGs / classes")
    codes = all_dag_codes(4)
    for _ in range(n):
        out = dag_from_code3(4, rnd.choice(codes))
        a = sorted(tuple(g) for g in mec_of(out))
        b = sorted(tuple(g) for g in mec_by_orientation(out))
        if a != b:
            raise RuntimeError("oracle self-check: class table and orientation enumeration disagree")
        if sorted(tuple(g) for g in mec_by_covered_reversals(out)) != a:
            raise RuntimeError("oracle self-check: covered-edge-reversal search and class table disagree")
        # the extensions of the essential graph are exactly the class
        ess = union_graph([list(g) for g in a], 4)
        c = sorted(tuple(g) for g in extensions(ess))
        if c != a:
            raise RuntimeError("oracle self-check: extensions(essential graph) != class")
        try:
            topological_order(out)
            kahn_cyclic = False
        except ValueError:
            kahn_cyclic = True
        if kahn_cyclic or has_cycle(out):
            raise RuntimeError("oracle self-check: a DAG code is reported cyclic")
    for _ in range(n):
        m = [rnd.getrandbits(5) for _ in range(5)]
        try:
            topological_order(m)
            k = False
        except ValueError:
            k = True
        if k != has_cycle(m):
            raise RuntimeError("oracle self-check: DFS and Kahn disagree")
    return True


def acyclic_orientations(out):
    """All acyclic orientations of the skeleton of ``out``."""
    p = len(out)
    inn = transpose(out)
    edges = [(i, j) for (i, j) in pairs(p) if ((out[i] | inn[i]) >> j) & 1]
    res = []
    for choice in range(1 << len(edges)):
        g = [0] * p
        for k, (i, j) in enumerate(edges):
            if (choice >> k) & 1:
                g[j] |= 1 << i
            else:
                g[i] |= 1 << j
        if not has_cycle(g):
            res.append(g)
    return res


def directed_part_acyclic(out):
    return not has_cycle(Parts(out).ch)


def extensions(out):
    """Consistent extensions of PDAG ``out``: DAGs with the same skeleton, every
    directed edge kept, and the same v-structures.  Enumerates the 2^u
    orientations of the u undirected edges."""
    P = Parts(out)
    p = P.p
    und = [(i, j) for (i, j) in pairs(p) if (P.nb[i] >> j) & 1]
    target_vs = vstructures(out)
    base = list(P.ch)
    res = []
    for choice in range(1 << len(und)):
        g = list(base)
        for k, (i, j) in enumerate(und):
            if (choice >> k) & 1:
                g[j] |= 1 << i
            else:
                g[i] |= 1 << j
        if has_cycle(g):
            continue
        if vstructures(g) != target_vs:
            continue
        res.append(g)
    return res


def union_graph(dags, p):
    """Essential graph of a non-empty set of DAGs with a common skeleton."""
    out = [0] * p
    for g in dags:
        for i in range(p):
            out[i] |= g[i]
    return out


def imec_of(out, targets):
    """Members of the MEC of DAG ``out`` whose parent sets agree with ``out`` on
    every target."""
    inn = transpose(out)
    res = []
    for g in mec_of(out):
        gi = transpose(g)
        if all(gi[t] == inn[t] for t in targets):
            res.append(g)
    return res


def n_edges(out):
    return sum(popcount(m) for m in out)


def random_dag(rng, p, density):
    """Random DAG masks from a random order; rng is a numpy Generator."""
    order = list(rng.permutation(p))
    out = [0] * p
    for a in range(p):
        for b in range(a + 1, p):
            if rng.random() < density:
                out[int(order[a])] |= 1 << int(order[b])
    return out
