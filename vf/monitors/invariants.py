"""Class invariants (icontract) for the three model classes: the bit-exact
fingerprint of all attributes taken right after construction must be the same
whenever a public method is entered or left (C14: models are immutable under
use).  The condition records a violation on the recorder and returns True, so
that the surrounding history continues and later effects are still observed."""
import weakref

import icontract

from ..core import util


class InvariantBroken(Exception):
    pass


class State:
    rec = None
    snapshots = {}          # id(obj) -> (weakref, fingerprint after __init__)
    evaluations = 0


def _fp(obj):
    # public attributes only (the property speaks of "all public attributes"): a private, correctly managed cache that fills as the
    # object is used is not a change of the model - what it may do to later *results* is judged by the twin comparisons
    return util.fingerprint(dict((k, v) for k, v in vars(obj).items() if not k.startswith("_")))


def model_unchanged(self):
    S = State
    if S.rec is None:
        return True
    S.evaluations += 1
    S.rec.count("invariant:evaluations")
    key = id(self)
    snap = S.snapshots.get(key)
    if snap is None or snap[0]() is not self:
        try:
            S.snapshots[key] = (weakref.ref(self), _fp(self))
        except TypeError:
            S.snapshots[key] = (lambda s=self: s, _fp(self))
        S.rec.count("invariant:snapshots")
        return True
    now = _fp(self)
    if now != snap[1]:
        rec = S.rec
        fam, case = rec.current if rec.current else ("?", None)
        changed = [a for (a, fa), (b, fb) in zip(snap[1][1], now[1]) if fa != fb] if len(snap[1][1]) == len(now[1]) else ["<attribute set changed>"]
        rec.violation("C14:model-state-changed-" + type(self).__name__, fam, case,
                      "%s attributes %s differ from their values after construction" % (type(self).__name__, changed),
                      attributes=[str(c) for c in changed])
        S.snapshots[key] = (snap[0], now)      # report each change once
    return True


def install(classes, rec):
    State.rec = rec
    for cls in classes:
        icontract.invariant(model_unchanged, error=InvariantBroken)(cls)
    return [c.__name__ for c in classes]
