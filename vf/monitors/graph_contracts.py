"""icontract post-conditions for the graph relations (C15) and structural
decompositions (C16) of sempler.utils, installed on the *module attributes* so
that they also evaluate on the library's internal calls.

Each condition is a named function whose parameters match the wrapped function's
(plus ``result``).  Conditions *record* a violation on the recorder and return
True, so that one broken relation does not abort the surrounding computation and
every later evaluation is still observed.  Calls outside the property's quantifier
(non-square input, non-zero diagonal, cyclic directed part, weighted two-cycles)
are counted ``out_of_domain`` and not judged.
"""
import numpy as np
import icontract

from ..oracles import graphs as G


class ContractBroken(Exception):
    pass


class State:
    rec = None
    rate = 1            # evaluate 1 in `rate` calls (piggy-backed internal calls)
    counter = 0
    armed = True
    tag = "direct"      # "direct": called by the workload; "internal": reached through higher-level library routines


_DOM_CACHE = {}
_PARTS_CACHE = {}


def _parts(out):
    key = tuple(out)
    P = _PARTS_CACHE.get(key)
    if P is None:
        if len(_PARTS_CACHE) > 64:
            _PARTS_CACHE.clear()
        P = _PARTS_CACHE[key] = G.Parts(out)
    return P


def _dom(A, need_binary_or_dag=True):
    """Memoised on the matrix *content* (bytes), never on its identity: the library hands the same matrix to the relation
    functions thousands of times inside one high-level call."""
    if not isinstance(A, np.ndarray) or A.ndim != 2 or A.dtype == object:
        return _dom_uncached(A, need_binary_or_dag)
    key = (A.shape, A.dtype.str, need_binary_or_dag, A.tobytes())
    try:
        return _DOM_CACHE[key]
    except KeyError:
        pass
    r = _dom_uncached(A, need_binary_or_dag)
    if len(_DOM_CACHE) > 64:
        _DOM_CACHE.clear()
    _DOM_CACHE[key] = r
    return r


def _dom_uncached(A, need_binary_or_dag=True):
    """Returns masks if A is inside the quantifier ("PDAG: binary with acyclic
    directed part, or DAG weight matrix"), else None."""
    if not isinstance(A, np.ndarray) or A.ndim != 2 or A.shape[0] != A.shape[1]:
        return None
    if A.dtype == object or A.dtype.kind not in "biuf":
        return None
    rows = A.tolist()
    p = len(rows)
    if p > 20:
        return None
    out = G.masks_from_rows(rows)
    for i in range(p):
        if (out[i] >> i) & 1:
            return None
    if need_binary_or_dag:
        binary = all(v == 0 or v == 1 for r in rows for v in r)
        inn = G.transpose(out)
        two_cycle = any(out[i] & inn[i] for i in range(p))
        if not binary and two_cycle:
            return None
    if not G.directed_part_acyclic(out):
        return None
    return out


def _sample():
    S = State
    if not S.armed or S.rec is None:
        return False
    S.counter += 1
    return S.counter % S.rate == 0


def _seen(name, out):
    State.rec.count("contract:%s:%s" % (name, ("evaluated-" + State.tag) if out is not None else "out_of_domain"))
    if out is not None:
        State.rec.count("contract-evaluations")


def _viol(prop, name, what, **detail):
    rec = State.rec
    fam, case = rec.current if rec.current else ("?", None)
    rec.violation("%s:%s" % (prop, name), fam, case, what, function=name, **detail)
    return True


def _as_int_set(result):
    if not isinstance(result, (set, frozenset)):
        return None
    try:
        return set(int(x) for x in result)
    except Exception:
        return None


def _node(i, p):
    try:
        k = int(i)
    except Exception:
        return None
    return k if 0 <= k < p else None


# ---------------------------------------------------------------------------
# C15: relations

def _mask_relation(name, which):
    def check(i, A, result):
        if not _sample():
            return True
        out = _dom(A, need_binary_or_dag=False)
        _seen(name, out)
        if out is None:
            return True
        k = _node(i, len(out))
        if k is None:
            return True
        want = set(G.bits(getattr(_parts(out), which)[k]))
        got = _as_int_set(result)
        if got != want:
            return _viol("C15", name, "%s(%d) = %r, definition gives %s" % (name, k, result, sorted(want)),
                         matrix=A, node=k, expected=sorted(want))
        return True
    return check


def pa_matches(i, A, result):
    return _mask_relation("pa", "pa")(i, A, result)


def ch_matches(i, A, result):
    return _mask_relation("ch", "ch")(i, A, result)


def neighbors_matches(i, A, result):
    return _mask_relation("neighbors", "nb")(i, A, result)


def adj_matches(i, A, result):
    return _mask_relation("adj", "adj")(i, A, result)


def na_matches(y, x, A, result):
    if not _sample():
        return True
    out = _dom(A, need_binary_or_dag=False)
    _seen("na", out)
    if out is None:
        return True
    yy, xx = _node(y, len(out)), _node(x, len(out))
    if yy is None or xx is None:
        return True
    P = _parts(out)
    want = set(G.bits(P.nb[yy] & P.adj[xx]))
    if _as_int_set(result) != want:
        return _viol("C15", "na", "na(%d,%d) = %r, definition gives %s" % (yy, xx, result, sorted(want)), matrix=A)
    return True


def _reach_relation(name, forward, include_self):
    def check(i, A, result):
        if not _sample():
            return True
        out = _dom(A, need_binary_or_dag=False)
        _seen(name, out)
        if out is None:
            return True
        k = _node(i, len(out))
        if k is None:
            return True
        P = _parts(out)
        succ = P.ch if forward else P.pa
        m = G.reach(succ, 1 << k)
        if not include_self:
            m &= ~(1 << k)
        want = set(G.bits(m))
        if _as_int_set(result) != want:
            return _viol("C15", name, "%s(%d) = %r, directed reachability gives %s" % (name, k, result, sorted(want)),
                         matrix=A, node=k, expected=sorted(want))
        return True
    return check


def ancestors_matches(i, A, result):
    return _reach_relation("ancestors", False, False)(i, A, result)


def an_matches(i, A, result):
    return _reach_relation("an", False, False)(i, A, result)


def descendants_matches(i, A, result):
    return _reach_relation("descendants", True, True)(i, A, result)


def desc_matches(i, A, result):
    return _reach_relation("desc", True, True)(i, A, result)


def transitive_closure_matches(A, result):
    if not _sample():
        return True
    out = _dom(A)
    if out is not None and any(_parts(out).nb):
        out = None      # only DAGs are in scope (others raise ValueError before the post-condition)
    _seen("transitive_closure", out)
    if out is None:
        return True
    p = len(out)
    want = [G.reach(out, 1 << i) & ~(1 << i) for i in range(p)]
    got = G.masks_from_rows(np.asarray(result).tolist())
    if got != want:
        return _viol("C15", "transitive_closure", "closure pattern differs from directed reachability",
                     matrix=A, returned=np.asarray(result), expected=G.rows_from_masks(want))
    return True


def semi_directed_paths_matches(fro, to, A, result):
    if not _sample():
        return True
    out = _dom(A, need_binary_or_dag=False)
    if out is not None and len(out) > 8 and G.n_edges(out) > 16:
        out = None
    _seen("semi_directed_paths", out)
    if out is None:
        return True
    a, b = _node(fro, len(out)), _node(to, len(out))
    if a is None or b is None:
        return True
    P = _parts(out)
    succ = [P.ch[i] | P.nb[i] for i in range(P.p)]
    want = sorted(tuple(x) for x in G.simple_paths(succ, a, b))
    try:
        got = sorted(tuple(int(v) for v in path) for path in result)
    except Exception:
        return _viol("C15", "semi_directed_paths", "result is not a list of node lists: %r" % (result,), matrix=A)
    if got != want:
        return _viol("C15", "semi_directed_paths",
                     "paths %d..%d: returned %d, definition gives %d (compared as sorted multisets)" % (a, b, len(got), len(want)),
                     matrix=A, fro=a, to=b, returned=[list(x) for x in got][:20], expected=[list(x) for x in want][:20])
    return True


def separates_matches(S, A, B, G_, result):
    # NB: the wrapped function's last parameter is called G; icontract binds by name, see install()
    return True


def _separates_check(S, A, B, Gm, result):
    if not _sample():
        return True
    out = _dom(Gm, need_binary_or_dag=False)
    _seen("separates", out)
    if out is None:
        return True
    try:
        Sm = sum(1 << int(x) for x in S)
        Am = sum(1 << int(x) for x in A)
        Bm = sum(1 << int(x) for x in B)
    except Exception:
        return True
    P = _parts(out)
    succ = [P.ch[i] | P.nb[i] for i in range(P.p)]
    reachable = G.reach(succ, Am, removed=Sm)
    want = not (reachable & Bm)
    if bool(result) != want:
        return _viol("C15", "separates", "separates(S=%s, A=%s, B=%s) = %r, path definition gives %s"
                     % (sorted(map(int, S)), sorted(map(int, A)), sorted(map(int, B)), result, want), matrix=Gm)
    return True


def chain_component_matches(i, G_, result):
    return True


def _chain_component_check(i, Gm, result):
    if not _sample():
        return True
    out = _dom(Gm, need_binary_or_dag=False)
    _seen("chain_component", out)
    if out is None:
        return True
    k = _node(i, len(out))
    if k is None:
        return True
    want = G.components(_parts(out).nb)[k]
    if _as_int_set(result) != want:
        return _viol("C15", "chain_component", "chain_component(%d) = %r, undirected connectivity gives %s" % (k, result, sorted(want)),
                     matrix=Gm, node=k)
    return True


# ---------------------------------------------------------------------------
# C16: decompositions

def _exact_rows(a):
    return np.asarray(a).tolist()


def _split_check(name, directed):
    def check(P, result):
        if not _sample():
            return True
        out = _dom(P)
        _seen(name, out)
        if out is None:
            return True
        rows = P.tolist()
        p = len(rows)
        parts = _parts(out)
        sel = parts.ch if directed else parts.nb
        want = [[rows[i][j] if (sel[i] >> j) & 1 else 0 for j in range(p)] for i in range(p)]
        res = np.asarray(result)
        if res.shape != P.shape or res.tolist() != want:
            return _viol("C16", name, "%s does not keep exactly the %s entries with their values" % (name, "directed" if directed else "undirected"),
                         matrix=P, returned=res, expected=want)
        return True
    return check


def only_directed_matches(P, result):
    return _split_check("only_directed", True)(P, result)


def only_undirected_matches(P, result):
    return _split_check("only_undirected", False)(P, result)


def skeleton_matches(A, result):
    if not _sample():
        return True
    out = _dom(A)
    _seen("skeleton", out)
    if out is None:
        return True
    parts = _parts(out)
    p = parts.p
    want = [[(parts.adj[i] >> j) & 1 for j in range(p)] for i in range(p)]
    res = np.asarray(result)
    if res.shape != A.shape or res.tolist() != want:
        return _viol("C16", "skeleton", "skeleton is not the symmetric 0/1 adjacency", matrix=A, returned=res, expected=want)
    return True


def undirected_edges_matches(P, result):
    if not _sample():
        return True
    out = _dom(P)
    _seen("undirected_edges", out)
    if out is None:
        return True
    parts = _parts(out)
    want = sorted((i, j) for (i, j) in G.pairs(parts.p) if (parts.nb[i] >> j) & 1)
    try:
        got = sorted(tuple(sorted((int(a), int(b)))) for (a, b) in result)
    except Exception:
        return _viol("C16", "undirected_edges", "result is not a list of pairs: %r" % (result,), matrix=P)
    if got != want:
        return _viol("C16", "undirected_edges", "undirected edge list %s, expected each of %s exactly once" % (got, want), matrix=P)
    return True


def directed_edges_matches(A, result):
    if not _sample():
        return True
    out = _dom(A)
    _seen("directed_edges", out)
    if out is None:
        return True
    parts = _parts(out)
    want = sorted((i, j) for i in range(parts.p) for j in G.bits(parts.ch[i]))
    try:
        got = sorted((int(a), int(b)) for (a, b) in result)
    except Exception:
        return _viol("C16", "directed_edges", "result is not a list of pairs: %r" % (result,), matrix=A)
    if got != want:
        return _viol("C16", "directed_edges", "directed edge list %s, expected each of %s exactly once" % (got, want), matrix=A)
    return True


def edge_weights_matches(W, result):
    if not _sample():
        return True
    out = _dom(W)
    _seen("edge_weights", out)
    if out is None:
        return True
    rows = W.tolist()
    want = {(i, j): rows[i][j] for i in range(len(rows)) for j in range(len(rows)) if rows[i][j] != 0}
    try:
        got = {(int(k[0]), int(k[1])): (v.item() if hasattr(v, "item") else v) for k, v in result.items()}
        ok = isinstance(result, dict) and len(result) == len(got)
    except Exception:
        ok, got = False, None
    if not ok or got != want:
        return _viol("C16", "edge_weights", "edge-weight dictionary differs from the non-zero entries", matrix=W,
                     returned=repr(result)[:500])
    return True


def vstructures_matches(A, result):
    if not _sample():
        return True
    out = _dom(A)
    _seen("vstructures", out)
    if out is None:
        return True
    want = G.vstructures(out)
    try:
        got = set((int(a), int(b), int(c)) for (a, b, c) in result)
        ok = isinstance(result, (set, frozenset)) and len(got) == len(result)
    except Exception:
        ok, got = False, None
    if not ok or got != want:
        return _viol("C16", "vstructures", "v-structures %r, unshielded colliders are %s" % (result, sorted(want)), matrix=A,
                     expected=sorted(want))
    return True


def moral_graph_matches(A, result):
    if not _sample():
        return True
    out = _dom(A)
    _seen("moral_graph", out)
    if out is None:
        return True
    parts = _parts(out)
    p = parts.p
    m = list(parts.adj)
    for c in range(p):
        pas = G.bits(parts.pa[c])
        for a in pas:
            for b in pas:
                if a != b:
                    m[a] |= 1 << b
    want = [[(m[i] >> j) & 1 for j in range(p)] for i in range(p)]
    res = np.asarray(result)
    if res.shape != A.shape or res.tolist() != want:
        return _viol("C16", "moral_graph", "moral graph differs from skeleton + married parents", matrix=A, returned=res, expected=want)
    return True


def induced_subgraph_matches(S, G_, result):
    return True


def _induced_subgraph_check(S, Gm, result):
    if not _sample():
        return True
    out = _dom(Gm)
    _seen("induced_subgraph", out)
    if out is None:
        return True
    try:
        Sset = set(int(x) for x in S)
    except Exception:
        return True
    rows = Gm.tolist()
    p = len(rows)
    want = [[rows[i][j] if (i in Sset and j in Sset) else 0 for j in range(p)] for i in range(p)]
    res = np.asarray(result)
    if res.shape != Gm.shape or res.tolist() != want:
        return _viol("C16", "induced_subgraph", "induced_subgraph(S=%s) does not keep exactly the entries inside S" % sorted(Sset),
                     matrix=Gm, returned=res, expected=want)
    return True


def is_clique_matches(S, A, result):
    if not _sample():
        return True
    out = _dom(A)
    _seen("is_clique", out)
    if out is None:
        return True
    try:
        nodes = sorted(set(int(x) for x in S))
    except Exception:
        return True
    if any(not 0 <= v < len(out) for v in nodes):
        return True
    parts = _parts(out)
    want = all((parts.adj[a] >> b) & 1 for a in nodes for b in nodes if a < b)
    if bool(result) != want:
        return _viol("C16", "is_clique", "is_clique(%s) = %r, skeleton says %s" % (nodes, result, want), matrix=A)
    return True


def is_complete_matches(P, result):
    if not _sample():
        return True
    out = _dom(P)
    _seen("is_complete", out)
    if out is None:
        return True
    parts = _parts(out)
    want = all((parts.adj[i] >> j) & 1 for (i, j) in G.pairs(parts.p))
    if bool(result) != want:
        return _viol("C16", "is_complete", "is_complete = %r, skeleton says %s" % (result, want), matrix=P)
    return True


def degrees_matches(A, result):
    if not _sample():
        return True
    out = _dom(A)
    _seen("degrees", out)
    if out is None:
        return True
    parts = _parts(out)
    want = [G.popcount(parts.adj[i]) for i in range(parts.p)]
    try:
        got = [int(x) for x in np.asarray(result).tolist()]
        ok = np.asarray(result).shape == (parts.p,) and all(float(x) == int(x) for x in np.asarray(result).tolist())
    except Exception:
        ok, got = False, None
    if not ok or got != want:
        return _viol("C16", "degrees", "degrees %r, skeleton gives %s" % (result, want), matrix=A)
    return True


# ---------------------------------------------------------------------------

C15_CONTRACTS = {
    "pa": pa_matches, "ch": ch_matches, "neighbors": neighbors_matches, "adj": adj_matches, "na": na_matches,
    "ancestors": ancestors_matches, "an": an_matches, "descendants": descendants_matches, "desc": desc_matches,
    "transitive_closure": transitive_closure_matches, "semi_directed_paths": semi_directed_paths_matches,
}
C16_CONTRACTS = {
    "only_directed": only_directed_matches, "only_undirected": only_undirected_matches, "skeleton": skeleton_matches,
    "undirected_edges": undirected_edges_matches, "directed_edges": directed_edges_matches, "edge_weights": edge_weights_matches,
    "vstructures": vstructures_matches, "moral_graph": moral_graph_matches, "is_clique": is_clique_matches,
    "is_complete": is_complete_matches, "degrees": degrees_matches,
}


def _install_named_G(U, name, checker):
    """separates / chain_component / induced_subgraph have a parameter called ``G``;
    build the condition with exactly the wrapped function's parameter names."""
    f = getattr(U, name)
    if name == "separates":
        def separates_holds(S, A, B, G, result):
            return checker(S, A, B, G, result)
        cond = separates_holds
    elif name == "chain_component":
        def chain_component_holds(i, G, result):
            return checker(i, G, result)
        cond = chain_component_holds
    else:
        def induced_subgraph_holds(S, G, result):
            return checker(S, G, result)
        cond = induced_subgraph_holds
    setattr(U, name, icontract.ensure(cond, error=ContractBroken)(f))


def install(U, rec, which=("C15", "C16"), rate=1):
    """Wrap the module attributes of sempler.utils.  Returns the list of wrapped names."""
    State.rec = rec
    State.rate = rate
    wrapped = []
    if "C15" in which:
        for name, cond in C15_CONTRACTS.items():
            setattr(U, name, icontract.ensure(cond, error=ContractBroken)(getattr(U, name)))
            wrapped.append(name)
        _install_named_G(U, "separates", _separates_check)
        _install_named_G(U, "chain_component", _chain_component_check)
        wrapped += ["separates", "chain_component"]
    if "C16" in which:
        for name, cond in C16_CONTRACTS.items():
            setattr(U, name, icontract.ensure(cond, error=ContractBroken)(getattr(U, name)))
            wrapped.append(name)
        _install_named_G(U, "induced_subgraph", _induced_subgraph_check)
        wrapped.append("induced_subgraph")
    return wrapped
