"""Argument-fingerprint and aliasing monitor (C14).

``wrap(owner, name, ...)`` replaces ``owner.name`` by a wrapper that, for calls
arriving from outside the library (depth 0), takes a deep bit-exact fingerprint of
every argument (and of ``self`` for methods) before the call and compares it after
the call - also when the call raises.  Results are scanned for ndarrays that share
memory with any argument / model array.  Nested (library-internal) calls are not
judged: what they do to caller data is visible at the outer boundary.
"""
import functools

import numpy as np

from ..core import util


class State:
    rec = None
    depth = 0
    armed = True
    exempt_args = {("cartesian", "out"), ("cartesian", 1)}
    exempt_alias = {"cartesian"}


def arrays_in(o, depth=0, acc=None):
    if acc is None:
        acc = []
    if depth > 4:
        return acc
    if isinstance(o, np.ndarray):
        acc.append(o)
    elif isinstance(o, (list, tuple, set, frozenset)):
        for x in o:
            arrays_in(x, depth + 1, acc)
    elif isinstance(o, dict):
        for x in o.values():
            arrays_in(x, depth + 1, acc)
    elif hasattr(o, "__dict__") and not callable(o) and not isinstance(o, type):
        for x in vars(o).values():
            arrays_in(x, depth + 1, acc)
    return acc


def _defaults_of(f):
    g = getattr(f, "__vf_original__", f)
    while hasattr(g, "__wrapped__"):
        g = g.__wrapped__
    return (getattr(g, "__defaults__", None), getattr(g, "__kwdefaults__", None))


def _fp_args(qual, args, kwargs, f=None):
    fps = {}
    if f is not None:
        # mutable default arguments are shared by all later calls: they must never change either
        fps["<default arguments>"] = util.fingerprint(_defaults_of(f))
    for i, a in enumerate(args):
        if (qual, i) in State.exempt_args or (qual == "__init__" and i == 0):
            continue
        fps[i] = util.fingerprint(a)
    for k, a in kwargs.items():
        if (qual, k) in State.exempt_args:
            continue
        fps[k] = util.fingerprint(a)
    return fps


def wrap(owner, name, label=None, method=False):
    f = owner.__dict__[name] if isinstance(owner, type) else getattr(owner, name)
    qual = label or name
    short = qual.split(".")[-1]

    @functools.wraps(f)
    def monitored(*args, **kwargs):
        S = State
        if not S.armed or S.rec is None or S.depth > 0:
            return f(*args, **kwargs)
        rec = S.rec
        before = _fp_args(short, args, kwargs, f)
        S.depth += 1
        raised = None
        try:
            result = f(*args, **kwargs)
        except BaseException as e:
            raised = e
            result = None
        finally:
            S.depth -= 1
        rec.count("argmon:calls")
        rec.count("argmon:" + qual)
        after = _fp_args(short, args, kwargs, f)
        fam, case = rec.current if rec.current else ("?", None)
        for k in before:
            if before[k] != after[k]:
                what = "self" if (method and k == 0) else "argument %r" % (k,)
                rec.violation("C14:%s-modified-by-%s" % ("model" if (method and k == 0) else "argument", qual), fam, case,
                              "%s modified %s%s" % (qual, what, " (call raised %s)" % type(raised).__name__ if raised else ""),
                              function=qual, which=str(k))
        if raised is not None:
            raise raised
        if short not in S.exempt_alias and name != "__init__":
            res_arrays = arrays_in(result)
            if res_arrays:
                arg_arrays = arrays_in(list(args) + list(kwargs.values()))
                for ra in res_arrays:
                    if ra.size == 0:
                        continue
                    for aa in arg_arrays:
                        if aa.size and np.shares_memory(ra, aa):
                            rec.violation("C14:result-aliases-input-" + qual, fam, case,
                                          "an array returned by %s shares memory with %s" % (qual, "the model / an argument"), function=qual)
                            return result
                rec.count("argmon:alias-checked")
        return result
    monitored.__vf_original__ = f
    setattr(owner, name, monitored)
    return monitored


def install_module(mod, rec, prefix, skip=()):
    State.rec = rec
    names = []
    for name, obj in list(vars(mod).items()):
        if name.startswith("_") or name in skip:
            continue
        if callable(obj) and getattr(obj, "__module__", None) == mod.__name__ and not isinstance(obj, type):
            wrap(mod, name, label=prefix + name)
            names.append(name)
    return names


def install_class(cls, rec, prefix, methods):
    State.rec = rec
    done = []
    for name in methods:
        if name in cls.__dict__:
            wrap(cls, name, label=prefix + name, method=True)
            done.append(name)
    return done
