"""C04 - finite samples follow the population law.

Monitor: sample-array monitor on NormalDistribution.sample, LGANM.sample(n, ...)
and ANM.sample(n, ...).  Oracle: the population law (the library's own
sample(population=True); C01 validates that law independently), z-scores of the
sample mean / covariance with exact Wishart variances and the escalation rule,
point-mass and null-space residuals, DKW band per marginal, lag-1 independence,
repeated-row detection.
"""
import math

import numpy as np

from ..core import util
from ..oracles import graphs as G
from ..oracles import stats as S
from ..workloads import gmat, callforms

TECHNIQUE = "runtime sample monitor on NormalDistribution/LGANM/ANM.sample: shape, Wishart-variance z-scores with three-fold escalation, exact point-mass columns, null-space residuals, per-marginal DKW band, lag-1 and repeated-row detection; pooled standardised moment errors over hundreds of independent replicates; linear ANM vs LGANM law"
LEVEL_TEXT = ("Samples of size 4e4 (quick) / 4e5 (thorough) from random LGANMs (signed weights, unequal variances, all three "
              "intervention kinds incl. point masses on non-source nodes), NormalDistributions with full-rank, rank-deficient and "
              "diagonal covariances, and linear ANMs with the library's normal noise paired with their LGANM are monitored: shape, "
              "every mean and covariance entry within the sampling rate of the population law, constants reproduced up to numerical "
              "tolerance, rows i.i.d. (no repeats, no lag-1 correlation), Gaussian marginals.  Detects relative variance errors above "
              "about 6% (quick) / 2% (thorough) and mean shifts above 0.04 / 0.012 standard deviations.")
LEVEL_NOTE = "Statistical: |z| > 6.5 is a suspicion, confirmed only if the same entry exceeds 5 on three fresh seeds at 4x the size; DKW at delta = 1e-12."
RULE = ("cases: one sampled array = (model, interventions, n, seed).  distinct = distinct canonical case; non-trivial = p >= 2 with a "
        "non-diagonal population covariance, or an intervention, or a singular covariance"
        " Also: intervention dicts in random key order, interventions in the model's own (tiny / huge) units, one dict object swept in place between calls (the reference law comes from a separate fresh instance), check_valid='warn'/'raise', joint normality by random projections, lag-2/7 and half-sample homogeneity statistics.")
ASSUMPTIONS = ["the population law used as reference is the library's sample(population=True) (validated separately by C01)",
               "targets that are both shift- and noise-intervened are excluded from the ANM/LGANM comparison (as in the property)"]
EXHAUSTIVE = {"quick": False, "thorough": False}
SOFT_LIMIT = {"quick": 1200, "thorough": 5400}      # generous wall-clock watchdogs (a loaded machine must not cut a workload short); normal run times are in the evidence
REQUIRED_FUNCS = ["sempler/normal_distribution.py:NormalDistribution.sample", "sempler/lganm.py:LGANM.sample", "sempler/anm.py:ANM.sample",
                  "sempler/noise.py:normal"]
REQUIRED_COUNTERS = {"quick": {"judged:nd": 200, "judged:lganm": 300, "judged:anm-pair": 200, "point-mass-columns": 100, "singular-covariances": 50,
                               "shape:n<=2": 150, "anm:var!=1": 300, "pooled:variance-judged": 48, "pooled:mean-judged": 48, "pooled:covariance-judged": 48, "pooled:replicates": 20000},
                     "thorough": {"judged:nd": 400, "judged:lganm": 600, "judged:anm-pair": 400, "point-mass-columns": 200, "singular-covariances": 100,
                                  "shape:n<=2": 300, "anm:var!=1": 600, "pooled:variance-judged": 190, "pooled:mean-judged": 190, "pooled:covariance-judged": 190, "pooled:replicates": 300000}}
N = {"quick": {"n": 40000, "nd": 240, "lganm": 330, "anm": 240, "shape": 180}, "thorough": {"n": 400000, "nd": 1400, "lganm": 2000, "anm": 1400, "shape": 800}}


def _iv(rng, p, allow_point=True, anm_safe=False, unit=1.0):
    d = {"do": {}, "noise": {}, "shift": {}}
    for j in (int(v) for v in rng.permutation(p)):     # keys inserted in random, not ascending, order
        r = rng.random()
        if r > 0.45:
            continue
        m = float(np.round(rng.uniform(-4, 4), 2)) * unit
        v = float(np.round(rng.uniform(0.05, 4), 2)) * unit * unit
        if allow_point and rng.random() < 0.3:
            v = 0.0
        kinds = ["do", "noise", "shift"]
        k = kinds[int(rng.integers(3))]
        d[k][j] = (m, v) if (v > 0 or rng.random() < 0.5) else m       # a scalar is the documented short form of (m, 0)
        if rng.random() < 0.25:       # overlaps
            k2 = kinds[int(rng.integers(3))]
            if k2 != k and not (anm_safe and {k, k2} == {"noise", "shift"}):
                d[k2][j] = (float(np.round(rng.uniform(-4, 4), 2)) * unit, float(np.round(rng.uniform(0.05, 4), 2)) * unit * unit)
    return d


def _lganm(rng):
    p = int(rng.integers(1, 9))
    out = gmat.random_dag_masks(rng, p)
    W = gmat.weighted(rng, out, "signed")
    means = np.round(rng.uniform(-3, 3, p), 2)
    variances = np.round(rng.uniform(0.05, 5, p), 2)
    variances[rng.random(p) < 0.08] = 0.0
    unit = 1.0
    if rng.random() < 0.2:      # the law is scale-equivariant: tiny / huge units
        unit = float(10.0 ** rng.integers(-9, 7))
        means, variances = means * unit, variances * unit * unit
    _lganm.last_unit = unit
    return W, means, variances


POOL = {"quick": {"cases": 64, "K": 256, "n": 20000}, "thorough": {"cases": 256, "K": 1024, "n": 40000}}


def gen(tier, seed, shard, nshards):
    cfg = N[tier]
    # pooled moments: K independent small (model, sample) replicates judged together - sensitive to systematic errors of a
    # fraction of a percent that no single sample shows
    for i in range(POOL[tier]["cases"]):
        if i % nshards == shard:
            yield "pooled", {"kind": ("nd", "lganm", "lganm-iv", "anm")[i % 4], "i": i, "K": POOL[tier]["K"], "n": POOL[tier]["n"], "base": int(seed)}
    # a few very long seeded samples (batched generation re-using a seed shows as repeated blocks of rows)
    for i, nlong in enumerate((2**18 + 4321, 2**16 + 77, 2**17 + 1234, 2**19 + 99, 2**23 + 1001) if tier == "quick" else (2**18 + 4321, 2**20 + 4321, 2**21 + 99, 2**19 + 5, 1500001, 2**16 + 77, 2**23 + 1001, 2**23 + 5003)):       # the last ones: n * p beyond 2**24 values
        if i % nshards == shard:
            rng = util.rng_for("C04", seed, "long", i)
            if i % 2 == 0:
                B = rng.normal(size=(2, 2))
                yield "nd", {"mean": np.round(rng.uniform(-5, 5, 2), 2), "cov": B @ B.T + 0.1 * np.eye(2), "n": nlong, "rs": int(rng.integers(0, 2**32)), "check_valid": "ignore"}
            else:
                W = np.array([[0.0, 1.5, 0.0], [0.0, 0.0, -0.7], [0.0, 0.0, 0.0]])
                yield "lganm", {"W": W, "means": np.array([0.5, -1.0, 2.0]), "variances": np.array([1.0, 0.5, 2.0]),
                                "iv": {"do": {}, "noise": {}, "shift": {0: (1.0, 0.5)}}, "n": nlong, "rs": int(rng.integers(0, 2**32))}
    k = 0
    for i in range(cfg["nd"]):
        if k % nshards == shard:
            rng = util.rng_for("C04", seed, "nd", i)
            p = int(rng.integers(1, 9))
            style = i % 3
            if style == 0:
                B = rng.normal(size=(p, p))
                cov = B @ B.T + 0.1 * np.eye(p)
            elif style == 1:      # rank deficient
                r = max(1, p - int(rng.integers(1, 3))) if p > 1 else 1
                B = rng.normal(size=(p, r))
                cov = B @ B.T if p > 1 else np.array([[0.0]])
            else:
                cov = np.diag(np.round(rng.uniform(0.1, 9, p), 2))
            mean = np.round(rng.uniform(-5, 5, p), 2)
            yield "nd", {"mean": mean, "cov": cov, "n": cfg["n"], "rs": int(rng.integers(0, 2**32)),
                         "check_valid": ("ignore", "warn", "raise")[(i // 3) % 3] if style != 1 else "ignore"}
        k += 1
    for i in range(cfg["lganm"]):
        if k % nshards == shard:
            rng = util.rng_for("C04", seed, "lganm", i)
            W, means, variances = _lganm(rng)
            # interventions in the model's own units half of the time (everything tiny / huge), else in mixed units
            iv = _iv(rng, len(W), unit=_lganm.last_unit if i % 2 else 1.0) if i % 5 else {"do": {}, "noise": {}, "shift": {}}
            yield "lganm", {"W": W, "means": means, "variances": variances, "iv": iv, "n": cfg["n"], "rs": int(rng.integers(0, 2**32))}
        k += 1
    for i in range(cfg["anm"]):
        if k % nshards == shard:
            rng = util.rng_for("C04", seed, "anm", i)
            W, means, variances = _lganm(rng)
            variances = np.maximum(variances, 0.05)
            iv = _iv(rng, len(W), anm_safe=True) if i % 4 else {"do": {}, "noise": {}, "shift": {}}
            yield "anm-pair", {"W": W, "means": means, "variances": variances, "iv": iv, "n": cfg["n"], "rs": int(rng.integers(0, 2**31))}
        k += 1
    for i in range(cfg["shape"]):
        if k % nshards == shard:
            rng = util.rng_for("C04", seed, "shape", i)
            W, means, variances = _lganm(rng)
            yield "shape", {"W": W, "means": means, "variances": np.maximum(variances, 0.05), "iv": _iv(rng, len(W), anm_safe=True),
                            "n": int(i % 3), "rs": int(rng.integers(0, 2**31))}
        k += 1


def _anm_from(sempler, W, means, variances, iv):
    import sempler.noise as noise
    p = len(W)
    assigns = []
    for i in range(p):
        pa = [j for j in range(p) if W[j, i] != 0]
        if pa:
            w = W[pa, i].copy()
            assigns.append(lambda x, w=w: x @ w)
        else:
            assigns.append(None)
    nz = [noise.normal(float(means[i]), float(variances[i])) for i in range(p)]
    model = sempler.ANM(W, assigns, nz)

    def conv(d):
        return {j: (noise.normal(float(v[0]), float(v[1])) if isinstance(v, tuple) else noise.normal(float(v), 0.0)) for j, v in d.items()}
    return model, conv(iv["do"]), conv(iv["shift"]), conv(iv["noise"])


def _stats(Xs, mean, cov):
    """Dict entry -> z for every mean / covariance entry with positive population variance."""
    zm, zc = S.z_cov_matrix(Xs, mean, cov)
    z = {}
    p = len(mean)
    for j in range(p):
        z[("mean", j, j)] = float(zm[j])
        for k in range(j, p):
            z[("cov", j, k)] = float(zc[j, k])
    return z


def _pooled_stats(sempler, kind, seed_parts, K, n):
    """Sum over K independent replicates of one standardised mean error, one standardised variance error and one signed
    standardised covariance error (each has mean 0 and variance 1 under the population law), and the number of terms."""
    acc = {"mean": [0.0, 0], "variance": [0.0, 0], "covariance": [0.0, 0]}
    for r in range(K):
        rng = util.rng_for(*seed_parts, r)
        rs = int(rng.integers(0, 2**31))
        if kind == "nd":
            p = int(rng.integers(1, 6))
            B = rng.normal(size=(p, p))
            cov = B @ B.T + 0.2 * np.eye(p)
            mu = np.round(rng.uniform(-3, 3, p), 2)
            X = np.asarray(sempler.NormalDistribution(mu, cov).sample(n, random_state=rs), dtype=float).reshape(n, p)
        else:
            p = int(rng.integers(2, 6))
            out = gmat.random_dag_masks(rng, p)
            W = gmat.weighted(rng, out, "signed")
            means = np.round(rng.uniform(-3, 3, p), 2)
            variances = np.round(rng.uniform(0.2, 4, p), 2)
            iv = _iv(rng, p, allow_point=False, anm_safe=True) if kind != "lganm" else {"do": {}, "noise": {}, "shift": {}}
            kw = {"do_interventions": iv["do"], "noise_interventions": iv["noise"], "shift_interventions": iv["shift"]}
            pop = sempler.LGANM(W, means, variances).sample(population=True, **kw)
            mu, cov = np.asarray(pop.mean, dtype=float), np.asarray(pop.covariance, dtype=float)
            if kind == "anm":
                anm, ado, ashift, anoise = _anm_from(sempler, W, means, variances, iv)
                X = np.asarray(anm.sample(n, do_interventions=ado, shift_interventions=ashift, noise_interventions=anoise, random_state=rs), dtype=float)
            else:
                X = np.asarray(sempler.LGANM(W, means, variances).sample(n, random_state=rs, **kw), dtype=float)
        if X.shape != (n, p):
            continue
        d = np.diag(cov)
        j = r % p
        if not d[j] > 1e-9 * d.max():
            continue
        D = X - mu
        acc["mean"][0] += float(D[:, j].mean() / math.sqrt(d[j] / n))
        acc["mean"][1] += 1
        acc["variance"][0] += float((np.mean(D[:, j] ** 2) - d[j]) / (d[j] * math.sqrt(2.0 / n)))       # known mean: exact variance 2 var^2 / n
        acc["variance"][1] += 1
        k2 = (j + 1 + r // p) % p
        if k2 != j and d[k2] > 1e-9 * d.max() and abs(cov[j, k2]) > 1e-3 * math.sqrt(d[j] * d[k2]):
            v = (d[j] * d[k2] + cov[j, k2] ** 2) / n
            acc["covariance"][0] += float(np.sign(cov[j, k2]) * (np.mean(D[:, j] * D[:, k2]) - cov[j, k2]) / math.sqrt(v))
            acc["covariance"][1] += 1
    return acc


def _judge_pooled(sempler, case, rec, family):
    kind, K, n = case["kind"], case["K"], case["n"]
    rec.case(family, case, True, key=("pooled", kind, case["i"], case["base"]))
    try:
        acc = _pooled_stats(sempler, kind, ("C04pool", case["base"], kind, case["i"]), K, n)
    except Exception as e:
        rec.exception_violation("C04:pooled-exception", family, case, "sampling raised in the pooled family", e)
        return
    for stat, (tot, cnt) in acc.items():
        if cnt < 20:
            continue
        Z = tot / math.sqrt(cnt)
        rec.count("pooled:%s-judged" % stat)
        rec.count("pooled:replicates", cnt)
        rec.max("max|Z|-pooled-" + stat, abs(Z))
        if abs(Z) > S.Z_SUSPECT:
            rec.count("escalations")
            zs = []
            for rep in range(3):
                a2 = _pooled_stats(sempler, kind, ("C04pool-esc", case["base"], kind, case["i"], rep), 3 * K, n)
                t2, c2 = a2[stat]
                zs.append(t2 / math.sqrt(max(c2, 1)))
                if not (abs(zs[-1]) > S.Z_CONFIRM and zs[-1] * Z > 0):
                    break
            else:
                rec.violation("C04:pooled-%s-%s-off" % (kind, stat), family, case,
                              "%s errors of %d independent %s samples of %d rows, standardised and pooled: Z = %.1f, confirmed on three fresh sets of %d "
                              "samples: %s (a systematic relative error of about %.2g %s)"
                              % (stat, cnt, kind, n, Z, 3 * K, ["%.1f" % v for v in zs],
                                 abs(Z) / math.sqrt(cnt) * (math.sqrt(2.0 / n) if stat == "variance" else 1 / math.sqrt(n)),
                                 "of the variance" if stat == "variance" else "standard deviations"))


def judge(family, case, rec):
    import sempler
    if family == "pooled":
        _judge_pooled(sempler, case, rec, family)
        return
    n = case["n"]
    if family == "nd":
        mean, cov = case["mean"], case["cov"]
        import warnings as _w
        with _w.catch_warnings():
            _w.simplefilter("ignore")
            dist = sempler.NormalDistribution(mean, cov, check_valid=case.get("check_valid", "ignore"))
        rec.count("nd:check_valid=" + case.get("check_valid", "ignore"))

        def draw(rs, nn):
            return dist.sample(nn, rs) if case["rs"] % 4 == 1 else dist.sample(nn, random_state=rs)
        pop_mean, pop_cov = np.asarray(mean, dtype=float), np.asarray(cov, dtype=float)
        nontrivial = len(mean) >= 2
    else:
        W, means, variances, iv = case["W"], case["means"], case["variances"], case["iv"]
        model = sempler.LGANM(W, means, variances)
        kw = {"do_interventions": iv["do"], "noise_interventions": iv["noise"], "shift_interventions": iv["shift"]}
        # the reference law comes from a separate, freshly built instance, so that state kept on the sampled model by earlier
        # calls cannot shape the reference as well
        pop = sempler.LGANM(W, means, variances).sample(population=True, **kw)
        pop_mean, pop_cov = np.asarray(pop.mean, dtype=float), np.asarray(pop.covariance, dtype=float)
        nontrivial = bool(len(W) >= 2 and (np.abs(pop_cov - np.diag(np.diag(pop_cov))).max() > 0 or any(iv[k] for k in iv)))
        if family == "lganm":
            if (len(W) + case["rs"]) % 3 and iv["do"]:
                # a parameter sweep: ONE dict object, edited in place between calls (first another value, then the judged one)
                sweep = dict(iv["do"])
                first = dict((j, ((v[0] - 5.0, v[1] + 1.0) if isinstance(v, tuple) else v + 3.0)) for j, v in iv["do"].items())
                kw_sweep = dict(kw, do_interventions=sweep)
                if len(W) % 4 == 1:       # a sweep in steps far below print precision
                    first = dict((j, ((v[0] * (1 + 1e-11) + 1e-13, v[1]) if isinstance(v, tuple) else v * (1 + 1e-11) + 1e-13))
                                 for j, v in iv["do"].items())
                sweep.update(first)
                try:
                    model.sample(3, **kw_sweep)
                    model.sample(population=True, **kw_sweep)
                except Exception:
                    pass
                sweep.update(iv["do"])
                kw = kw_sweep
                rec.count("history:same-dict-object-swept-in-place")

            def draw(rs, nn):
                if case["rs"] % 4 == 1:      # every argument positionally, in the documented order
                    rec.count("call-form:positional")
                    return model.sample(*callforms.positional("LGANM.sample", nn, False, random_state=rs, **kw))
                return model.sample(nn, random_state=rs, **kw)
        else:
            anm, ado, ashift, anoise = _anm_from(sempler, W, means, variances, iv)
            if (np.asarray(variances) != 1).any():
                rec.count("anm:var!=1")

            def draw(rs, nn):
                if case["rs"] % 4 == 1:
                    rec.count("call-form:positional")
                    return anm.sample(*callforms.positional("ANM.sample", nn, ado, ashift, anoise, rs))
                return anm.sample(nn, do_interventions=ado, shift_interventions=ashift, noise_interventions=anoise, random_state=rs)
    p = len(pop_mean)
    rec.case(family, case, bool(nontrivial))
    try:
        Xs = np.asarray(draw(case["rs"], n))
    except Exception as e:
        rec.exception_violation("C04:%s-exception" % family, family, case, "sampling raised %s" % type(e).__name__, e)
        return
    if Xs.shape != (n, p):
        rec.violation("C04:%s-shape" % family, family, case, "sample has shape %r, expected (%d, %d)" % (Xs.shape, n, p))
        return
    if family == "shape" or n <= 2:
        rec.count("shape:n<=2")
        if family == "shape":
            # the ANM twin must produce the same shape
            try:
                anm, ado, ashift, anoise = _anm_from(sempler, W, means, variances, iv)
                Xa = np.asarray(anm.sample(n, do_interventions=ado, shift_interventions=ashift, noise_interventions=anoise))
                if Xa.shape != (n, p):
                    rec.violation("C04:anm-shape", family, case, "ANM sample has shape %r, expected (%d, %d)" % (Xa.shape, n, p))
            except Exception as e:
                rec.exception_violation("C04:anm-exception", family, case, "ANM sampling raised for n=%d" % n, e)
        return
    if not np.isfinite(Xs).all():
        rec.violation("C04:%s-non-finite" % family, family, case, "sample contains non-finite values")
        return
    rec.count("judged:" + family)
    d = np.diag(pop_cov).copy()
    dmax = max(float(d.max()) if p else 0.0, 1e-300)
    # three classes of population variance: (a) zero up to the rounding noise of the covariance computation -> point mass,
    # judged as a constant; (b) positive but within 1e-9 of the largest variance -> not judged (neither the z-scores nor the
    # point-mass tolerance are meaningful there; counted); (c) live -> moment / law tests
    pm_mask = d <= 1e-14 * dmax
    grey = (~pm_mask) & (d <= 1e-9 * dmax)
    if grey.any():
        rec.count("variables-with-indeterminate-tiny-variance(not judged)", int(grey.sum()))
    d[pm_mask | grey] = 0.0
    live = d > 0
    pop_cov = pop_cov.copy()
    pop_cov[~live, :] = 0.0
    pop_cov[:, ~live] = 0.0
    tr = float(d.sum())
    tol_pm = 5e-6 * math.sqrt(max(tr, 0.0)) + 1e-9 * float(np.abs(pop_mean).max()) + 1e-300
    # point masses
    for j in range(p):
        if pm_mask[j]:
            rec.count("point-mass-columns")
            dev = float(np.max(np.abs(Xs[:, j] - pop_mean[j])))
            rec.max("max-point-mass-deviation/tolerance", dev / tol_pm)
            if dev > tol_pm:
                rec.violation("C04:%s-point-mass-not-constant" % family, family, case,
                              "variable %d has population variance 0 but deviates by %.3g from %.6g (tolerance %.3g)" % (j, dev, pop_mean[j], tol_pm))
    # singular covariance: no mass outside the support
    ev, evec = np.linalg.eigh((pop_cov + pop_cov.T) / 2)
    null = evec[:, ev <= 1e-14 * max(ev.max(), 1e-300)] if p else np.zeros((0, 0))
    if null.shape[1] and tr > 0 and not grey.any():
        rec.count("singular-covariances")
        res = float(np.max(np.abs((Xs - pop_mean) @ null)))
        tol_ns = 5e-6 * math.sqrt(tr) * math.sqrt(p) + 1e-9 * float(np.abs(pop_mean).max()) * p
        rec.max("max-null-space-residual/tolerance", res / tol_ns)
        if res > tol_ns:
            rec.violation("C04:%s-mass-outside-support" % family, family, case,
                          "rows leave the support of the singular population covariance by %.3g (tolerance %.3g)" % (res, tol_ns))
    # moments
    z = _stats(Xs, pop_mean, pop_cov)
    worst = max(z, key=lambda e: abs(z[e])) if z else None
    if worst is not None:
        rec.max("max|z|-moments", abs(z[worst]))
        suspects = [e for e in z if abs(z[e]) > S.Z_SUSPECT]
        for e in suspects[:3]:
            rec.count("escalations")

            def rerun(r, nn, e=e):
                Y = np.asarray(draw(util.derive_seed("C04esc", case["rs"], r) % (2**31), nn))
                return _stats(Y, pop_mean, pop_cov)[e]
            bad, zs = S.confirm(rerun, n)
            if bad:
                kind, j, k = e
                S_ = np.cov(Xs, rowvar=False).reshape(p, p)
                rec.violation("C04:%s-%s-off" % (family, "mean" if kind == "mean" else "covariance"), family, case,
                              "%s entry (%d,%d): z = %.1f, confirmed on three fresh seeds at 4x the size: %s; sample %.5g vs population %.5g"
                              % (kind, j, k, z[e], ["%.1f" % v for v in zs],
                                 float(Xs[:, j].mean()) if kind == "mean" else float(S_[j, k]),
                                 float(pop_mean[j]) if kind == "mean" else float(pop_cov[j, k])))
                break
    # joint normality (Cramer-Wold): every linear combination a'x of a Gaussian vector is N(a'mu, a'Sigma a); a law with
    # Gaussian marginals but another dependence structure fails this for some direction a
    eps = S.dkw_eps(n)
    liv = np.where(live)[0]
    if len(liv) >= 2:
        prng = util.rng_for("C04proj", case["rs"])
        sdl = np.sqrt(d[liv])
        for t in range(4):
            a = np.zeros(p)
            a[liv] = prng.normal(size=len(liv)) / sdl if t % 2 == 0 else prng.choice([-1.0, 1.0], size=len(liv)) / sdl
            va = float(a @ pop_cov @ a)
            if va <= 1e-9 * float(np.sum((a[liv] * sdl) ** 2)):
                continue        # (nearly) degenerate direction of a singular covariance
            proj = Xs @ a
            ks = S.ks_distance(proj, lambda x, m=float(a @ pop_mean), sd=math.sqrt(va): S.norm_cdf(x, m, sd))
            rec.count("projections-tested")
            rec.max("max-ks/dkw-band(projections)", ks / eps)
            if ks > eps:
                rec.violation("C04:%s-not-jointly-gaussian" % family, family, case,
                              "the linear combination a'x with a = %s deviates by %.4f from N(a'mu, a'Sigma a) (DKW band %.4f): the rows do not follow "
                              "the population law jointly" % (np.round(a, 3).tolist(), ks, eps))
                break
    # i.i.d. rows and Gaussian marginals
    for j in range(p):
        if d[j] <= 0:
            continue
        col = Xs[:, j]
        dups = n - len(np.unique(col))
        # coincidences among doubles: a continuous law with sd s around m has ~ s/ulp(m) representable values per sd
        expected = S.expected_coincidences(n, abs(pop_mean[j]) + 4 * math.sqrt(d[j]), math.sqrt(d[j]))
        rec.max("max-duplicated-values-above-expectation", dups - 10 * expected)
        if dups >= 10 + 10 * expected:
            rec.violation("C04:%s-repeated-rows" % family, family, case, "variable %d: %d of %d values repeat an earlier one: rows are not i.i.d." % (j, dups, n))
            break
        for stat_name, zz, stat_fn in (("lag2", S.z_lag(col, 2), lambda c: S.z_lag(c, 2)), ("lag7", S.z_lag(col, 7), lambda c: S.z_lag(c, 7)),
                                       ("halves", S.z_halves(col, d[j]), lambda c, v=d[j]: S.z_halves(c, v))):
            rec.max("max|z|-" + stat_name, abs(zz))
            if abs(zz) > S.Z_SUSPECT:
                rec.count("escalations")

                def rerun_s(r, nn, j=j, stat_fn=stat_fn):
                    return stat_fn(np.asarray(draw(util.derive_seed("C04" + stat_name, case["rs"], r) % (2**31), nn))[:, j])
                bad, zs = S.confirm(rerun_s, n)
                if bad:
                    rec.violation("C04:%s-rows-not-iid-%s" % (family, stat_name), family, case,
                                  "variable %d: %s statistic z = %s on three fresh seeds" % (j, stat_name, ["%.1f" % v for v in zs]))
                    return
        zl = S.z_lag1(col)
        rec.max("max|z|-lag1", abs(zl))
        if abs(zl) > S.Z_SUSPECT:
            rec.count("escalations")

            def rerun_l(r, nn, j=j):
                return S.z_lag1(np.asarray(draw(util.derive_seed("C04lag", case["rs"], r) % (2**31), nn))[:, j])
            bad, zs = S.confirm(rerun_l, n)
            if bad:
                rec.violation("C04:%s-rows-autocorrelated" % family, family, case, "variable %d: lag-1 autocorrelation z = %s" % (j, ["%.1f" % v for v in zs]))
                break
        ks = S.ks_distance(col, lambda x, j=j: S.norm_cdf(x, pop_mean[j], math.sqrt(d[j])))
        rec.max("max-ks/dkw-band", ks / eps)
        if ks > eps:
            rec.violation("C04:%s-marginal-law" % family, family, case,
                          "variable %d: empirical CDF deviates by %.4f from N(%.4g, %.4g) (DKW band %.4f)" % (j, ks, pop_mean[j], d[j], eps))
            break
