"""C15 - graph relations agree with their definitions on every PDAG.

Monitors: icontract post-conditions on the module attributes pa, ch, neighbors,
adj, na, ancestors, descendants, an, desc, transitive_closure,
semi_directed_paths, separates, chain_component of sempler.utils
(vf/monitors/graph_contracts.py).  They evaluate on the workload's direct calls
and on the library's internal calls when higher-level routines are driven.
Oracles: bitmask definitions, iterative reachability, recursive simple-path
enumeration, union-find.
"""
import numpy as np

from ..core import util
from ..oracles import graphs as G
from ..workloads import gmat
from . import _gc

TECHNIQUE = "icontract post-conditions installed on sempler.utils' relation functions (direct and internal calls) vs. bitmask reachability / path-enumeration / union-find oracles; exhaustive PDAGs p<=4 + random mixed and weighted graphs"
LEVEL_TEXT = ("Every return value of the thirteen relation functions observed during the run - on all PDAG codes with p<=4 for "
              "every node, node pair and (quick: sampled, thorough: all) disjoint set triples, on random mixed and signed-weight "
              "graphs to p=9, and on the library's own internal calls while CPDAG / Meek / extension routines run - is compared "
              "with the set-theoretic definition.  Exceptions are judged at the call boundary (ValueError iff sets overlap).")
LEVEL_NOTE = "Trusted: icontract's wrapping, the bitmask oracles. Path enumeration judged for p<=8, recursion depth never approached."
RULE = ("cases: a graph (PDAG code, random mixed PDAG, or signed weighted DAG) on which every relation is called for every "
        "node / ordered node pair plus disjoint (S,A,B) triples; 'internal' cases drive higher-level routines with the "
        "contracts armed.  distinct = distinct (family, graph); non-trivial = graph has at least one directed and one "
        "undirected edge, or is a weighted DAG with a negative weight, or has >= 3 edges"
        ' Also: relabelled embeddings into 9..20 nodes, named shapes, 4,000 sampled p=5 PDAG codes, array presentations incl. the re-used buffer, the transposed view queried right after the graph, numpy-int nodes and frozensets, dense 9-13 node DAGs in int8/uint8/int16/bool for the closure.')
ASSUMPTIONS = ["inputs outside the quantifier (non-zero diagonal, cyclic directed part) are counted out_of_domain and not judged"]
EXHAUSTIVE = {"quick": True, "thorough": True}
SOFT_LIMIT = {"quick": 1200, "thorough": 5400}      # generous wall-clock watchdogs (a loaded machine must not cut a workload short); normal run times are in the evidence
REQUIRED_FUNCS = ["sempler/utils.py:" + f for f in ("pa", "ch", "neighbors", "adj", "na", "ancestors", "descendants", "an", "desc",
                                                     "transitive_closure", "semi_directed_paths", "separates", "chain_component")]
_FUNCS = ("pa", "ch", "neighbors", "adj", "na", "ancestors", "descendants", "an", "desc", "transitive_closure",
          "semi_directed_paths", "separates", "chain_component")
REQUIRED_COUNTERS = {t: dict([("contract:%s:evaluated-direct" % f, 200) for f in _FUNCS]
                             + [("separates:valueerror-on-overlap", 50)])     # evaluations on the library's internal calls are evidence only
                     for t in ("quick", "thorough")}
N = {"quick": {"random": 1500, "weighted": 1200, "triples": 10, "internal_rate": 7},
     "thorough": {"random": 25000, "weighted": 20000, "triples": None, "internal_rate": 1}}


def gen(tier, seed, shard, nshards):
    if tier == "thorough":
        for m, module in enumerate(['test_utils.py', 'test_lganm.py', 'test_generators.py']):
            if m % nshards == shard:
                yield "repo-tests", {"module": module}
    for c in _gc.iter_pdag_cases((1, 2, 3, 4), shard, nshards):
        yield "pdag", c
    for k in range(N[tier]["random"]):
        if k % nshards == shard:
            rng = util.rng_for("C15", seed, "r", k)
            p = int(rng.integers(5, 14))
            if p <= 8:
                yield "random-pdag", {"masks": gmat.random_pdag_masks(rng, p)}
            else:       # larger graphs kept sparse: the recursive relations enumerate every directed path
                dag = gmat.random_dag_masks(rng, p, density=rng.uniform(0.08, 0.3))
                out = list(dag)
                for i in range(p):
                    for j in G.bits(dag[i]):
                        if rng.random() < 0.3:
                            out[j] |= 1 << i
                yield "random-pdag", {"masks": out}
    for k in range(N[tier]["weighted"]):
        if k % nshards == shard:
            rng = util.rng_for("C15", seed, "w", k)
            p = int(rng.integers(2, 15))
            out = gmat.random_dag_masks(rng, p, density=None if p <= 8 else rng.uniform(0.08, 0.3))
            yield "weighted-dag", {"W": gmat.weighted(rng, out, dtype=int if k % 3 == 0 else float)}

    sidx = 0
    for pp in (6, 7, 8, 9, 10):
        for name in sorted(gmat.named_shapes(pp)):
            for rep in range(4 if name.startswith("chain-") else 2):      # label-dependent effects: several relabellings of the path shapes
                if sidx % nshards == shard:
                    yield "shape-dag", {"p": pp, "shape": name, "rep": rep}
                sidx += 1
    for c in _gc.iter_pdag_cases((3, 4), shard, nshards):
        yield "internal", c
    for code in _gc.sample_pdag5_codes(("C15", seed), 4000 if tier == "quick" else 120000, shard, nshards):
        yield "pdag", {"p": 5, "code": code}
    for k in range(48 if tier == "quick" else 480):
        if k % nshards == shard:
            yield "dense-closure", {"p": 9 + k % 5, "dtype": ("int8", "uint8", "int16", "bool", "float32", "int64")[k % 6], "k": k}
    # fans: one source, m middle nodes, one sink, m = 255 .. 512 - the number of two-step walks from source to sink is m, which wraps
    # to 0 in 8-bit arithmetic exactly at 256 and 512
    for fk, m in enumerate((255, 256, 257, 512, 256, 512)):
        if fk % nshards == shard:
            yield "fan-closure", {"m": m, "dtype": ("int8", "uint8", "int8", "uint8", "bool", "int16")[fk], "k": fk}
    # relabelled copies of the small PDAGs inside 9..13 nodes (labels >= 8 included)
    for c in _gc.iter_pdag_cases((3, 4), shard, nshards):
        if c["code"] % 2 == 0:
            yield "embedded-pdag", dict(c, P=9 + c["code"] % 5)


def setup(rec):
    import sempler.utils as U
    from ..monitors import graph_contracts as GC
    rec.wrapped = GC.install(U, rec, which=("C15",))
    rec.add("contracts-installed-on", ",".join(rec.wrapped))


def _call(rec, family, case, name, fn, *args):
    try:
        return True, fn(*args)
    except RecursionError:
        rec.count("recursion-limit(out of scope)")
        return False, None
    except Exception as e:
        rec.exception_violation("C15:%s-exception" % name, family, case, "%s raised %s on an in-domain input" % (name, type(e).__name__), e)
        return False, None


def _triples(p, rng, limit):
    """Disjoint (S, A, B) with A, B non-empty: all of them (limit None) or a sample."""
    allt = []
    for code in range(4 ** p):
        S, A, B = set(), set(), set()
        c = code
        for v in range(p):
            d = c & 3
            c >>= 2
            (None, S, A, B)[d].add(v) if d else None
        if A and B:
            allt.append((S, A, B))
    if limit is None or len(allt) <= limit:
        return allt
    idx = rng.choice(len(allt), limit, replace=False)
    return [allt[int(i)] for i in idx]


def judge(family, case, rec):
    if family == "repo-tests":
        from ..workloads import repotests
        repotests.run(rec, case["module"])
        return
    import sempler
    import sempler.utils as U
    from ..monitors import graph_contracts as GC
    tier = rec.tier
    if family == "internal":
        # drive higher-level routines; the contracts fire on their internal calls
        out = G.pdag_from_code(case["p"], case["code"])
        if not G.directed_part_acyclic(out):
            return
        GC.State.tag = "internal"
        GC.State.rate = N[tier]["internal_rate"]
        try:
            P = gmat.to_np(out)
            rec.case(family, case, _gc.n_undirected(out) >= 1, key=(case["p"], case["code"]))
            for fn in (U.pdag_to_dag, U.maximally_orient, U.pdag_to_cpdag, U.all_dags, U.vstructures, U.moral_graph):
                try:
                    fn(P)
                except ValueError:
                    pass
            ext = G.extensions(out)
            if ext:
                D = gmat.to_np(ext[0])
                U.dag_to_cpdag(D)
                U.topological_ordering(D)
                U.dag_to_icpdag(D, {0})
                U.to_factorization(D)
        finally:
            GC.State.tag = "direct"
            GC.State.rate = 1
        return

    if family == "fan-closure":
        m = case["m"]
        p = m + 2
        rng = util.rng_for("C15fan", case["k"])
        lab = [int(v) for v in rng.permutation(p)]
        A = np.zeros((p, p), dtype=case["dtype"])
        src, snk = lab[0], lab[1]
        for v in lab[2:]:
            A[src, v] = 1
            A[v, snk] = 1
        rec.case(family, case, True, key=("fan", case["k"]))
        GC.State.rate = 99991        # only the outermost result is judged (hundreds of thousands of internal calls otherwise)
        try:
            ok, res = _call(rec, family, case, "transitive_closure", U.transitive_closure, A)
            ok2, d_ = _call(rec, family, case, "descendants", U.descendants, src, A)
            ok3, a_ = _call(rec, family, case, "ancestors", U.ancestors, snk, A)
        finally:
            GC.State.rate = 1
        if ok:
            R = np.asarray(res) != 0
            want = np.zeros((p, p), dtype=bool)
            want[src, :] = True
            want[src, src] = False
            for v in lab[2:]:
                want[v, snk] = True
            if R.shape != (p, p) or not (R == want).all():
                rec.violation("C15:transitive_closure", family, case, "closure of a fan with %d middle nodes (%s) differs from directed reachability: source->sink %s"
                              % (m, case["dtype"], bool(R[src, snk]) if R.shape == (p, p) else "?"))
            rec.count("fan-closure:judged")
        if ok2 and set(int(v) for v in d_) != set(range(p)):
            rec.violation("C15:descendants", family, case, "descendants of the source of a fan with %d middle nodes: %d nodes, expected all %d" % (m, len(d_), p))
        if ok3 and set(int(v) for v in a_) != set(range(p)) - {snk}:
            rec.violation("C15:ancestors", family, case, "ancestors of the sink of a fan with %d middle nodes: %d nodes, expected %d" % (m, len(a_), p - 1))
        return
    if family == "dense-closure":
        # complete / nearly complete DAGs: hundreds of directed paths between two nodes
        rng = util.rng_for("C15dc", case["k"])
        p = case["p"]
        order = [int(v) for v in rng.permutation(p)]
        out = [0] * p
        for a in range(p):
            for b in range(a + 1, p):
                if case["k"] % 3 or rng.random() < 0.9:
                    out[order[a]] |= 1 << order[b]
        A = gmat.to_np(out).astype(case["dtype"])
        rec.case(family, case, True, key=("dc", case["k"]))
        GC.State.rate = 997          # only the outermost results are judged here (the recursion is exponential on dense graphs)
        try:
            ok, res = _call(rec, family, case, "transitive_closure", U.transitive_closure, A)
        finally:
            GC.State.rate = 1
        if ok:
            want = [G.reach(out, 1 << i) & ~(1 << i) for i in range(p)]
            if gmat.masks(res) != want:
                rec.violation("C15:transitive_closure", family, case, "closure of a dense %s DAG on %d nodes differs from directed reachability" % (case["dtype"], p), matrix=A)
            rec.count("dense-closure:judged")
        return
    if family == "pdag":
        out = G.pdag_from_code(case["p"], case["code"])
        if not G.directed_part_acyclic(out):
            rec.count("out_of_domain:cyclic-directed-part")
            return
        A = gmat.hostile_array(gmat.to_np(out, dtype=int if case["code"] % 2 else float), case["code"] // 2)
        key = (case["p"], case["code"])
    elif family == "embedded-pdag":
        small = G.pdag_from_code(case["p"], case["code"])
        if not G.directed_part_acyclic(small) or G.n_edges(small) < 2:
            return
        out = gmat.embed_any(small, case["P"], util.rng_for("%se" % rec.pid, case["p"], case["code"]), case.get("code", case.get("code3", 0)) // 2)
        A = gmat.reuse(gmat.to_np(out, dtype=int if case["code"] % 4 else float))
        key = ("e", case["p"], case["code"])
        rec.count("embedded:graphs")
    elif family == "shape-dag":
        out0 = gmat.named_shapes(case["p"])[case["shape"]]
        if False:
            return
        out = gmat.relabel(out0, util.rng_for("shape", case["p"], case["shape"], case["rep"])) if case["rep"] else list(out0)
        rec.count("shapes:" + case["shape"])
        if case["shape"] in ("complete", "bipartite", "layered", "ladder") and case["p"] > 8 and rec.pid == "C15":
            return      # the recursive relations enumerate every directed path: exponential on these
        # turn a random subset of the edges undirected for odd repetitions (a PDAG with that skeleton)
        rngs = util.rng_for("shape-u", case["p"], case["shape"], case["rep"])
        if case["rep"]:
            for i in range(len(out)):
                for j in G.bits(out[i]):
                    if rngs.random() < 0.3:
                        out[j] |= 1 << i
            if not G.directed_part_acyclic(out):
                return
        A = gmat.hostile_array(gmat.to_np(out), case["p"] + case["rep"])
        key = ("shape", case["p"], case["shape"], case["rep"])
    elif family == "random-pdag":
        out = list(case["masks"])
        A = gmat.reuse(gmat.to_np(out))      # the same caller-owned array object, overwritten in place between cases
        key = None
    else:
        A = case["W"]
        out = gmat.masks(A)
        key = None
    p = len(out)
    parts = G.Parts(out)
    n_dir = sum(G.popcount(m) for m in parts.ch)
    n_und = sum(G.popcount(m) for m in parts.nb) // 2
    nontrivial = (n_dir >= 1 and n_und >= 1) or (family == "weighted-dag" and bool((A < 0).any())) or (n_dir + n_und >= 3)
    rec.case(family, case, bool(nontrivial), key=key)
    before = A.copy()
    for i in range(p):
        ii = np.int64(i) if (i + p) % 3 == 0 else i
        for name in ("pa", "ch", "neighbors", "adj", "ancestors", "an", "descendants", "desc", "chain_component"):
            _call(rec, family, case, name, getattr(U, name), ii, A)
    rng = util.rng_for("C15j", rec.seed, family, tuple(out))
    pair_list = [(i, j) for i in range(p) for j in range(p)]
    if p > 5:
        pair_list = [pair_list[int(k)] for k in rng.choice(len(pair_list), 12, replace=False)]
    At = A.T            # the reversed graph as a (Fortran-ordered) view of the same memory: a different, equally valid PDAG
    for (i, j) in pair_list:
        _call(rec, family, case, "na", U.na, i, j, A)
        if p <= 7 or family == "embedded-pdag":
            _call(rec, family, case, "semi_directed_paths", U.semi_directed_paths, i, j, A)
            if (i + j) % 3 == 0:
                _call(rec, family, case, "semi_directed_paths", U.semi_directed_paths, i, j, At)
                _call(rec, family, case, "separates", U.separates, set(), {i}, {j}, At) if i != j else None
                _call(rec, family, case, "semi_directed_paths", U.semi_directed_paths, i, j, A)
    # transitive closure: defined for DAGs; for graphs with undirected edges ValueError is documented
    if n_und == 0:
        ok, _ = _call(rec, family, case, "transitive_closure", U.transitive_closure, A)
    else:
        try:
            U.transitive_closure(A)
            rec.count("transitive_closure:pdag-accepted(out of scope)")
        except ValueError:
            rec.count("transitive_closure:pdag-valueerror(out of scope)")
        except Exception:
            rec.count("transitive_closure:pdag-other(out of scope)")
    # separates
    if p >= 2 and (p <= 7 or family == "embedded-pdag"):
        if p <= 4:
            triples = _triples(p, rng, N[tier]["triples"])
        else:
            triples = []
            for _ in range(6 if p <= 8 else 2):
                lab = rng.integers(0, 4, p) if p <= 8 else (rng.integers(0, 4, p) * (rng.random(p) < 0.35))
                S = set(int(v) for v in np.where(lab == 1)[0])
                Aa = set(int(v) for v in np.where(lab == 2)[0])
                B = set(int(v) for v in np.where(lab == 3)[0])
                if Aa and B:
                    triples.append((S, Aa, B))
        for t_, (S, Aa, B) in enumerate(triples):
            S0, A0, B0 = set(S), set(Aa), set(B)
            if t_ % 4 == 3:
                S, Aa, B = frozenset(S), frozenset(Aa), frozenset(B)
            _call(rec, family, case, "separates", U.separates, S, Aa, B, A)
            if (S, Aa, B) != (S0, A0, B0):
                rec.violation("C15:separates-mutates-sets", family, case, "separates modified its set arguments")
        # empty sides: no path to meet, so every S "separates" (vacuous truth; the contract judges the value)
        v0 = int(rng.integers(p))
        for (S, Aa, B) in ((set(), set(), {v0}), ({(v0 + 1) % p}, {v0}, set()), (set(), set(), set()),
                           (set(range(p)) - {v0}, {v0}, set()), (set(), {v0}, set(range(p)) - {v0})):
            _call(rec, family, case, "separates", U.separates, S, Aa, B, A)
            rec.count("separates:empty-side-or-everything")
        v = int(rng.integers(p))
        w = int((v + 1) % p)
        for (S, Aa, B) in (({v}, {v}, {w}), (set(), {v, w}, {w}), ({w}, {v}, {w}),
                           ({v}, set(), {v, w}), ({v, w}, {w}, set()), ({v}, set(), {v})):      # ... also when one side is empty
            try:
                r = U.separates(S, Aa, B, A)
                rec.violation("C15:separates-no-valueerror", family, case,
                              "separates(S=%s,A=%s,B=%s) returned %r for overlapping sets" % (S, Aa, B, r), matrix=A)
            except ValueError:
                rec.count("separates:valueerror-on-overlap")
            except Exception as e:
                rec.exception_violation("C15:separates-exception", family, case, "separates raised a non-ValueError on overlapping sets", e)
    if not (A == before).all():
        rec.violation("C15:input-mutated", family, case, "a relation function modified the matrix", matrix=before)
