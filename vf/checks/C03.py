"""C03 - acyclicity test and topological order are exact for any weights.

Monitor: post-conditions on utils.is_dag / utils.topological_ordering and on the
LGANM / ANM / DRFNet constructors.  Oracle: three-colour DFS on the non-zero
pattern (vf.oracles.graphs.has_cycle), order validity checked directly.
"""
import numpy as np

from ..core import util
from ..oracles import graphs as G
from ..workloads import gmat

FAKE_RPY2 = True
TECHNIQUE = "runtime post-condition monitor on is_dag/topological_ordering/constructors vs. independent DFS cycle detector; exhaustive small matrices + adversarial weights"
LEVEL_TEXT = ("Every call of the acyclicity test, the sorter and the three constructors made by the workload is judged by an "
              "independent cycle detector: exhaustively for all {0,+1,-1} matrices up to p=3 (and all signed off-diagonal "
              "patterns at p=4 in the thorough tier), and on tens of thousands of seeded adversarial real matrices "
              "(cancelling weights, non-positive cycle sums, negative self-loops).  This is exploration, not proof: "
              "larger matrices are sampled.")
LEVEL_NOTE = ("Trusted: the bitmask DFS oracle (cross-checked against a second implementation on every case); the stand-in "
              "rpy2 backend for DRFNet.  Matrices beyond p=4 are sampled, p<=10.")
RULE = ("cases: (a) every square matrix with entries in {0,+1,-1} for p<=3 (quick) plus every signed "
        "off-diagonal pattern for p=4 (thorough), int and float dtype alternating; (b) seeded adversarial "
        "real matrices p<=10 (cancelling columns, cycles with weight sum <= 0, opposite-signed 2-cycles, "
        "negative self-loops, DAG plus one back edge); (c) the same families through the LGANM, ANM and "
        "DRFNet constructors.  distinct = distinct matrix (dtype included); non-trivial = has a negative "
        "entry or a directed cycle"
        ' Also: each matrix is handed over in varying presentations (a re-used caller-owned buffer overwritten in place, Fortran order, strided view, read-only, other dtype, negative zeros), minute (1e-9..5e-324) and extreme (2^62, 1e307) weights, and pairs of different matrices with identical raw bytes asked one after the other.')
ASSUMPTIONS = ["the reference cycle detector (DFS on python ints) is correct; it is cross-checked against an "
               "independent Kahn implementation on every case",
               "DRFNet is driven through a stand-in rpy2 backend (no R in the sandbox)"]
EXHAUSTIVE = {"quick": True, "thorough": True}
SHARDS = {"quick": 16, "thorough": 16}
SOFT_LIMIT = {"quick": 1200, "thorough": 5400}      # generous wall-clock watchdogs (a loaded machine must not cut a workload short); normal run times are in the evidence
REQUIRED_FUNCS = ["sempler/utils.py:topological_ordering", "sempler/utils.py:is_dag",
                  "sempler/lganm.py:LGANM.__init__", "sempler/anm.py:ANM.__init__",
                  "sempler/semi.py:DRFNet.__init__"]
REQUIRED_COUNTERS = {"quick": {"oracle:cyclic": 100, "oracle:acyclic": 100, "ctor:LGANM": 50, "ctor:ANM": 50, "ctor:DRFNet": 20},
                     "thorough": {"oracle:cyclic": 1000, "oracle:acyclic": 1000, "ctor:LGANM": 500, "ctor:ANM": 500, "ctor:DRFNet": 100}}

N_ADV = {"quick": 24000, "thorough": 3000000}
N_CTOR = {"quick": 2400, "thorough": 300000}


def ternary_matrix(p, code, dtype):
    vals = []
    for _ in range(p * p):
        d = code % 3
        code //= 3
        vals.append((0, 1, -1)[d])
    return np.array(vals, dtype=dtype).reshape(p, p)


def offdiag_matrix(p, code, dtype):
    A = np.zeros((p, p), dtype=dtype)
    for i in range(p):
        for j in range(p):
            if i != j:
                d = code % 3
                code //= 3
                A[i, j] = (0, 1, -1)[d]
    return A


def adversarial(rng, fam_idx):
    p = int(rng.integers(1, 11))
    kind = fam_idx % 14
    dag = gmat.random_dag_masks(rng, p)
    tiny = lambda: float(rng.choice([-1, 1])) * float(rng.choice([1e-9, 1e-12, 1e-100, 1e-300, 5e-324]))
    if kind == 0:      # DAG, cancelling columns
        A = gmat.weighted(rng, dag, "cancel")
    elif kind == 1:    # DAG, arbitrary signed weights
        A = gmat.weighted(rng, dag)
    elif kind == 2:    # DAG plus one back edge of either sign
        A = gmat.weighted(rng, dag, "signed")
        order = G.topological_order(dag)
        if p >= 2:
            a, b = sorted(rng.choice(p, 2, replace=False))
            A[order[b], order[a]] = rng.choice([-1, 1]) * rng.uniform(0.1, 3)
    elif kind == 3:    # a single cycle whose weights sum to <= 0, plus DAG edges elsewhere
        A = gmat.weighted(rng, dag, "signed")
        k = int(rng.integers(1, p + 1))
        nodes = list(rng.choice(p, k, replace=False))
        ws = -np.abs(rng.uniform(0.1, 2, size=k))
        if k > 1 and rng.random() < 0.5:
            ws[0] = abs(ws[1:].sum()) * rng.uniform(0, 1)      # one positive, total still <= 0
        for t in range(k):
            A[nodes[t], nodes[(t + 1) % k]] = ws[t]
    elif kind == 4:    # opposite-signed two-cycle that cancels in A + A^T
        A = gmat.weighted(rng, dag, "cancel")
        if p >= 2:
            a, b = rng.choice(p, 2, replace=False)
            w = float(rng.choice([0.5, 1, 2]))
            A[a, b], A[b, a] = w, -w
    elif kind == 5:    # negative self-loop on a DAG
        A = gmat.weighted(rng, dag)
        a = int(rng.integers(p))
        A[a, a] = -float(rng.choice([0.5, 1, 2]))
    elif kind == 6:    # integer dtype, cancelling
        A = gmat.weighted(rng, dag, "cancel", dtype=int)
        if A.dtype != int:
            A = np.sign(A).astype(int)
    elif kind == 8:    # an upper-triangular (identity-ordered) DAG plus ONE tiny back edge or tiny self-loop
        A = np.triu(rng.uniform(0.5, 2, size=(p, p)) * (rng.random((p, p)) < 0.5), k=1)
        if p >= 2 and rng.random() < 0.7:
            a, b = sorted(rng.choice(p, 2, replace=False))
            A[b, a] = tiny()
            if A[a, b] == 0 and rng.random() < 0.5:
                A[a, b] = 1.0
        else:
            a = int(rng.integers(p))
            A[a, a] = tiny()
    elif kind in (12, 13):   # not weakly connected: a directed cycle on some nodes, a separate DAG (or isolated nodes) on the rest
        A = np.zeros((p, p))
        nodes = [int(v) for v in rng.permutation(p)]
        c = int(rng.integers(3, max(4, p - 1))) if p >= 4 else p
        cyc = nodes[:c]
        rest = nodes[c:]
        if len(cyc) >= 3 or kind == 13:
            for t in range(len(cyc)):
                A[cyc[t], cyc[(t + 1) % len(cyc)]] = rng.choice([-1.0, 1.0]) * rng.uniform(0.5, 2)
            if kind == 13 and len(cyc) >= 3 and rng.random() < 0.5:
                # the cycle feeds some nodes downstream (still no source node in that component)
                for v in rest[: len(rest) // 2]:
                    A[cyc[0], v] = 1.0
                rest = rest[len(rest) // 2:]
        for a in range(len(rest)):       # a DAG (often a path or nothing) on the remaining nodes, no edge to the cycle
            for b in range(a + 1, len(rest)):
                if rng.random() < 0.35:
                    A[rest[a], rest[b]] = rng.uniform(0.5, 2)
    elif kind in (10, 11):   # extreme magnitudes: sums of |weights| overflow / wrap, the non-zero pattern is all that counts
        if kind == 10:
            A = np.zeros((p, p), dtype=np.int64)
            big = [2**62, -(2**62), np.iinfo(np.int64).min, np.iinfo(np.int64).max, 2**61]
            for i in range(p):
                for j in G.bits(dag[i]):
                    A[i, j] = big[int(rng.integers(len(big)))]
            if p >= 2 and rng.random() < 0.5:      # close a cycle with such weights
                order = G.topological_order(dag)
                A[order[-1], order[0]] = 2**62
        else:
            A = gmat.weighted(rng, dag, "signed") * float(rng.choice([1e307, 5e307, 1e-307]))
            if p >= 2 and rng.random() < 0.5:
                order = G.topological_order(dag)
                A[order[-1], order[0]] = 1.2e308
    elif kind == 9:    # DAG whose weights are all tiny (must still be a DAG with a valid order), random labelling
        A = gmat.weighted(rng, dag, "tiny")
    else:              # (kind 7) random dense signed matrix (mostly cyclic), sparse variant too
        dens = rng.uniform(0.05, 0.5)
        A = (rng.random((p, p)) < dens) * rng.choice([-1.0, 1.0], size=(p, p)) * rng.uniform(0.1, 2, size=(p, p))
        if rng.random() < 0.7:
            np.fill_diagonal(A, 0)
    return A


def layered(rng, k):
    width = (2, 2, 4, 3, 2, 8)[k % 6]
    nlayers = int(rng.integers(max(3, 66 // width + 1), 140 // width + 1)) if k % 4 else (66 // width + 1, 64 // width + 1, 3, 17)[(k // 4) % 4]
    nlayers = max(nlayers, 3)
    p = width * nlayers + int(rng.integers(0, 5))
    ring = bool(k % 2)
    lab = [int(v) for v in rng.permutation(p)]
    dt = (np.int64, float, np.int8, bool, np.float32, np.int32)[(k // 2) % 6]
    A = np.zeros((p, p), dtype=dt)
    for L in range(nlayers if ring else nlayers - 1):
        for a in range(width):
            for b in range(width):
                A[lab[L * width + a], lab[((L + 1) % nlayers) * width + b]] = 1
    if dt in (np.int64, float) and k % 3 == 0:
        A = A * (-1 if k % 2 else 3)
    return A


def gen(tier, seed, shard, nshards):
    idx = 0
    # (a) exhaustive
    for p in (1, 2, 3):
        for code in range(3 ** (p * p)):
            if idx % nshards == shard:
                yield "ternary", {"p": p, "code": code, "dtype": "int64" if code % 2 else "float64"}
            idx += 1
    if tier == "thorough":
        for code in range(3 ** 12):
            if idx % nshards == shard:
                yield "offdiag4", {"p": 4, "code": code, "dtype": "int64" if code % 2 else "float64"}
            idx += 1
    # (a') pairs of different matrices with IDENTICAL raw bytes (other shape, other dtype), asked one after the other
    k = 0
    for p in (1, 2, 3):
        for code in range(2 ** (p * p)):
            for (d1, d2, f) in (("int32", "int8", 2), ("int64", "int16", 2), ("uint32", "uint8", 2)):
                if f is None:
                    continue
                if k % nshards == shard:
                    yield "byte-alias", {"p": p, "code": code, "d1": d1, "d2": d2, "factor": f, "first": k % 2}
                k += 1
    # (b) adversarial, seeded
    for k in range(N_ADV[tier]):
        if k % nshards == shard:
            rng = util.rng_for("C03", seed, "adv", k)
            yield "adversarial", {"A": adversarial(rng, k)}
    # (b') wide layered graphs on 65..140 nodes: consecutive layers completely connected, closed to a ring (cyclic) or left open
    # (acyclic): the number of directed walks between two nodes is width^length - it wraps around in any integer type and
    # overflows float32, so only implementations that look at the non-zero pattern get these right
    for k in range(48 if tier == "quick" else 640):
        if k % nshards == shard:
            rng = util.rng_for("C03", seed, "layered", k)
            yield ("constructor" if k % 8 == 7 else "adversarial"), dict({"A": layered(rng, k)}, **({"which": "LGANM"} if k % 8 == 7 else {}))
    # (c) constructors
    for k in range(N_CTOR[tier]):
        if k % nshards == shard:
            rng = util.rng_for("C03", seed, "ctor", k)
            A = adversarial(rng, k)
            yield "constructor", {"A": A, "which": ("LGANM", "ANM", "DRFNet")[k % 3] if k % 12 != 11 else "DRFNet"}


def _kahn_cyclic(out):
    try:
        G.topological_order(out)
        return False
    except ValueError:
        return True


def judge(family, case, rec):
    import sempler
    import sempler.utils as U
    if family == "byte-alias":
        p, code = case["p"], case["code"]
        X = np.array([(code >> b) & 1 for b in range(p * p)], dtype=case["d1"]).reshape(p, p)
        q = p * case["factor"]
        Y = np.frombuffer(X.tobytes(), dtype=case["d2"]).reshape(q, q).copy()
        pair = (X, Y) if case["first"] else (Y, X)
        rec.case(family, case, True, key=("ba", p, code, case["d1"], case["d2"], case["first"]))
        for M in pair:
            out = gmat.masks(M)
            cyclic = G.has_cycle(out)
            rec.count("oracle:cyclic" if cyclic else "oracle:acyclic")
            try:
                r = bool(U.is_dag(M))
            except Exception as e:
                rec.exception_violation("C03:is_dag-exception", family, case, "is_dag raised", e)
                continue
            if r == cyclic:
                rec.violation("C03:is_dag-wrong-" + ("cyclic-accepted" if cyclic else "acyclic-rejected"), family, case,
                              "is_dag=%s for a %s %dx%d matrix asked right after a %s matrix with the same raw bytes"
                              % (r, M.dtype, len(M), len(M), "different"), matrix=M)
            try:
                order = U.topological_ordering(M)
                if cyclic or not G.is_topological_order(order, out):
                    rec.violation("C03:order-invalid" if not cyclic else "C03:order-returned-for-cyclic", family, case,
                                  "topological_ordering returned %s" % (list(map(int, order)),), matrix=M)
            except ValueError:
                if not cyclic:
                    rec.violation("C03:order-valueerror-for-dag", family, case, "topological_ordering raised ValueError for a DAG", matrix=M)
            except Exception as e:
                rec.exception_violation("C03:order-exception", family, case, "topological_ordering raised a non-ValueError", e)
        return
    if family == "ternary":
        A = ternary_matrix(case["p"], case["code"], case["dtype"])
        key = (case["p"], case["code"])
    elif family == "offdiag4":
        A = offdiag_matrix(4, case["code"], case["dtype"])
        key = (4, case["code"])
    else:
        A = case["A"]
        key = None
    if family != "constructor":
        h = int(np.count_nonzero(A)) * 5 + int(np.count_nonzero(np.asarray(A) < 0)) * 3 + len(A)
        A = gmat.hostile_array(A, h)     # re-used buffer / Fortran order / strided view / read-only / other dtype
        rec.count("presentation:%d" % (h % 8))
    out = gmat.masks(A)
    cyclic = G.has_cycle(out)
    if cyclic != _kahn_cyclic(out):
        rec.count("oracle:self-disagreement")
        raise RuntimeError("oracle disagreement on %r" % (A.tolist(),))
    rec.count("oracle:cyclic" if cyclic else "oracle:acyclic")
    nontrivial = bool(cyclic or (np.asarray(A) < 0).any())
    rec.case(family, case, nontrivial, key=key)
    before = A.copy()

    if family == "constructor":
        which = case["which"]
        rec.count("ctor:" + which)
        p = len(A)
        try:
            if which == "LGANM":
                # W is documented as array_like: nested lists / tuples now and then
                h = int(np.count_nonzero(A)) + len(A)
                Warg = (A, A.tolist(), A, tuple(tuple(r) for r in A.tolist()))[h % 4]
                rec.count("ctor:LGANM-W-as-%s" % type(Warg).__name__)
                sempler.LGANM(Warg, (0, 1), (1, 2))
            elif which == "ANM":
                sempler.ANM(A, [None] * p, [sempler.noise.normal(0, 1)] * p)
            else:
                import sempler.semi
                data = [np.arange(4 * p, dtype=float).reshape(4, p)]
                sempler.semi.DRFNet(A, data)
            accepted, exc = True, None
        except ValueError as e:
            accepted, exc = False, e
        except Exception as e:
            rec.exception_violation("C03:ctor-%s-exception" % which, family, case,
                                    "%s constructor raised %s instead of accepting / ValueError" % (which, type(e).__name__), e)
            return
        if accepted == cyclic:
            rec.violation("C03:ctor-%s-%s" % (which, "accepts-cyclic" if cyclic else "rejects-acyclic"), family, case,
                          "%s constructor %s a matrix whose non-zero pattern is %s"
                          % (which, "accepted" if accepted else "rejected", "cyclic" if cyclic else "acyclic"),
                          matrix=A, message=str(exc))
        return

    # is_dag
    try:
        r = U.is_dag(A)
    except Exception as e:
        rec.exception_violation("C03:is_dag-exception", family, case, "is_dag raised", e)
        r = None
    if r is not None:
        if not isinstance(r, (bool, np.bool_)):
            rec.violation("C03:is_dag-type", family, case, "is_dag returned %r" % (r,), matrix=A)
        elif bool(r) == cyclic:
            rec.violation("C03:is_dag-wrong-" + ("cyclic-accepted" if cyclic else "acyclic-rejected"), family, case,
                          "is_dag=%s but the non-zero pattern is %s" % (r, "cyclic" if cyclic else "acyclic"), matrix=A)
    # topological_ordering
    try:
        order = U.topological_ordering(A)
        raised = None
    except ValueError as e:
        order, raised = None, e
    except Exception as e:
        rec.exception_violation("C03:order-exception", family, case, "topological_ordering raised a non-ValueError", e)
        return
    if cyclic:
        if raised is None:
            rec.violation("C03:order-returned-for-cyclic", family, case,
                          "topological_ordering returned %s for a cyclic pattern" % (list(map(int, order)),), matrix=A)
    else:
        if raised is not None:
            rec.violation("C03:order-valueerror-for-dag", family, case, "topological_ordering raised ValueError for a DAG", matrix=A)
        elif not G.is_topological_order(order, out):
            rec.violation("C03:order-invalid", family, case,
                          "ordering %s is not a permutation with all edges forward" % (list(map(int, order)),), matrix=A)
        else:
            rec.count("order:valid")
    if not (A == before).all():
        rec.violation("C03:input-mutated", family, case, "the input matrix was modified", matrix=before)
