"""Shared pieces of the graph-algorithm checks (C07-C10, C15, C16, C18)."""
import numpy as np

from ..core import util
from ..oracles import graphs as G
from ..workloads import gmat


def key_of(out):
    return tuple(out)


def result_set(res):
    """Set (and list) of mask tuples from a stack of adjacency matrices as
    returned by mec / imec / all_dags (shape (k, p, p), or (0,) when empty)."""
    res = np.asarray(res)
    if res.ndim == 1 and res.size == 0:
        return [], set()
    if res.ndim != 3:
        raise TypeError("unexpected result shape %r" % (res.shape,))
    lst = [tuple(gmat.masks(A)) for A in res]
    return lst, set(lst)


def compare_sets(got_list, got_set, want_set):
    """Returns None when equal-with-no-duplicates, else a dict describing the difference."""
    if len(got_list) != len(got_set):
        return {"kind": "duplicates", "returned": len(got_list), "distinct": len(got_set)}
    if got_set != want_set:
        missing = sorted(want_set - got_set)[:3]
        extra = sorted(got_set - want_set)[:3]
        return {"kind": "missing" if missing and not extra else ("extra" if extra and not missing else "different"),
                "missing": [G.rows_from_masks(list(m)) for m in missing],
                "extra": [G.rows_from_masks(list(m)) for m in extra],
                "returned": len(got_set), "expected": len(want_set)}
    return None


def pdag_codes(p):
    return 4 ** len(G.pairs(p))


def iter_pdag_cases(ps, shard, nshards, start=0):
    idx = start
    for p in ps:
        for code in range(pdag_codes(p)):
            if idx % nshards == shard:
                yield {"p": p, "code": code}
            idx += 1


def iter_dag_cases(ps, shard, nshards):
    idx = 0
    for p in ps:
        for code in G.all_dag_codes(p):
            if idx % nshards == shard:
                yield {"p": p, "code3": code}
            idx += 1


def sampled_pdag(seed_parts, pmin, pmax, max_und=10, max_edges=12):
    rng = util.rng_for(*seed_parts)
    for _ in range(100):
        p = int(rng.integers(pmin, pmax + 1))
        out = gmat.random_pdag_masks(rng, p)
        P = G.Parts(out)
        und = sum(G.popcount(m) for m in P.nb) // 2
        edges = sum(G.popcount(m) for m in P.adj) // 2
        if und <= max_und and edges <= max_edges and G.directed_part_acyclic(out):
            return out
    return [0] * pmin


def sampled_dag(seed_parts, pmin, pmax, max_edges=12):
    rng = util.rng_for(*seed_parts)
    for _ in range(100):
        p = int(rng.integers(pmin, pmax + 1))
        out = gmat.random_dag_masks(rng, p)
        if G.n_edges(out) <= max_edges:
            return out
    return [0] * pmin


def n_undirected(out):
    P = G.Parts(out)
    return sum(G.popcount(m) for m in P.nb) // 2


def rows(out):
    return G.rows_from_masks(list(out))


def sample_pdag5_codes(seed_parts, n, shard, nshards):
    """n distinct random PDAG codes on 5 nodes (of 4^10), deterministic in the seed, this shard's share."""
    if not n:
        return
    rng = util.rng_for(*(tuple(seed_parts) + ("pdag5",)))
    codes = rng.choice(4 ** 10, n, replace=False)
    for k, c in enumerate(codes):
        if k % nshards == shard:
            yield int(c)


def near_chain(seed_parts):
    """Weight matrices around the library's chain-graph special case: the canonical chain 0->1->...->p-1 with
    arbitrary (non-unit, signed, tiny) weights, optionally with a few extra forward edges whose sign differs, or with
    the chain reversed / relabelled.  Returns a float matrix."""
    rng = util.rng_for(*seed_parts)
    p = int(rng.integers(2, 9))
    W = np.zeros((p, p))
    style = int(rng.integers(0, 10))
    sign = float(rng.choice([-1, 1]))
    for i in range(p - 1):
        mag = float(rng.choice([1.0, 2.0, 0.5, 1e-9, 3.7])) if style != 0 else 1.0
        W[i, i + 1] = (sign if style in (1, 2, 3) else float(rng.choice([-1, 1]))) * mag if style else 1.0
    if style in (2, 3, 4) and p >= 3:
        for _ in range(int(rng.integers(1, 3))):
            a, b = sorted(int(v) for v in rng.choice(p, 2, replace=False))
            if b - a >= 2:
                W[a, b] = -sign * float(rng.choice([1.0, 0.3, 2.0])) if style != 4 else sign
    if style == 5:
        W = W.T.copy()      # reversed chain: a chain graph, but not the canonical one
    if style in (6, 7):
        # the exact unit-weight canonical chain plus one or two extra edges that are non-zero but minute: not a chain
        W = np.zeros((p, p))
        for i in range(p - 1):
            W[i, i + 1] = 1.0
        if p >= 3:
            for _ in range(int(rng.integers(1, 3))):
                a, b = sorted(int(v) for v in rng.choice(p, 2, replace=False))
                if b - a >= 2:
                    W[a, b] = float(rng.choice([-1, 1])) * float(rng.choice([1e-9, 1e-12, 1e-100, 5e-324]))
        if style == 7:
            W[W == 1.0] = 1.0 + 1e-10      # still exactly a chain pattern, weights merely close to 1
    if style in (8, 9) and p >= 4:
        # the exact unit chain plus two chords whose weights cancel (+w, -w): the sum of all weights equals the chain's
        W = np.zeros((p, p))
        for i in range(p - 1):
            W[i, i + 1] = 1.0
        w = float(rng.choice([0.5, 1.0, 2.0]))
        chords = [(a, b) for a in range(p) for b in range(a + 2, p)]
        pick = rng.choice(len(chords), 2, replace=False)
        W[chords[int(pick[0])]] = w
        W[chords[int(pick[1])]] = -w
        if style == 9:
            W = W.astype(int) if w != 0.5 else W
    return W


def repeat_after_overwrite(rec, family, case, prop, name, fn, args, first):
    """The caller overwrites the array(s) an earlier call returned (they are his), then repeats the call with equal
    arguments: the answer must be the same graph(s).  ``first`` is the earlier result (ndarray)."""
    first = np.asarray(first)
    if first.size == 0 or not first.flags.writeable:
        return
    keep = first.copy()
    first[...] = 1 - (first != 0) if first.dtype.kind in "iub" else 7.0
    rec.count("repeat-after-caller-overwrote-result:" + name)
    try:
        again = np.asarray(fn(*args))
    except Exception as e:
        rec.exception_violation("%s:%s-repeat-exception" % (prop, name), family, case, "%s raised when repeated after the caller overwrote its earlier result" % name, e)
        return
    if again.shape != keep.shape or not ((again != 0) == (keep != 0)).all():
        rec.violation("%s:%s-depends-on-overwritten-earlier-result" % (prop, name), family, case,
                      "%s returns a different graph after the caller overwrote the array returned by an earlier, identical call" % name,
                      first_result=keep, second_result=again)


def library_chain_edited(U, seed_parts):
    """A graph a user builds the usual way: take the library's own chain_graph(p) and edit the array in place (add a chord,
    reverse or delete an edge).  Returns the edited array (the very object chain_graph returned)."""
    rng = util.rng_for(*seed_parts)
    p = int(rng.integers(3, 9))
    A = U.chain_graph(p)
    kind = int(rng.integers(0, 4))
    if kind == 0 and p >= 3:
        a, b = sorted(int(v) for v in rng.choice(p, 2, replace=False))
        if b - a >= 2:
            A[a, b] = 1
    elif kind == 1:
        i = int(rng.integers(0, p - 1))
        A[i, i + 1] = 0
        A[i + 1, i] = 1
    elif kind == 2:
        i = int(rng.integers(0, p - 1))
        A[i, i + 1] = 0
    return A


def dense_pdag(seed_parts, p_choices=(6, 7), max_und=10):
    """Dense mixed graph: directed edges along a random order (acyclic by construction), many of them made undirected."""
    rng = util.rng_for(*seed_parts)
    p_ = int(p_choices[int(rng.integers(len(p_choices)))])
    order = [int(v) for v in rng.permutation(p_)]
    dens, pu = rng.uniform(0.6, 1.0), rng.uniform(0.2, 0.6)
    out, nund = [0] * p_, 0
    for a in range(p_):
        for b in range(a + 1, p_):
            if rng.random() < dens:
                out[order[a]] |= 1 << order[b]
                if nund < max_und and rng.random() < pu:
                    out[order[b]] |= 1 << order[a]
                    nund += 1
    return out


def dense_dag(seed_parts, p_choices=(6,), min_density=0.7, max_edges=13):
    """Dense DAG on 6 nodes with at most max_edges edges (the class oracle enumerates 2^edges orientations)."""
    rng = util.rng_for(*seed_parts)
    p_ = int(p_choices[int(rng.integers(len(p_choices)))])
    for _ in range(50):
        out = G.random_dag(rng, p_, rng.uniform(min_density, 1.0))
        if G.n_edges(out) <= max_edges:
            return out
    return out


def ring_pdag(seed_parts, Lrange=(4, 10), pmax=10, styles=(0, 1, 2, 3)):
    """A chordless cycle on 4..9 of p nodes (p up to 10), each ring edge undirected or directed (consistently or not),
    plus optional pendant edges; relabelled.  Long chordless cycles are where reachability shortcuts go wrong."""
    rng = util.rng_for(*seed_parts)
    L = int(rng.integers(Lrange[0], Lrange[1]))
    p = L + int(rng.integers(0, 3))
    p = min(p, pmax)
    L = min(L, p)
    nodes = [int(v) for v in rng.permutation(p)]
    out = [0] * p
    style = int(styles[int(rng.integers(0, len(styles)))])
    for t in range(L):
        a, b = nodes[t], nodes[(t + 1) % L]
        r = rng.random()
        if style == 0 or (style == 2 and r < 0.6) or (style == 3 and t > 0):      # undirected
            out[a] |= 1 << b
            out[b] |= 1 << a
        elif style == 1 or r < 0.8 or style == 3:                                 # consistently directed around the ring
            if not (style == 1 and t == L - 1):
                out[a] |= 1 << b
            else:
                out[a] |= 1 << b
                out[b] |= 1 << a            # last edge undirected: a partly directed ring
        else:
            out[b] |= 1 << a
    for v in nodes[L:]:
        w = nodes[int(rng.integers(0, L))]
        if rng.random() < 0.5:
            out[w] |= 1 << v
        else:
            out[v] |= 1 << w
            out[w] |= 1 << v
    return out


def scribble_related(U, A, rec, names):
    """Call related routines on (a copy of) the same graph and overwrite their results in place, as a caller may do with
    arrays he was given.  Exceptions are ignored here (the routines are judged by their own checks)."""
    for name in names:
        try:
            fn = getattr(U, name)
            r = fn(len(A)) if name in ("chain_graph_MEC", "chain_graph") else fn(np.array(A, copy=True))
            if isinstance(r, np.ndarray) and r.size and r.flags.writeable:
                r[...] = 7 if r.dtype != bool else True
                rec.count("history:related-result-overwritten:" + name)
        except Exception:
            pass


def meek_gadget_dag(seed_parts, max_edges=13):
    """A DAG on 6..8 nodes built round the premises of Meek's rules 3 and 4: a node j with three (or four) parents k1..k, a
    node i adjacent to all of them and to j, random adjacencies among the parents, one to three further nodes attached at random;
    oriented along a random order in which j comes after its parents, then relabelled.  In random graphs of this size the
    constellation "several candidate parents, only some pairs non-adjacent" is rare (below 0.1 %)."""
    rng = util.rng_for(*seed_parts)
    for _ in range(200):
        nk = 3 if rng.random() < 0.75 else 4
        extra = int(rng.integers(1, 4)) if nk == 3 else int(rng.integers(0, 3))
        p = 2 + nk + extra
        i, j = 0, 1
        ks = list(range(2, 2 + nk))
        xs = list(range(2 + nk, p))
        und = set()
        for k in ks:
            und.add((k, j))
            if rng.random() < 0.9:
                und.add((i, k))
        if rng.random() < 0.85:
            und.add((i, j))
        for a in range(nk):
            for b in range(a + 1, nk):
                if rng.random() < 0.5:
                    und.add((ks[a], ks[b]))
        for x in xs:
            for y in rng.choice(p, int(rng.integers(1, 3)), replace=False):
                if int(y) != x:
                    und.add((min(x, int(y)), max(x, int(y))))
        if len(und) > max_edges:
            continue
        # a random order with j after all its parents
        order = [int(v) for v in rng.permutation(p)]
        pos = {v: t for t, v in enumerate(order)}
        last = max(pos[k] for k in ks)
        if pos[j] < last:
            a, b = pos[j], last
            order[a], order[b] = order[b], order[a]
            pos = {v: t for t, v in enumerate(order)}
        out = [0] * p
        for (a, b) in und:
            if pos[a] < pos[b]:
                out[a] |= 1 << b
            else:
                out[b] |= 1 << a
        return gmat.relabel(out, rng)
    return out
