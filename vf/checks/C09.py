"""C09 - consistent-extension search and Meek orientation are sound and complete.

Monitors: post-conditions on utils.pdag_to_dag / has_consistent_extension /
maximally_orient; evidence-only wrappers on rule_1..rule_4 recording which Meek
rules fired (alone) during the run.
Oracle: brute-force set of consistent extensions of the PDAG.
"""
import numpy as np

from ..core import util
from ..oracles import graphs as G
from ..workloads import gmat
from . import _gc

TECHNIQUE = "runtime post-condition monitors on pdag_to_dag/has_consistent_extension/maximally_orient vs. brute-force extension sets (all PDAGs p<=4 quick, p<=5 thorough); Meek-rule firing counters"
LEVEL_TEXT = ("For every PDAG code on p<=4 nodes (quick) and p<=5 (thorough, 4^10 codes) the three routines are judged against "
              "the brute-force extension set: returned DAG is a member / ValueError iff the set is empty; the maximal "
              "orientation directs an edge iff all extensions agree on it.  Sampled PDAGs to p=8.  Counters show each Meek "
              "rule firing as the only applicable rule, so a run that never needed rule 3 or 4 is visible.")
LEVEL_NOTE = "Trusted: brute-force extension enumerator. Beyond p=5 sampled (<= 9 undirected, <= 11 edges)."
RULE = ("cases: PDAG codes (one base-4 digit per node pair) with acyclic directed part.  distinct = distinct graph; "
        "non-trivial = at least one undirected edge or no consistent extension"
        ' Also: relabelled embeddings of all p<=4 and sampled p=5 PDAGs, array presentations, debug=True, repeat after the caller overwrote the result.')
ASSUMPTIONS = ["brute-force oracle correct", "maximally_orient is only judged on PDAGs that admit an extension (the property's scope)"]
EXHAUSTIVE = {"quick": True, "thorough": True}
SOFT_LIMIT = {"quick": 1200, "thorough": 5400}      # generous wall-clock watchdogs (a loaded machine must not cut a workload short); normal run times are in the evidence
REQUIRED_FUNCS = ["sempler/utils.py:pdag_to_dag", "sempler/utils.py:has_consistent_extension", "sempler/utils.py:maximally_orient"]
REQUIRED_COUNTERS = {"quick": {"ext:none": 100, "ext:some": 1000, "meek:oriented-something": 100,
                               },
                     "thorough": {"ext:none": 1000, "ext:some": 10000, "meek:oriented-something": 1000,
                                  }}       # the rule-alone:* counters (which of the library's rule_1..4 fired alone) are evidence only
N = {"quick": 1500, "thorough": 150000}
NMID = {"quick": 40000, "thorough": 600000}      # random PDAGs on 6-8 nodes (rule-3-type errors first show there, about 1 in 1e4)
P5 = {"quick": 60000, "thorough": 0}


def gen(tier, seed, shard, nshards):
    for c in _gc.iter_pdag_cases((1, 2, 3, 4) if tier == "quick" else (1, 2, 3, 4, 5), shard, nshards):
        yield "pdag", c
    for code in _gc.sample_pdag5_codes(("C09", seed), P5[tier], shard, nshards):
        yield "pdag", {"p": 5, "code": code}
    for c in _gc.iter_pdag_cases((3, 4), shard, nshards):
        yield "embedded-pdag", dict(c, P=9 + c["code"] % 5)
    for k, code in enumerate(_gc.sample_pdag5_codes(("C09", seed, "emb"), P5[tier] // 6 + 2000, shard, nshards)):
        yield "embedded-pdag", {"p": 5, "code": code, "P": 9 + code % 5}
    t = 0
    for p in range(5, 11):
        for variant in range(4):
            for rep in range(3):
                if t % nshards == shard:
                    yield "propagation-pdag", {"p": p, "variant": variant, "rep": rep}
                t += 1
    for k in range(NMID[tier]):
        if k % nshards == shard:
            if k % 2:
                yield "sampled-pdag", {"masks": _gc.sampled_pdag(("C09", seed, "mid", k), 6, 8, max_und=9, max_edges=14)}
            else:
                # dense mixed graphs on 6-7 nodes: directed edges along a random order (acyclic), many undirected ones
                rng = util.rng_for("C09", seed, "dense", k)
                p_ = 6 + (k // 2) % 2
                order = [int(v) for v in rng.permutation(p_)]
                dens, pu = rng.uniform(0.6, 1.0), rng.uniform(0.2, 0.6)
                out, nund = [0] * p_, 0
                for a in range(p_):
                    for b in range(a + 1, p_):
                        if rng.random() < dens:
                            out[order[a]] |= 1 << order[b]
                            if nund < 10 and rng.random() < pu:
                                out[order[b]] |= 1 << order[a]
                                nund += 1
                yield "sampled-pdag", {"masks": out}
    for k in range(800 if tier == "quick" else 20000):
        if k % nshards == shard:
            rp = _gc.ring_pdag(("C09", seed, "ring", k))
            if G.directed_part_acyclic(rp):
                yield "sampled-pdag", {"masks": rp}
    # dense DAGs without v-structures on 5 nodes, every edge made undirected except those at one node: the orientation has to travel
    # through several triangles (the Meek fix-point needs several sweeps, in an order that depends on the labels)
    k = 0
    for code in G.all_dag_codes(5):
        d5 = G.dag_from_code3(5, code)
        if G.n_edges(d5) >= 7 and not G.vstructures(d5):
            if k % nshards == shard:
                rng = util.rng_for("C09", seed, "moral5", code)
                for t in (rng.choice(5, 1 if tier == "quick" else 5, replace=False)):
                    t = int(t)
                    pd5 = list(d5)
                    for a in range(5):
                        for b in G.bits(d5[a]):
                            if a != t and b != t:
                                pd5[b] |= 1 << a
                    yield "sampled-pdag", {"masks": pd5}
            k += 1
    for k in range(N[tier]):
        if k % nshards == shard:
            yield "sampled-pdag", {"masks": _gc.sampled_pdag(("C09", seed, "sp", k), 6, 12, max_und=9, max_edges=12)}


def setup(rec):
    import sempler.utils as U
    G.self_check()
    rec.count("oracle:self-check-passed")
    if not all(hasattr(U, "rule_%d" % k) for k in (1, 2, 3, 4)):
        rec.notes.append("no utils.rule_1..4 to observe")        # evidence-only monitors: a rewrite need not have these routines
        return
    origs = [U.rule_1, U.rule_2, U.rule_3, U.rule_4]

    def rule_1_monitor(i, j, A):
        # rule_1 is always evaluated first for an (i, j): record the full firing pattern
        pattern = tuple(bool(f(i, j, A)) for f in origs)
        if any(pattern):
            rec.count("rules:" + "".join("1" if b else "0" for b in pattern))
            if sum(pattern) == 1:
                rec.count("rule-alone:%d" % (pattern.index(True) + 1))
        return pattern[0]
    U.rule_1 = rule_1_monitor
    for k in (2, 3, 4):
        def mk(f, k):
            def w(i, j, A):
                r = f(i, j, A)
                if r:
                    rec.count("rule-decided:%d" % k)
                return r
            return w
        setattr(U, "rule_%d" % k, mk(origs[k - 1], k))


def judge(family, case, rec):
    import sempler.utils as U
    if family == "pdag":
        out = G.pdag_from_code(case["p"], case["code"])
        key = (case["p"], case["code"])
    elif family == "propagation-pdag":
        # a directed edge (or a v-structure) at one end of a long undirected path / tree: the orientation has to travel
        p_, v = case["p"], case["variant"]
        out = [0] * p_

        def und(a, b):
            out[a] |= 1 << b
            out[b] |= 1 << a
        if v == 0:        # 0 -> 1 - 2 - 3 - ... - (p-1)
            out[0] |= 1 << 1
            for i in range(1, p_ - 1):
                und(i, i + 1)
        elif v == 1:      # 0 -> 2 <- 1,  2 - 3 - ... - (p-1)
            out[0] |= 1 << 2
            out[1] |= 1 << 2
            for i in range(2, p_ - 1):
                und(i, i + 1)
        elif v == 2:      # 0 -> 1, then an undirected binary tree hanging from 1
            out[0] |= 1 << 1
            for i in range(2, p_):
                und(i, max(1, i // 2))
        else:             # undirected path with the directed edge in the middle pointing to one side
            m = p_ // 2
            out[m] |= 1 << (m + 1)
            for i in range(0, m):
                und(i, i + 1)
            for i in range(m + 1, p_ - 1):
                und(i, i + 1)
        if case["rep"]:
            out = gmat.relabel(out, util.rng_for("C09prop", p_, v, case["rep"]))
        key = ("prop", p_, v, case["rep"])
        rec.count("propagation-pdags")
    elif family == "embedded-pdag":
        small = G.pdag_from_code(case["p"], case["code"])
        if not G.directed_part_acyclic(small) or G.n_edges(small) < 2:
            return
        out = gmat.embed_any(small, case["P"], util.rng_for("C09e", case["p"], case["code"]), case.get("code", case.get("code3", 0)) // 2)
        key = ("e", case["p"], case["code"])
        rec.count("embedded:graphs")
    else:
        out = list(case["masks"])
        key = None
    if not G.directed_part_acyclic(out):
        rec.count("out_of_domain:cyclic-directed-part")
        return
    p = len(out)
    ext = [tuple(g) for g in G.extensions(out)]
    ext_set = set(ext)
    und = _gc.n_undirected(out)
    rec.case(family, case, bool(und >= 1 or not ext), key=key)
    rec.count("ext:some" if ext else "ext:none")
    P = gmat.hostile_array(gmat.to_np(out), sum(out) + len(ext))
    before = P.copy()
    ctx = {"pdag": _gc.rows(out), "n_extensions": len(ext)}
    if (sum(out) + len(out)) % 5 == 4:
        # history across routines: related routines asked about the same graph first, their results overwritten by the caller
        _gc.scribble_related(U, before, rec, ("all_dags", "pdag_to_cpdag", "only_directed", "only_undirected", "skeleton", "undirected_edges"))

    # pdag_to_dag
    try:
        res = U.pdag_to_dag(P)
        raised = None
    except ValueError as e:
        res, raised = None, e
    except Exception as e:
        rec.exception_violation("C09:pdag_to_dag-exception", family, case, "pdag_to_dag raised a non-ValueError", e)
        res, raised = None, "other"
    if raised is None:
        got = tuple(gmat.masks(res))
        if (sum(out) + p) % 3 == 0:
            _gc.repeat_after_overwrite(rec, family, case, "C09", "pdag_to_dag", U.pdag_to_dag, (before.copy(),), res)
        if not ext:
            rec.violation("C09:pdag_to_dag-returns-for-unextendable", family, case,
                          "pdag_to_dag returned a graph but no consistent extension exists", returned=_gc.rows(got), **ctx)
        elif got not in ext_set:
            rec.violation("C09:pdag_to_dag-not-an-extension", family, case,
                          "pdag_to_dag returned a graph that is not a consistent extension", returned=_gc.rows(got), **ctx)
    elif raised != "other" and ext:
        rec.violation("C09:pdag_to_dag-valueerror-for-extendable", family, case,
                      "pdag_to_dag raised ValueError although %d consistent extensions exist" % len(ext),
                      an_extension=_gc.rows(ext[0]), **ctx)
    if not (P == before).all():
        rec.violation("C09:input-mutated", family, case, "pdag_to_dag modified its argument", **ctx)

    # debug=True only prints: the result / exception must be the same
    if (sum(out) + p) % 16 == 5:
        import io, contextlib
        buf = io.StringIO()
        try:
            with contextlib.redirect_stdout(buf):
                rd = U.pdag_to_dag(before.copy(), debug=True)
            dbg = ("ok", tuple(gmat.masks(rd)))
        except ValueError:
            dbg = ("ValueError", None)
        except Exception as e:
            dbg = (type(e).__name__, None)
        rec.count("keyword:debug=True")
        norm = ("ok", got) if raised is None else ("ValueError" if raised != "other" else "other", None)
        if dbg != norm:
            rec.violation("C09:pdag_to_dag-debug-changes-result", family, case, "pdag_to_dag(P, debug=True) behaves differently from pdag_to_dag(P): %r vs %r" % (dbg[0], norm[0]), **ctx)
        if ext:
            try:
                with contextlib.redirect_stdout(buf):
                    Md = U.maximally_orient(before.copy(), debug=True)
                if gmat.masks(Md) != G.union_graph(ext, p):
                    rec.violation("C09:maximally_orient-debug-changes-result", family, case, "maximally_orient(P, debug=True) differs from the maximal orientation", **ctx)
            except Exception as e:
                rec.exception_violation("C09:maximally_orient-debug-exception", family, case, "maximally_orient(P, debug=True) raised", e)
    # has_consistent_extension
    try:
        h = U.has_consistent_extension(P)
        if bool(h) != bool(ext):
            rec.violation("C09:has_consistent_extension-wrong", family, case,
                          "has_consistent_extension=%s, brute force finds %d" % (h, len(ext)), **ctx)
    except Exception as e:
        rec.exception_violation("C09:has_consistent_extension-exception", family, case, "has_consistent_extension raised", e)

    # maximally_orient (scope: PDAGs with an extension)
    if ext:
        # oracle: i -> j directed iff every extension has i -> j; undirected iff both orientations occur
        want = G.union_graph(ext, p)
        try:
            M = U.maximally_orient(P)
        except Exception as e:
            rec.exception_violation("C09:maximally_orient-exception", family, case, "maximally_orient raised", e)
            return
        got = gmat.masks(M)
        if (sum(out) + p) % 3 == 1:
            _gc.repeat_after_overwrite(rec, family, case, "C09", "maximally_orient", U.maximally_orient, (before.copy(),), M)
        if got != want:
            Pw, Pg = G.Parts(want), G.Parts(got)
            if Pg.adj != Pw.adj:
                kind = "skeleton-changed"
            elif any(Pg.nb[i] & ~Pw.nb[i] for i in range(p)):
                kind = "forced-edge-left-undirected"
            else:
                kind = "unsound-orientation"
            rec.violation("C09:maximally_orient-" + kind, family, case,
                          "maximally_orient differs from 'directed iff all extensions agree'",
                          returned=_gc.rows(got), expected=_gc.rows(want), **ctx)
        else:
            if got != list(out):
                rec.count("meek:oriented-something")
            else:
                rec.count("meek:nothing-to-orient")
        if not (P == before).all():
            rec.violation("C09:input-mutated", family, case, "maximally_orient modified its argument", **ctx)
    else:
        try:
            U.maximally_orient(P)
            rec.count("meek:unextendable-accepted(out of scope)")
        except ValueError:
            rec.count("meek:unextendable-valueerror(out of scope)")
        except Exception:
            rec.count("meek:unextendable-other-exception(out of scope)")
