"""C08 - the CPDAG is the essential graph of the equivalence class.

Monitors: post-conditions on utils.dag_to_cpdag / utils.pdag_to_cpdag.
Oracle: union graph of the brute-force Markov equivalence class.
"""
import numpy as np

from ..core import util
from ..oracles import graphs as G
from ..workloads import gmat
from . import _gc

TECHNIQUE = "runtime post-condition monitors on dag_to_cpdag/pdag_to_cpdag vs. union graph of the brute-force equivalence class (all 29,281 DAGs p<=5; all PDAGs p<=4 quick / p<=5 thorough; dense 6-7 node DAGs via a covered-edge-reversal class search)"
LEVEL_TEXT = ("Every CPDAG returned for the workload is compared entry-wise with the union graph of the class found by brute "
              "force: all DAGs on p<=5 nodes (every member of every class, so class-invariance is observed directly) and all "
              "PDAG codes on p<=4 (quick) / p<=5 (thorough) including those with no extension (ValueError expected), plus "
              "sampled graphs to p=8 and real-weighted copies whose result may depend only on the non-zero pattern.")
LEVEL_NOTE = "Trusted: brute-force class table (counts re-derived each run). Beyond p=5 sampled, <= 12 edges."
RULE = ("cases: DAG codes -> dag_to_cpdag; PDAG codes with acyclic directed part -> pdag_to_cpdag (ValueError iff no "
        "consistent extension); weighted copies; sampled p 6..8.  distinct = distinct (family, graph, weights); "
        "non-trivial = class size >= 2, or a compelled edge outside every v-structure, or no extension"
        ' Also: relabelled embeddings (random / hash-hostile) of the small graphs, named shapes, 1,600 sparse DAGs on 10-14 nodes, array presentations, minute weights, repeat after the caller overwrote the result.')
ASSUMPTIONS = ["brute-force oracle correct (self-check counts)", "PDAGs with cyclic directed part are out of the quantifier (counted only)"]
EXHAUSTIVE = {"quick": True, "thorough": True}
SOFT_LIMIT = {"quick": 1200, "thorough": 5400}      # generous wall-clock watchdogs (a loaded machine must not cut a workload short); normal run times are in the evidence
REQUIRED_FUNCS = ["sempler/utils.py:dag_to_cpdag", "sempler/utils.py:pdag_to_cpdag"]
REQUIRED_COUNTERS = {"quick": {"cpdag:compelled-outside-vstructure": 100, "cpdag:has-reversible": 1000, "pdag:no-extension": 50,
                               },
                     "thorough": {"cpdag:compelled-outside-vstructure": 100, "cpdag:has-reversible": 1000, "pdag:no-extension": 500,
                                  }}       # the label:* counters (branches of the library's own label_edges) are evidence only: a rewrite need not have such a routine
N = {"quick": {"weighted": 1500, "sampled": 900, "pdag5": 30000}, "thorough": {"weighted": 100000, "sampled": 50000, "pdag5": 0}}


def gen(tier, seed, shard, nshards):
    for c in _gc.iter_dag_cases((1, 2, 3, 4, 5), shard, nshards):
        yield "dag", c
    for c in _gc.iter_pdag_cases((1, 2, 3, 4) if tier == "quick" else (1, 2, 3, 4, 5), shard, nshards):
        yield "pdag", c
    for code in _gc.sample_pdag5_codes(("C08", seed), N[tier]["pdag5"], shard, nshards):
        yield "pdag", {"p": 5, "code": code}
    for k in range(1600 if tier == "quick" else 40000):
        if k % nshards == shard:
            yield "sampled-dag", {"masks": _gc.sampled_dag(("C08", seed, "sparse-big", k), 10, 14, max_edges=10)}
    for k in range(2400 if tier == "quick" else 60000):
        if k % nshards == shard:
            # dense DAGs on 6-7 nodes with any number of edges (class oracle: covered-edge reversals)
            yield "sampled-dag", {"masks": _gc.dense_dag(("C08", seed, "densedag", k), p_choices=(6, 6, 7), min_density=0.55, max_edges=21)}
    for k in range(600 if tier == "quick" else 12000):
        if k % nshards == shard:
            yield "sampled-dag", {"masks": _gc.meek_gadget_dag(("C08", seed, "gadget", k))}
    for c in _gc.iter_pdag_cases((3, 4), shard, nshards):
        yield "embedded-pdag", dict(c, P=9 + c["code"] % 5)
    for c in _gc.iter_dag_cases((3, 4, 5), shard, nshards):
        if c["p"] < 5 or c["code3"] % 7 == 0:
            yield "embedded-dag", dict(c, P=9 + c["code3"] % 5)
    sidx = 0
    for pp in (6, 7, 8, 9, 10):
        for name in sorted(gmat.named_shapes(pp)):
            for rep in range(4 if name.startswith("chain-") else 2):      # label-dependent effects: several relabellings of the path shapes
                if sidx % nshards == shard:
                    yield "shape-dag", {"p": pp, "shape": name, "rep": rep}
                sidx += 1
    # small DAGs placed on the nodes 58..69 of a 70-node graph (the other nodes isolated): node indices beyond 63 are where
    # 64-bit set encodings (1 << node) run out
    wk = 0
    for code in G.all_dag_codes(4):
        small = G.dag_from_code3(4, code)
        if G.n_edges(small) >= 3:
            if wk % (3 if tier == "quick" else 1) == 0 and (wk // 3) % nshards == shard:
                yield "wide-dag", {"p": 4, "code3": code, "P": 70}
            wk += 1
    for k in range(N[tier]["weighted"]):
        if k % nshards == shard:
            rng = util.rng_for("C08", seed, "w", k)
            out = _gc.sampled_dag(("C08", seed, "wd", k), 2, 11, max_edges=11)
            yield "weighted", {"W": gmat.weighted(rng, out)}
    for k in range(N[tier]["sampled"]):
        if k % nshards == shard:
            if k % 2:
                yield "sampled-pdag", {"masks": _gc.sampled_pdag(("C08", seed, "sp", k), 6, 12, max_und=9, max_edges=11)}
            else:
                yield "sampled-dag", {"masks": _gc.sampled_dag(("C08", seed, "sd", k), 6, 12, max_edges=11)}


def setup(rec):
    G.self_check()
    rec.count("oracle:self-check-passed")
    import sempler.utils as U
    if len(G.all_dag_codes(4)) != 543 or len(G.class_table(4)) != 185:
        raise RuntimeError("oracle self-check failed")
    rec.add("oracle:dags/classes", "p=5: %d DAGs in %d classes" % (len(G.all_dag_codes(5)), len(G.class_table(5))))
    # evidence-only monitor on label_edges: which labelling branches were exercised
    orig = getattr(U, "label_edges", None)
    if orig is None:         # a rewrite need not have such a routine: the evidence-only monitor is simply not installed
        rec.notes.append("no utils.label_edges to observe")
        return

    def label_edges_monitor(ordered):
        res = orig(ordered)
        try:
            n_com = int((res == 1).sum())
            n_rev = int((res == -1).sum())
            rec.count("label:calls")
            if n_rev:
                rec.count("label:reversible")
            if n_com:
                rec.count("label:compelled")
        except Exception:
            pass
        return res
    U.label_edges = label_edges_monitor
    # branch counters through pa(): cheap proxy is not possible; instead re-derive the branch taken from the result
    rec.notes.append("label_edges wrapped on the module attribute (internal calls from dag_to_cpdag are observed)")


def _expected_cpdag(members, p):
    return G.union_graph(members, p)


def _compare(U, fn_name, arg, want, family, case, rec, ctx):
    if (sum(want) + len(want)) % 5 == 2:
        # history across routines: related routines asked about the same graph first, their results overwritten by the caller
        _gc.scribble_related(U, np.asarray(arg), rec, ("order_edges", "pdag_to_dag", "mec" if _gc.n_undirected(want) <= 8 else "skeleton", "maximally_orient", "only_directed", "skeleton",
                                                        "pdag_to_cpdag" if fn_name == "dag_to_cpdag" else "dag_to_cpdag"))
    try:
        res = getattr(U, fn_name)(arg)
    except Exception as e:
        rec.exception_violation("C08:%s-exception" % fn_name, family, case, "%s raised %s" % (fn_name, type(e).__name__), e)
        return None
    got = gmat.masks(res)
    vals = set(np.unique(np.asarray(res)).tolist())      # read before the overwrite history below scribbles on res
    if sum(want) % 4 == 0:
        _gc.repeat_after_overwrite(rec, family, case, "C08", fn_name, getattr(U, fn_name), (np.array(arg, copy=True),), res)
    if got != want:
        P = G.Parts(want)
        Q = G.Parts(got)
        if [a for a in Q.adj] != [a for a in P.adj]:
            kind = "skeleton"
        elif any(Q.nb[i] & ~P.nb[i] for i in range(P.p)):
            kind = "compelled-left-undirected"
        else:
            kind = "reversible-directed"
        rec.violation("C08:%s-%s" % (fn_name, kind), family, case,
                      "%s differs from the essential graph of the class" % fn_name,
                      returned=_gc.rows(got), expected=_gc.rows(want), **ctx)
    if not vals <= {0, 1}:
        rec.violation("C08:%s-not-binary" % fn_name, family, case, "%s returned entries %s" % (fn_name, sorted(vals)), **ctx)
    return got


def _stats(rec, dag_or_none, want):
    P = G.Parts(want)
    if any(P.nb):
        rec.count("cpdag:has-reversible")
    vs = G.vstructures(want)
    in_vs = set()
    for (i, c, j) in vs:
        in_vs.add((i, c))
        in_vs.add((j, c))
    outside = any((i, j) not in in_vs for i in range(P.p) for j in G.bits(P.ch[i]))
    if outside:
        rec.count("cpdag:compelled-outside-vstructure")
        # which label_edges branch must have produced it is not observable from outside; the two
        # compelling branches are distinguished by the oracle: an edge x->y compelled because a
        # compelled w->x exists with w not adjacent to y (w-loop) or because of z
        for i in range(P.p):
            for j in G.bits(P.ch[i]):
                if (i, j) in in_vs:
                    continue
                if any(not (P.adj[w] >> j) & 1 for w in G.bits(P.pa[i])):
                    rec.count("label:w-loop-compels-all")
                else:
                    rec.count("label:z-exists")
    return outside


def judge(family, case, rec):
    import sempler.utils as U
    if family == "shape-dag":
        out0 = gmat.named_shapes(case["p"])[case["shape"]]
        if G.n_edges(out0) > 12:
            return
        out = gmat.relabel(out0, util.rng_for("shape", case["p"], case["shape"], case["rep"])) if case["rep"] else list(out0)
        rec.count("shapes:" + case["shape"])
        case = dict(case, masks=out)
        family = "sampled-dag"
    if family == "wide-dag":
        small = G.dag_from_code3(case["p"], case["code3"])
        rngw = util.rng_for("C08wide", case["code3"])
        labels = [int(v) for v in rngw.choice(np.arange(58, 70), case["p"], replace=False)]
        big = [0] * case["P"]
        for i in range(case["p"]):
            for j in G.bits(small[i]):
                big[labels[i]] |= 1 << labels[j]
        rec.count("wide:graphs-with-labels>=64" if max(labels) >= 64 else "wide:graphs")
        case = dict(case, masks=big)
        family = "sampled-dag"
    if family == "embedded-dag":
        small = G.dag_from_code3(case["p"], case["code3"])
        if G.n_edges(small) < 2:
            return
        case = dict(case, masks=gmat.embed_any(small, case["P"], util.rng_for("C08e", case["p"], case["code3"]), case.get("code", case.get("code3", 0)) // 2))
        family = "sampled-dag"
        rec.count("embedded:graphs")
    elif family == "embedded-pdag":
        small = G.pdag_from_code(case["p"], case["code"])
        if not G.directed_part_acyclic(small) or G.n_edges(small) < 2:
            return
        case = dict(case, masks=gmat.embed_any(small, case["P"], util.rng_for("C08e", case["p"], case["code"]), case.get("code", case.get("code3", 0)) // 2))
        family = "sampled-pdag"
        rec.count("embedded:graphs")
    if family in ("dag", "sampled-dag", "weighted"):
        if family == "dag":
            out = G.dag_from_code3(case["p"], case["code3"])
            A = gmat.to_np(out, dtype=int if case["code3"] % 2 else float)
            key = (case["p"], case["code3"])
        elif family == "sampled-dag":
            out = list(case["masks"])
            A = gmat.hostile_array(gmat.to_np(out), sum(out))
            key = None
        else:
            A = case["W"]
            out = gmat.masks(A)
            key = None
        members = G.mec_of(out)
        want = _expected_cpdag(members, len(out))
        outside = _stats(rec, out, want)
        rec.case(family, case, bool(len(members) >= 2 or outside), key=key)
        rec.max("max-class-size", len(members))
        before = A.copy()
        _compare(U, "dag_to_cpdag", A, want, family, case, rec, {"dag": _gc.rows(out)})
        if not (A == before).all():
            rec.violation("C08:input-mutated", family, case, "dag_to_cpdag modified its argument")
        if (sum(out) + len(out)) % 3 == 0:
            # a DAG is a PDAG whose only consistent extension is itself: pdag_to_cpdag must return the same essential graph
            # (also for the real-weighted copies: DAG inputs may be weight matrices)
            rec.count("pdag_to_cpdag:given-a-dag" + (":weighted" if family == "weighted" else ""))
            _compare(U, "pdag_to_cpdag", A, want, family, case, rec, {"dag": _gc.rows(out)})
            if not (A == before).all():
                rec.violation("C08:input-mutated", family, case, "pdag_to_cpdag modified its argument")
    else:
        if family == "pdag":
            out = G.pdag_from_code(case["p"], case["code"])
            key = (case["p"], case["code"])
        else:
            out = list(case["masks"])
            key = None
        if not G.directed_part_acyclic(out):
            rec.count("out_of_domain:cyclic-directed-part")
            return
        ext = G.extensions(out)
        P = gmat.hostile_array(gmat.to_np(out), sum(out) + 3)
        if not ext:
            rec.case(family, case, True, key=key)
            rec.count("pdag:no-extension")
            try:
                res = U.pdag_to_cpdag(P)
            except ValueError:
                return
            except Exception as e:
                rec.exception_violation("C08:pdag_to_cpdag-exception", family, case, "pdag_to_cpdag raised a non-ValueError", e)
                return
            rec.violation("C08:pdag_to_cpdag-no-valueerror", family, case,
                          "pdag_to_cpdag returned a graph for a PDAG without consistent extension",
                          pdag=_gc.rows(out), returned=np.asarray(res))
            return
        members = G.mec_of(ext[0])
        want = _expected_cpdag(members, len(out))
        outside = _stats(rec, None, want)
        rec.case(family, case, bool(len(members) >= 2 or outside), key=key)
        rec.count("pdag:with-extension")
        _compare(U, "pdag_to_cpdag", P, want, family, case, rec, {"pdag": _gc.rows(out)})
