"""C05 - Gaussian conditioning and marginalisation are exact.

Monitor: post-conditions on NormalDistribution.conditional / .marginal and the
constructor's size check.  Oracle: Fraction Gauss-Jordan on the exactly converted
inputs (vf.oracles.exact), cross-checked inside the oracle through the
precision-matrix form; metamorphic relations between calls.
"""
import itertools

import numpy as np

from ..core import util
from ..oracles import exact as X

TECHNIQUE = "runtime post-condition monitor on NormalDistribution.conditional/marginal vs. exact-rational Gauss-Jordan oracle (condition-scaled tolerance) + metamorphic relations and exception contract"
LEVEL_TEXT = ("Each conditional / marginal returned for the workload is compared with an exact-rational derivation from the same "
              "numbers (tolerance 1e3*eps*cond(C_XX)*scale): random SPD covariances with condition numbers 1..1e8 and integer SPD "
              "matrices, p<=8, every ordered disjoint (Y, X) for p<=3 and sampled orders beyond, index arguments as int, list, tuple, "
              "ndarray and numpy ints.  Marginals must be bit-exact selections; conditioning on nothing == marginal and "
              "marginal(A).marginal(B) == marginal(A[B]) bit-for-bit; two-step == joint conditioning; the three documented "
              "ValueErrors are exercised.")
LEVEL_NOTE = "Trusted: Fraction arithmetic (two independent formulas must agree). Queries with 1e3*eps*cond > 1e-4 are not judged."
RULE = ("cases: (mean, covariance, Y, X, x, index form).  distinct = distinct canonical case; non-trivial = Y or X not in "
        "increasing order, or |X| >= 2"
        ' Also: the same Gaussian in units 1e-12..1e8, weak dependence, far-out conditioning values, badly scaled variables (gross-error regime), 12-24 variables with int8/uint8/int16/int32 index arrays, covariances of integer-weight SEMs with exact structural zeros; each distribution object answers all its queries (same sets in several orders).')
ASSUMPTIONS = ["conditioning block non-singular (the property's scope); tolerance scaled by its 2-norm condition number"]
EXHAUSTIVE = {"quick": False, "thorough": False}
SOFT_LIMIT = {"quick": 1200, "thorough": 5400}      # generous wall-clock watchdogs (a loaded machine must not cut a workload short); normal run times are in the evidence
REQUIRED_FUNCS = ["sempler/normal_distribution.py:NormalDistribution.conditional", "sempler/normal_distribution.py:NormalDistribution.marginal",
                  "sempler/normal_distribution.py:NormalDistribution.__init__"]
REQUIRED_COUNTERS = {"quick": {"judged:conditional": 10000, "judged:marginal": 3000, "error:overlap": 300, "error:size-mismatch": 300,
                               "error:ctor-mismatch": 100, "meta:cond-on-nothing": 300, "meta:marginal-compose": 300, "meta:two-step": 300,
                               "form:scalar-int": 300, "form:ndarray": 300, "form:range": 300, "form:range-descending-to-0": 100, "error:ctor-mismatch-scalar-forms": 300, "order:Y-not-increasing": 1000, "order:X-not-increasing": 1000},
                     "thorough": {"judged:conditional": 100000, "judged:marginal": 30000, "error:overlap": 3000, "error:size-mismatch": 3000,
                                  "error:ctor-mismatch": 1000, "meta:cond-on-nothing": 3000, "meta:marginal-compose": 3000, "meta:two-step": 3000,
                                  "form:scalar-int": 3000, "form:ndarray": 3000, "form:range": 3000, "form:range-descending-to-0": 1000, "error:ctor-mismatch-scalar-forms": 3000, "order:Y-not-increasing": 10000, "order:X-not-increasing": 10000}}
N = {"quick": 4000, "thorough": 500000}
EPS = 2.0 ** -52


def make_dist(rng, k):
    if k % 7 == 3:
        return make_structured(rng, k)
    p = int(rng.integers(1, 9))
    style = k % 4
    if style == 0:          # integer SPD, integer mean
        B = rng.integers(-3, 4, (p, p))
        cov = (B.T @ B + np.eye(p, dtype=int) * int(rng.integers(1, 4))).astype(int)
        mean = rng.integers(-5, 6, p)
    else:
        Q, _ = np.linalg.qr(rng.normal(size=(p, p)))
        logk = [0, 2, 5, 8][style] if style else 0
        logk = rng.uniform(0, {1: 2, 2: 5, 3: 8}[style])
        ev = 10 ** rng.uniform(-logk / 2, logk / 2, p) if p > 1 else np.array([10 ** rng.uniform(-2, 2)])
        cov = (Q * ev) @ Q.T
        cov = (cov + cov.T) / 2
        mean = np.round(rng.uniform(-10, 10, p), 3)
        if k % 5 == 0:
            # the same Gaussian expressed in other units (conditioning is scale-equivariant): tiny and huge scales,
            # where any absolute tolerance hidden in the implementation becomes an O(1) error
            sc = float(10.0 ** rng.integers(-12, 9))
            mean, cov = mean * sc, cov * (sc * sc)
        elif k % 5 == 2:
            # badly scaled variables (standard deviations over eight orders of magnitude): huge 2-norm condition number,
            # harmless for a correct solver (the relevant quantity is the condition number of the correlation matrix)
            sdv = 10.0 ** rng.uniform(-4, 4, p)
            mean, cov = mean * sdv, cov * np.outer(sdv, sdv)
        elif k % 5 == 1 and p >= 2:
            # very weak dependence between the first variable and the rest
            eps_ = float(10.0 ** rng.uniform(-11, -6))
            cov = cov.copy()
            cov[0, 1:] *= eps_
            cov[1:, 0] *= eps_
    return mean, cov


def make_structured(rng, k):
    """Covariance of a linear SEM with small integer / dyadic weights, computed exactly in integers: many entries are
    exactly zero (marginal independences) although the variables are conditionally dependent (colliders), and p is large
    enough (up to 24) for index arrays of a narrow dtype to matter."""
    p = int(rng.integers(3, 8)) if k % 2 else int(rng.integers(12, 25))
    order = [int(v) for v in rng.permutation(p)]
    W = np.zeros((p, p), dtype=np.int64)
    for a in range(p):
        for b in range(a + 1, p):
            if rng.random() < (0.5 if p < 9 else 2.0 / p):
                W[order[a], order[b]] = int(rng.choice([-2, -1, 1, 2]))
    # A = (I - W^T)^-1 by forward substitution in exact integers
    A = np.eye(p, dtype=object)
    for j in order:
        row = np.zeros(p, dtype=object)
        row[j] = 1
        for i in range(p):
            if W[i, j] != 0:
                row = row + int(W[i, j]) * A[i]
        A[j] = row
    v = np.array([int(x) for x in rng.integers(1, 4, p)], dtype=object)
    cov = (A * v) @ A.T
    cov = np.array(cov.tolist(), dtype=float)
    mean = np.array([float(x) for x in rng.integers(-3, 4, p)])
    return mean, cov


def all_queries(p):
    """Every ordered pair of disjoint index lists (Y non-empty)."""
    res = []
    for ny in range(1, p + 1):
        for Y in itertools.permutations(range(p), ny):
            rest = [v for v in range(p) if v not in Y]
            for nx in range(0, len(rest) + 1):
                for Xs in itertools.permutations(rest, nx):
                    res.append((list(Y), list(Xs)))
    return res


def gen(tier, seed, shard, nshards):
    for k in range(N[tier]):
        if k % nshards != shard:
            continue
        rng = util.rng_for("C05", seed, k)
        mean, cov = make_dist(rng, k)
        p = len(mean)
        if p <= 3:
            qs = all_queries(p)
            if len(qs) > 24:
                qs = [qs[int(i)] for i in rng.choice(len(qs), 24, replace=False)]
        else:
            qs = []
            for _ in range(8):
                perm = [int(v) for v in rng.permutation(p)]
                ny = int(rng.integers(1, min(p, 6) + 1))
                nx = int(rng.integers(0, min(p - ny, 6) + 1))
                qs.append((perm[:ny], perm[ny:ny + nx]))
        queries = []
        sd = np.sqrt(np.abs(np.diag(np.asarray(cov, dtype=float))))
        for (Y, Xs) in qs:
            far = 1e6 if rng.random() < 0.05 else 1.0        # now and then condition on a value very far out
            x = [float(np.asarray(mean, dtype=float)[j] + far * sd[j] * v) for j, v in zip(Xs, rng.normal(size=len(Xs)) * 2)]
            queries.append({"Y": Y, "X": Xs, "x": x, "form": int(rng.integers(0, 9))})
        # index collections given as range objects: ascending, descending down to 0, stepped (form 9)
        rqs = [list(range(p - 1, -1, -1)), list(range(0, p))]
        if p >= 2:
            a = int(rng.integers(1, p))
            rqs += [list(range(a, -1, -1)), list(range(0, p, 2)), list(range(p - 1, -1, -2)), list(range(a, p))]
        for Y in rqs[:4] if k % 2 else rqs[-4:]:
            rest = [v for v in range(p) if v not in Y]
            rx = [rest[:], rest[::-1], []][int(rng.integers(0, 3))]
            rx = rx if _is_progression(rx) else []
            x = [float(np.asarray(mean, dtype=float)[j] + sd[j] * v) for j, v in zip(rx, rng.normal(size=len(rx)) * 2)]
            queries.append({"Y": Y, "X": rx, "x": x, "form": 9})
        yield "dist", {"mean": mean, "cov": cov, "queries": queries, "k": k}


def _is_progression(idx):
    return len(idx) >= 1 and all(idx[i + 1] - idx[i] == idx[1] - idx[0] for i in range(len(idx) - 1)) and (len(idx) == 1 or idx[1] != idx[0])


def _form(idx, form):
    """The same index list in the different accepted container types."""
    if form == 0:
        return list(idx)
    if form == 1:
        return tuple(idx)
    if form == 2:
        return np.array(idx, dtype=int)
    if form == 3:
        return [np.int64(v) for v in idx]
    if form == 9 and _is_progression(list(idx)):
        step = idx[1] - idx[0] if len(idx) > 1 else 1
        return range(idx[0], idx[-1] + (1 if step > 0 else -1), step)
    if form in (5, 6, 7, 8):
        # index arrays of a narrow integer dtype (the indices themselves always fit)
        return np.array(idx, dtype=(np.int8, np.uint8, np.int16, np.int32)[form - 5])
    return idx[0] if len(idx) == 1 else list(idx)      # bare int when a single index


def _cmp(rec, family, case, what, got, want, tol, key, **ctx):
    """tol: scalar, or an array of entry-wise tolerances of the same shape as the result."""
    got = np.asarray(got, dtype=float)
    want = np.asarray(want, dtype=float)
    if got.shape != want.shape:
        rec.violation(key + "-shape", family, case, "%s has shape %r, expected %r" % (what, got.shape, want.shape), **ctx)
        return False
    if got.size == 0:
        return True
    if not np.isfinite(got).all():
        rec.violation(key, family, case, "%s contains non-finite values" % what, returned=got, expected=want, **ctx)
        return False
    excess = np.abs(got - want) - tol
    if (excess > 0).any():
        idx = np.unravel_index(int(np.argmax(excess)), got.shape)
        rec.violation(key, family, case, "%s entry %s off by %.3g (tolerance %.3g)"
                      % (what, tuple(int(i) for i in idx), float(np.abs(got - want)[idx]), float(np.broadcast_to(tol, got.shape)[idx])),
                      returned=got, expected=want, **ctx)
        return False
    return True


def judge(family, case, rec):
    import sempler
    mean, cov = case["mean"], case["cov"]
    p = len(mean)
    try:
        if case.get("k", 0) % 3 == 1:
            # the rarely used third constructor argument ('warn' only warns, also for a covariance that is not numerically PD)
            import warnings as _w
            with _w.catch_warnings():
                _w.simplefilter("ignore")
                dist = sempler.NormalDistribution(mean, cov, check_valid="warn") if case["k"] % 2 else sempler.NormalDistribution(mean, cov, "warn")
            rec.count("ctor:check_valid=warn")
        else:
            dist = sempler.NormalDistribution(mean, cov)
    except Exception as e:
        rec.exception_violation("C05:ctor-exception", family, case, "NormalDistribution(mean, covariance) raised", e)
        return
    Fm, Fc = X.fvec(mean), X.fmat(cov)
    cf = np.asarray(cov, dtype=float)
    mf = np.asarray(mean, dtype=float)
    mean0, cov0 = mean.copy(), cov.copy()
    rng = util.rng_for("C05j", case["k"])
    for qi, q in enumerate(case["queries"]):
        Y, Xs, x = q["Y"], q["X"], q["x"]
        sub = {"mean": mean, "cov": cov, "Y": Y, "X": Xs, "x": x, "form": q["form"]}
        nontrivial = Y != sorted(Y) or Xs != sorted(Xs) or len(Xs) >= 2
        rec.case(family, sub, bool(nontrivial))
        if Y != sorted(Y):
            rec.count("order:Y-not-increasing")
        if Xs != sorted(Xs):
            rec.count("order:X-not-increasing")
        if q["form"] == 4 and len(Y) == 1:
            rec.count("form:scalar-int")
        if q["form"] == 2:
            rec.count("form:ndarray")
        if 5 <= q["form"] <= 8:
            rec.count("form:narrow-int-index-array")
        if q["form"] == 9:
            rec.count("form:range")
            if len(Y) > 1 and Y[-1] == 0:
                rec.count("form:range-descending-to-0")
        if p >= 12:
            rec.count("many-variables(p>=12)")
        ctx = {"Y": Y, "X": Xs, "x": x}
        # ---- marginal: exact selection
        try:
            marg = dist.marginal(_form(Y, q["form"]))
            rec.count("judged:marginal")
            if not (np.array_equal(np.asarray(marg.mean), mf[Y] if mean.dtype.kind == "f" else mean[Y])
                    and np.array_equal(np.asarray(marg.covariance), cov[np.ix_(Y, Y)])):
                rec.violation("C05:marginal-wrong", family, sub, "marginal(%s) is not the selected mean / covariance block in the requested order" % (Y,),
                              returned_mean=np.asarray(marg.mean), returned_cov=np.asarray(marg.covariance), **ctx)
        except Exception as e:
            rec.exception_violation("C05:marginal-exception", family, sub, "marginal raised", e)
            marg = None
        # ---- conditional vs exact oracle
        if Xs:
            Cxx = cf[np.ix_(Xs, Xs)]
            kappa2 = float(np.linalg.cond(Cxx))
            dd = np.sqrt(np.abs(np.diag(Cxx)))
            # condition number of the *correlation* matrix of the conditioning block (invariant to the units of the variables)
            kappa_s = float(np.linalg.cond(Cxx / np.outer(dd, dd))) if (dd > 0).all() else float("inf")
        else:
            kappa2 = kappa_s = 1.0
        # two regimes.  (a) sound: the guaranteed normwise bound 1e3*eps*cond_2 is small -> judged against it.  (b) badly scaled
        # variables (cond_2 huge only because of the units, correlation matrix well conditioned): the guaranteed bound is
        # vacuous, but the routine is in fact accurate to ~eps*cond_s there (measured: <= 700 eps cond_s over 3e5 queries), so a
        # *gross* error - 1e-3 relative in standardised units, four orders of magnitude above anything measured - is a violation
        if np.isfinite(kappa2) and 1e3 * EPS * kappa2 <= 1e-4:
            regime, kappa, rel = "sound", kappa2, 1e3 * EPS * kappa2
        elif np.isfinite(kappa_s) and kappa_s <= 1e6:
            regime, kappa, rel = "gross", kappa_s, 1e-3
            rec.count("regime:badly-scaled-gross-error-only")
        else:
            rec.count("too_ill_conditioned")
            continue
        try:
            cond = dist.conditional(_form(Y, q["form"]), _form(Xs, q["form"]) if Xs else [], _form(x, 0) if q["form"] != 4 or len(x) != 1 else x[0])
        except Exception as e:
            rec.exception_violation("C05:conditional-exception", family, sub, "conditional raised %s" % type(e).__name__, e)
            continue
        rec.count("judged:conditional")
        wm, wc = X.conditional(Fm, Fc, Y, Xs, [X.F(v) for v in x])
        if qi % 8 == 0 and Xs:
            wm2, wc2 = X.conditional_via_precision(Fm, Fc, Y, Xs, [X.F(v) for v in x])
            if wm2 != wm or wc2 != wc:
                rec.count("oracle:self-disagreement")
                raise RuntimeError("exact oracle disagrees with itself")
            rec.count("oracle:cross-checked")
        wmf = np.array([float(v) for v in wm])
        wcf = np.array([[float(v) for v in r] for r in wc]).reshape(len(Y), len(Y))
        if Xs:
            Cyx = np.abs(cf[np.ix_(Y, Xs)])
            Cinv = np.abs(np.array([[float(v) for v in r] for r in X.inv(X.block(Fc, Xs, Xs))]))
            dx = np.abs(np.array(x) - mf[Xs])
            t_m = Cyx @ Cinv @ dx
            t_c = np.abs(cf[np.ix_(Y, Y)]) + Cyx @ Cinv @ Cyx.T
            if regime == "sound":
                scale_m = float(np.max(np.abs(mf[Y]) + t_m))           # normwise
                scale_c = float(np.max(t_c))
            else:
                # normwise in standardised units (each Y variable in units of its own standard deviation)
                sdy = np.sqrt(np.abs(np.diag(cf[np.ix_(Y, Y)])))
                safe = np.where(sdy > 0, sdy, 1.0)
                scale_m = np.abs(mf[Y]) + sdy * float(np.max(t_m / safe))
                scale_c = np.outer(sdy, sdy) * float(np.max(t_c / np.outer(safe, safe)))
        else:
            scale_m = np.abs(mf[Y])
            scale_c = np.abs(cf[np.ix_(Y, Y)])
        gm, gc = np.asarray(cond.mean, dtype=float), np.asarray(cond.covariance, dtype=float)
        if gm.shape == wmf.shape and gc.shape == wcf.shape and Xs:
            with np.errstate(all="ignore"):
                rm = np.abs(gm - wmf) / (EPS * kappa * scale_m)
                rc = np.abs(gc - wcf) / (EPS * kappa * scale_c)
            tag = "" if regime == "sound" else "[badly scaled, cond of the correlation matrix]"
            if np.isfinite(rm).any():
                rec.max("max-mean-error/(eps*cond*scale)" + tag, float(np.nanmax(np.where(np.isfinite(rm), rm, np.nan))))
            if np.isfinite(rc).any():
                rec.max("max-cov-error/(eps*cond*scale)" + tag, float(np.nanmax(np.where(np.isfinite(rc), rc, np.nan))))
        _cmp(rec, family, sub, "conditional mean", gm, wmf, rel * scale_m + 1e-300, "C05:conditional-mean-wrong", cond=kappa, **ctx)
        _cmp(rec, family, sub, "conditional covariance", gc, wcf, rel * scale_c + 1e-300, "C05:conditional-covariance-wrong", cond=kappa, **ctx)
        # ---- metamorphic: conditioning on nothing == marginal, bit for bit
        if qi % 3 == 0 and marg is not None:
            try:
                c0 = dist.conditional(_form(Y, q["form"]), [], [])
                rec.count("meta:cond-on-nothing")
                if not (np.array_equal(np.asarray(c0.mean), np.asarray(marg.mean)) and np.array_equal(np.asarray(c0.covariance), np.asarray(marg.covariance))):
                    rec.violation("C05:cond-on-nothing-differs-from-marginal", family, sub, "conditional(Y, [], []) != marginal(Y)", **ctx)
            except Exception as e:
                rec.exception_violation("C05:cond-on-nothing-exception", family, sub, "conditional(Y, [], []) raised", e)
        # ---- metamorphic: marginal is compositional, bit for bit
        if qi % 3 == 1 and marg is not None and len(Y) >= 1:
            B = [int(v) for v in rng.permutation(len(Y))[: int(rng.integers(1, len(Y) + 1))]]
            try:
                m2 = marg.marginal(B)
                m3 = dist.marginal([Y[b] for b in B])
                rec.count("meta:marginal-compose")
                if not (np.array_equal(np.asarray(m2.mean), np.asarray(m3.mean)) and np.array_equal(np.asarray(m2.covariance), np.asarray(m3.covariance))):
                    rec.violation("C05:marginal-not-compositional", family, sub, "marginal(A).marginal(B) != marginal(A[B])", B=B, **ctx)
            except Exception as e:
                rec.exception_violation("C05:marginal-compose-exception", family, sub, "marginal composition raised", e)
        # ---- metamorphic: two-step conditioning == joint conditioning
        if len(Xs) >= 2 and qi % 2 == 0:
            ktot = float(np.linalg.cond(cf[np.ix_(Y + Xs, Y + Xs)]))
            if ktot <= 1e4:
                h = len(Xs) // 2
                X1, X2 = Xs[:h], Xs[h:]
                try:
                    step1 = dist.conditional(Y + X2, X1, x[:h])
                    step2 = step1.conditional(list(range(len(Y))), list(range(len(Y), len(Y) + len(X2))), x[h:])
                    rec.count("meta:two-step")
                    tol2 = 1e3 * EPS * ktot * ktot
                    _cmp(rec, family, sub, "two-step conditional mean", step2.mean, wmf, tol2 * max(float(np.max(scale_m)), 1e-300), "C05:two-step-mean-differs", **ctx)
                    _cmp(rec, family, sub, "two-step conditional covariance", step2.covariance, wcf, tol2 * max(float(np.max(scale_c)), 1e-300), "C05:two-step-covariance-differs", **ctx)
                except Exception as e:
                    rec.exception_violation("C05:two-step-exception", family, sub, "two-step conditioning raised", e)
        # ---- exception contract
        if qi % 4 == 0:
            # overlapping X and Y
            if Xs:
                Yo = Y + [Xs[-1]]
                Xo, xo = Xs, x
            else:
                Yo = Y
                Xo, xo = [Y[0]], [0.5]
            try:
                dist.conditional(Yo, Xo, xo)
                rec.violation("C05:no-valueerror-on-overlap", family, sub, "conditional accepted overlapping Y=%s X=%s" % (Yo, Xo), **ctx)
            except ValueError:
                rec.count("error:overlap")
            except Exception as e:
                rec.exception_violation("C05:overlap-other-exception", family, sub, "overlapping X, Y raised a non-ValueError", e)
            # size mismatch between X and x
            for xbad in ((x + [1.0], x[:-1], x[:1]) if Xs else ()):
                if len(xbad) == len(Xs):
                    continue
                try:
                    dist.conditional(Y, Xs, xbad)
                    rec.violation("C05:no-valueerror-on-size-mismatch", family, sub,
                                  "conditional accepted len(X)=%d with len(x)=%d" % (len(Xs), len(xbad)), x_given=xbad, **ctx)
                except ValueError:
                    rec.count("error:size-mismatch")
                except Exception as e:
                    rec.exception_violation("C05:size-mismatch-other-exception", family, sub, "len(X) != len(x) raised a non-ValueError", e)
    # constructor size mismatch
    for bad_mean in (np.append(mf, 1.0), mf[:-1] if p > 1 else np.array([1.0, 2.0])):
        try:
            sempler.NormalDistribution(bad_mean, cov)
            rec.violation("C05:ctor-no-valueerror", family, case, "constructor accepted a mean of length %d with a %dx%d covariance" % (len(bad_mean), p, p))
        except ValueError:
            rec.count("error:ctor-mismatch")
        except Exception as e:
            rec.exception_violation("C05:ctor-mismatch-other-exception", family, case, "size mismatch raised a non-ValueError", e)
    # ... and the less usual shapes of the same mistake: a scalar / 0-d / 1x1 covariance next to a longer mean, a scalar mean next
    # to a p x p covariance (len(mean) != len(covariance) in every one of them)
    c00 = float(np.asarray(cov, dtype=float)[0, 0])
    bads = [([0.0, 1.0], c00), (np.zeros(3), np.float64(c00)), ([0.0, 1.0], np.array(c00)), ((0.0, 1.0), [[c00]]), (np.zeros(p + 1), [[c00]] if p == 1 else cov.tolist())]
    if p >= 2:
        bads += [(float(mf[0]), cov), (np.float64(mf[0]), cov.tolist()), ([float(mf[0])], cov)]
    for bm, bc in bads:
        try:
            sempler.NormalDistribution(bm, bc)
            rec.violation("C05:ctor-no-valueerror", family, case, "constructor accepted mean %r with covariance of shape %s"
                          % (bm, np.shape(bc)), bad_mean=np.atleast_1d(bm), bad_cov=np.atleast_2d(bc))
        except ValueError:
            rec.count("error:ctor-mismatch-scalar-forms")
        except Exception as e:
            rec.exception_violation("C05:ctor-mismatch-other-exception", family, case, "size mismatch raised a non-ValueError", e)
    if not (np.array_equal(mean, mean0) and np.array_equal(cov, cov0)):
        rec.violation("C05:inputs-mutated", family, case, "the caller's mean / covariance were modified")
