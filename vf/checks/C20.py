"""C20 - noise factories draw n values from the documented law.

Monitor: sample monitor on the callables returned by sempler.noise.{normal,
uniform, laplace, zero} and on sempler.functions.null.  Oracle: closed-form CDFs
with the DKW band (delta = 1e-12), moment z-scores with the escalation rule,
support, shape, reproducibility after seeding numpy's global generator.
"""
import math

import numpy as np

from ..core import util
from ..oracles import stats as S

TECHNIQUE = "runtime sample monitor on the noise-factory callables: DKW band against the closed-form CDF (variance, not sd), moment z-scores with escalation, pooled standardised moment errors over hundreds of parameter settings, support/shape/reproducibility checks over a parameter grid x seeds"
LEVEL_TEXT = ("Each factory is called over a grid of parameters (means of both signs, variances 0.01..100, ranges of both signs, scales "
              "0.1..5, defaults) and several seeds; the returned arrays are monitored for shape (n,) at n in {0,1,7,N}, support, "
              "empirical CDF within the DKW band of the documented law at N = 1e5 (quick) / 1e6 (thorough), first two moments, lag-1 "
              "independence, bit-reproducibility after np.random.seed, and non-degeneracy of unseeded calls.  A normal with the "
              "variance used as standard deviation deviates by 0.16-0.21 in sup-norm for var in {0.16, 4}, the band is 0.012.")
LEVEL_NOTE = "Statistical: per-test false-alarm bound 1e-12 (DKW) and a three-fold escalation for z-scores; deviations below the band are invisible."
RULE = ("cases: (factory, parameters, seed).  distinct = distinct triple; non-trivial = non-default parameters (var != 1, "
        "mean != 0, (lo,hi) != (0,1), scale != 1) for the random factories"
        ' Also: falsy and integer parameters, narrow numpy scalars as parameters, intervals of minute width, deep copies of the callables, the three factories called with equal parameters one after another, zero() after ANM histories with shift interventions, lag-2/5 and half-sample statistics.')
ASSUMPTIONS = ["DKW inequality for i.i.d. samples of a continuous law; z-score escalation as in DESIGN.md section 2 rule 3"]
EXHAUSTIVE = {"quick": False, "thorough": False}
SOFT_LIMIT = {"quick": 1200, "thorough": 5400}      # generous wall-clock watchdogs (a loaded machine must not cut a workload short); normal run times are in the evidence
REQUIRED_FUNCS = ["sempler/noise.py:normal", "sempler/noise.py:uniform", "sempler/noise.py:laplace", "sempler/noise.py:zero",
                  "sempler/functions.py:null"]
REQUIRED_COUNTERS = {t: {"dkw:normal": 30, "dkw:uniform": 10, "dkw:laplace": 20, "zero:checked": 2, "null:checked": 2, "repro:seeded-equal": 50,
                         "repro:unseeded-differ": 50, "same-parameters:uniform": 5, "anm-history:samples": 10, "pooled:variance-judged": 20, "pooled:replicates": 8000} for t in ("quick", "thorough")}
NBIG = {"quick": 100000, "thorough": 1000000}
SEEDS = {"quick": (0, 1, 12345), "thorough": (0, 1, 2, 3, 5, 7, 42, 99, 12345, 65537, 2**31, 2**32 - 1)}

GRID = []
for mean in (-3.0, 0.0, 2.5):
    for var in (0.01, 0.16, 1.0, 4.0, 100.0):
        GRID.append(("normal", (mean, var)))
GRID.append(("normal", ()))
GRID.append(("normal", (0, 4)))        # python ints / zeros as parameters
GRID.append(("normal", (-2, 9)))
for lohi in ((0.0, 1.0), (-2.0, -0.5), (-1.0, 3.0), (5.0, 5.5), (-1e-3, 1e-3), (-3.0, 0.0), (-3, 0), (0, 2), (0.0, 0.25), (-0.5, 0)):
    GRID.append(("uniform", lohi))
GRID.append(("uniform", ()))
for lohi in ((0.0, 1.6e-19), (-1e-18, 1e-18), (1e-300, 3e-300), (2e-27, 5e-27), (1.0, 1.0 + 1e-12), (-1e9, 3e9)):
    GRID.append(("uniform", lohi))
NARROW = [("uniform", ("int8", -100, 100)), ("uniform", ("int16", -20000, 30000)), ("uniform", ("float16", -40000.0, 50000.0)),
          ("uniform", ("uint8", 10, 250)), ("uniform", ("float32", -2.5, 7.25)), ("normal", ("int8", -100, 100)), ("normal", ("float32", 2.5, 0.25)),
          ("laplace", ("int16", -300, 20)), ("laplace", ("float16", 0.5, 2.0)), ("uniform", ("mixed", -5, 200))]
for mean in (-1.0, 0.0, 4.0):
    for scale in (0.1, 1.0, 5.0):
        GRID.append(("laplace", (mean, scale)))
# minute and huge scales: the law is a location-scale family, nothing special happens at any magnitude above 0
for mv in ((0.0, 1e-13), (1e-9, 1e-20), (0.0, 1e-300), (-1e-160, 1e-318), (0.0, 1e30), (1e12, 1e24)):
    GRID.append(("normal", mv))
for ms in ((0.0, 1e-13), (0.0, 1e-160), (-1e-30, 1e-30), (0.0, 1e150)):
    GRID.append(("laplace", ms))
GRID.append(("laplace", ()))
GRID.append(("laplace", (0, 2)))
GRID.append(("laplace", (0.0, 0.5)))
GRID.append(("zero", ()))
GRID.append(("null", ()))


def _narrow_params(spec):
    dt, a, b = spec
    if dt == "mixed":
        return (a, np.uint8(b)), (float(a), float(b))
    t = getattr(np, dt)
    return (t(a), t(b)), (float(t(a)), float(t(b)))


def gen(tier, seed, shard, nshards):
    for k, (kind, spec) in enumerate(NARROW):
        if k % nshards == shard:
            for s in SEEDS[tier][:3]:
                yield "narrow-scalars", {"kind": kind, "spec": list(spec), "np_seed": int((s + seed * 7919) % (2**32))}
    # the factories called one after the other with EQUAL parameters in one process, and the factories used inside an ANM
    if shard == 0:
        for params in ((1.0, 4.0), (), (0.0, 2.0), (-1.0, 0.5)):
            for order in (("normal", "uniform", "laplace"), ("laplace", "uniform", "normal"), ("uniform", "laplace", "normal")):
                yield "same-parameters", {"params": list(params), "order": list(order), "np_seed": int(seed) % 1000 + 11}
    if shard == 1 % nshards:
        for s in range(6):
            yield "anm-history", {"np_seed": s + int(seed) % 1000}
    # pooled moments: many independent (parameters, sample) replicates judged together - systematic errors of a fraction of a percent
    for i in range(24 if tier == "quick" else 96):
        if i % nshards == shard:
            yield "pooled", {"kind": ("normal", "uniform", "laplace")[i % 3], "i": i, "K": 400 if tier == "quick" else 1600,
                             "n": 20000 if tier == "quick" else 50000, "base": int(seed)}
    k = 0
    for (kind, params) in GRID:
        for s in SEEDS[tier]:
            if k % nshards == shard:
                yield "factory", {"kind": kind, "params": list(params), "np_seed": int((s + seed * 7919) % (2**32))}
            k += 1


def _law(kind, params):
    """(cdf, mean, variance, excess kurtosis, support) of the documented law."""
    if kind == "normal":
        mean, var = params if params else (0.0, 1.0)
        return (lambda x: S.norm_cdf(x, mean, math.sqrt(var))), mean, var, 0.0, (-math.inf, math.inf)
    if kind == "uniform":
        lo, hi = params if params else (0.0, 1.0)
        return (lambda x: S.uniform_cdf(x, lo, hi)), (lo + hi) / 2, (hi - lo) ** 2 / 12, -1.2, (lo, hi)
    mean, scale = params if params else (0.0, 1.0)
    return (lambda x: S.laplace_cdf(x, mean, scale)), mean, 2 * scale * scale, 3.0, (-math.inf, math.inf)


def _pooled(noise, kind, seed_parts, K, n):
    tot = {"mean": 0.0, "variance": 0.0, "third-moment": 0.0}
    for r in range(K):
        rng = util.rng_for(*seed_parts, r)
        a = float(np.round(rng.uniform(-5, 5), 3))
        b = float(np.round(10 ** rng.uniform(-1, 1), 3))
        params = (a, a + b) if kind == "uniform" else (a, b)
        _, mu, var, kurt, _ = _law(kind, params)
        np.random.seed(int(rng.integers(0, 2**32)))
        d = (np.asarray(getattr(noise, kind)(*params)(n), dtype=float) - mu) / math.sqrt(var)
        tot["mean"] += float(d.mean()) * math.sqrt(n)
        tot["variance"] += float(np.mean(d * d) - 1.0) / math.sqrt((2.0 + kurt) / n)
        # E z^3 = 0 for the three (symmetric) laws; Var z^3 = E z^6 = 15 (normal), 27/7 (uniform), 90 (laplace)
        tot["third-moment"] += float(np.mean(d ** 3)) / math.sqrt({"normal": 15.0, "uniform": 27.0 / 7.0, "laplace": 90.0}[kind] / n)
    return {k_: v / math.sqrt(K) for k_, v in tot.items()}


def _judge_pooled(noise, case, rec, family):
    kind, K, n = case["kind"], case["K"], case["n"]
    rec.case(family, case, True, key=("pooled", kind, case["i"], case["base"]))
    state = np.random.get_state()
    try:
        Z = _pooled(noise, kind, ("C20pool", case["base"], kind, case["i"]), K, n)
        for stat, z in Z.items():
            rec.count("pooled:%s-judged" % stat)
            rec.max("max|Z|-pooled-" + stat, abs(z))
            if abs(z) > S.Z_SUSPECT:
                rec.count("escalations")
                zs = []
                for rep in range(3):
                    zs.append(_pooled(noise, kind, ("C20pool-esc", case["base"], kind, case["i"], rep), 3 * K, n)[stat])
                    if not (abs(zs[-1]) > S.Z_CONFIRM and zs[-1] * z > 0):
                        break
                else:
                    rec.violation("C20:%s-pooled-%s-off" % (kind, stat), family, case,
                                  "standardised %s errors of %d independent noise.%s samples of %d draws, pooled: Z = %.1f, confirmed on three fresh sets "
                                  "of %d samples: %s" % (stat, K, kind, n, z, 3 * K, ["%.1f" % v for v in zs]))
        rec.count("pooled:replicates", K)
    except Exception as e:
        rec.exception_violation("C20:pooled-exception", family, case, "noise factory raised in the pooled family", e)
    finally:
        np.random.set_state(state)


def judge(family, case, rec):
    import sempler.noise as noise
    import sempler.functions as functions
    if family == "pooled":
        _judge_pooled(noise, case, rec, family)
        return
    if family == "narrow-scalars":
        # parameters given as narrow numpy scalars mean the same numbers as python floats
        kind = case["kind"]
        (pa_, pb_), (fa, fb) = _narrow_params(tuple(case["spec"]))
        rec.case(family, case, True)
        nsmall = 50000
        try:
            f = getattr(noise, kind)(pa_, pb_)
            np.random.seed(case["np_seed"])
            x = np.asarray(f(nsmall), dtype=float)
        except Exception as e:
            rec.exception_violation("C20:%s-narrow-scalar-exception" % kind, family, case, "noise.%s(%r, %r) raised %s" % (kind, pa_, pb_, type(e).__name__), e)
            return
        cdf, mu, var, kurt, (lo, hi) = _law(kind, (fa, fb))
        rec.count("narrow-scalars:" + kind)
        if x.shape != (nsmall,) or not np.isfinite(x).all():
            rec.violation("C20:%s-narrow-scalar-nonfinite" % kind, family, case, "noise.%s(%r, %r) returns non-finite draws / wrong shape" % (kind, pa_, pb_))
            return
        ks, eps = S.ks_distance(x, cdf), S.dkw_eps(nsmall)
        if ks > eps or (kind == "uniform" and ((x < lo).any() or (x >= hi).any())):
            rec.violation("C20:%s-law-with-narrow-scalar-parameters" % kind, family, case,
                          "noise.%s(%r, %r): empirical CDF deviates by %.3f (band %.3f); min %.4g max %.4g mean %.4g" % (kind, pa_, pb_, ks, eps, x.min(), x.max(), x.mean()))
        return
    if family == "same-parameters":
        params = tuple(case["params"])
        rec.case(family, case, True)
        nsmall = 50000
        for kind in case["order"]:
            f = getattr(noise, kind)(*params)
            np.random.seed(case["np_seed"])
            x = f(nsmall)
            pp = params
            if kind == "uniform" and params and params[0] >= params[1]:
                continue
            cdf, mu, var, kurt, (lo, hi) = _law(kind, pp)
            ks, eps = S.ks_distance(x, cdf), S.dkw_eps(nsmall)
            rec.count("same-parameters:" + kind)
            if ks > eps:
                rec.violation("C20:%s-law-after-other-factory-with-equal-parameters" % kind, family, case,
                              "noise.%s%r called after %s with the same parameters: empirical CDF deviates by %.3f (band %.3f), mean %.3f var %.3f"
                              % (kind, params, [k_ for k_ in case["order"] if k_ != kind], ks, eps, float(x.mean()), float(x.var())))
        return
    if family == "anm-history":
        import sempler
        rec.case(family, case, True)
        A = np.array([[0, 2.0, 0], [0, 0, 1.0], [0, 0, 0]])
        z = noise.zero()
        anm = sempler.ANM(A, [None, lambda x: 2 * x[:, 0], lambda x: x[:, 0] - 1.0], [noise.normal(1, 4), z, noise.zero()])
        rs = case["np_seed"]
        for kw in ({}, {"shift_interventions": {1: noise.uniform(2, 3)}}, {"noise_interventions": {2: noise.laplace(0, 1)}},
                   {"do_interventions": {0: noise.uniform(0, 1)}, "shift_interventions": {2: noise.normal(5, 1)}}, {}):
            Xs = anm.sample(200, random_state=rs, **kw)
            rec.count("anm-history:samples")
            for fz in (z, noise.zero()):
                y = fz(64)
                if y.shape != (64,) or not (y == 0).all():
                    rec.violation("C20:zero-not-zero-after-anm-history", family, case,
                                  "noise.zero()(n) returns non-zero values after ANM sampling with %s" % sorted(kw))
                    return
            if not kw and not np.allclose(Xs[:, 1], 2 * Xs[:, 0], rtol=1e-12, atol=1e-12):
                rec.violation("C20:noiseless-variable-not-noiseless", family, case,
                              "a variable whose noise is noise.zero() is no longer an exact function of its parent in an observational sample")
                return
        return
    kind, params, s = case["kind"], tuple(case["params"]), case["np_seed"]
    N = NBIG[rec.tier]
    if kind == "null":
        rec.case(family, case, True, key=("null", s))
        rec.count("null:checked")
        for args in ((), (np.ones((5, 2)),), (1, 2, 3), (np.zeros((0, 3)),)):
            try:
                r = functions.null(*args)
            except Exception as e:
                rec.exception_violation("C20:null-exception", family, case, "functions.null raised", e)
                continue
            if not (np.isscalar(r) and r == 0) and not (isinstance(r, np.ndarray) and (r == 0).all()):
                rec.violation("C20:null-not-zero", family, case, "functions.null returned %r" % (r,))
        return
    factory = getattr(noise, kind)
    default = {"normal": (0.0, 1.0), "uniform": (0.0, 1.0), "laplace": (0.0, 1.0)}.get(kind)
    rec.case(family, case, bool(kind == "zero" or (params and tuple(params) != default)), key=(kind, params, s))
    try:
        f = factory(*params)
    except Exception as e:
        rec.exception_violation("C20:factory-exception", family, case, "noise.%s%r raised" % (kind, params), e)
        return
    # shape
    for n in (0, 1, 7, np.int64(4), np.int32(3), np.uint8(6), np.intp(0)):       # n as the numpy integers that len()/shape arithmetic yields
        try:
            x = f(n)
        except Exception as e:
            rec.exception_violation("C20:%s-call-exception" % kind, family, case, "callable raised for n=%r" % (n,), e)
            return
        rec.count("n-form:" + type(n).__name__)
        if not isinstance(x, np.ndarray) or x.shape != (int(n),):
            rec.violation("C20:%s-shape" % kind, family, case, "n=%d gives %r of shape %r" % (n, type(x).__name__, getattr(x, "shape", None)))
            return
    if kind == "zero":
        rec.count("zero:checked")
        x = f(1000)
        if x.shape != (1000,) or not (x == 0).all():
            rec.violation("C20:zero-not-zero", family, case, "noise.zero()(n) is not identically 0")
        # the caller adds something to the array he was given (eps += ...): later draws - of this callable and of a fresh one - stay 0
        for n in (1000, 7, 1):
            y = f(n)
            try:
                y += 3.5
            except Exception:
                pass
            for g in (f, noise.zero()):
                z = g(n)
                rec.count("history:returned-array-overwritten")
                if z.shape != (n,) or not (z == 0).all():
                    rec.violation("C20:zero-not-zero-after-caller-overwrote-result", family, case,
                                  "noise.zero()(%d) is not identically 0 after the caller modified an earlier result in place" % n)
                    return
        return
    cdf, mu, var, kurt, (lo, hi) = _law(kind, params)
    # many small calls: the draws of one call must be independent of one another and have the full variance whatever n is
    if var > 0:
        for nsmall in (1, 2, 5):
            calls = 6000
            np.random.seed((s + nsmall) % (2**32))
            blocks = np.array([f(nsmall) for _ in range(calls)], dtype=float)
            if blocks.shape != (calls, nsmall):
                rec.violation("C20:%s-shape" % kind, family, case, "n=%d gives arrays of shape %r" % (nsmall, blocks.shape[1:]))
                return
            flat = blocks.ravel()
            ksn, epsn = S.ks_distance(flat, cdf), S.dkw_eps(len(flat))
            rec.count("small-n-aggregates")
            if ksn > epsn:
                rec.violation("C20:%s-law-for-small-n" % kind, family, case,
                              "%d calls with n=%d: the pooled draws deviate by %.3f from the documented law (band %.3f); pooled variance %.4g, documented %.4g"
                              % (calls, nsmall, ksn, epsn, float(flat.var()), var))
                return
            if nsmall > 1:
                # variance of the per-call means must be var/n (independent draws within a call)
                zc = S.z_var(blocks.mean(axis=1), mu, var / nsmall, kurt / nsmall)
                rec.max("max|z|-per-call-mean-variance", abs(zc))
                if abs(zc) > S.Z_SUSPECT:
                    def rerun_c(r, n_, nsmall=nsmall):
                        np.random.seed(util.derive_seed("C20call", kind, params, s, r, nsmall) % (2**32))
                        b = np.array([f(nsmall) for _ in range(min(n_ // 4, 60000))], dtype=float)
                        return S.z_var(b.mean(axis=1), mu, var / nsmall, kurt / nsmall)
                    bad, zs = S.confirm(rerun_c, calls)
                    if bad:
                        rec.violation("C20:%s-draws-within-a-call-dependent" % kind, family, case,
                                      "n=%d: the variance of the per-call means is not var/n (z = %s): the draws of one call are not independent" % (nsmall, ["%.1f" % v for v in zs]))
                        return
    np.random.seed(s)
    x = f(N)
    if x.shape != (N,) or not np.isfinite(x).all():
        rec.violation("C20:%s-shape" % kind, family, case, "n=%d gives shape %r / non-finite values" % (N, x.shape))
        return
    # a copy of the callable (ANM deep-copies the noise distributions it is given) is the same distribution drawing from
    # the same global generator
    import copy
    g = copy.deepcopy(f)
    m_ = min(N, 1000)
    np.random.seed(s)
    xf = f(m_)          # same n for both: nothing says that a shorter draw is a prefix of a longer one
    np.random.seed(s)
    xg = g(m_)
    if xg.shape != (m_,) or not np.array_equal(xg, xf):
        rec.violation("C20:%s-deepcopy-draws-differently" % kind, family, case,
                      "a deep copy of the callable does not reproduce the draws of the original after np.random.seed(s)")
    else:
        rec.count("repro:deepcopy-equal")
    np.random.seed(s)
    x7 = f(7)
    np.random.seed(s)
    g(5)
    np.random.seed(s)
    if not np.array_equal(g(7), x7):
        rec.violation("C20:%s-deepcopy-not-reseedable" % kind, family, case, "a deep copy of the callable ignores np.random.seed on later calls")
    # reproducibility after seeding the global generator
    np.random.seed(s)
    x2 = f(N)
    if np.array_equal(x, x2):
        rec.count("repro:seeded-equal")
    else:
        rec.violation("C20:%s-not-reproducible-after-seeding" % kind, family, case, "np.random.seed(s); f(n) twice gives different draws")
    # the caller overwrites the arrays he was given; the same seeded call must still return the same draws
    xc = np.array(x, copy=True)
    try:
        x2[...] = -1.0
        x[...] = -2.0
    except Exception:
        pass
    np.random.seed(s)
    x3 = f(N)
    rec.count("history:returned-array-overwritten")
    if not np.array_equal(x3, xc):
        rec.violation("C20:%s-depends-on-overwritten-earlier-result" % kind, family, case,
                      "np.random.seed(s); f(n) differs after the caller overwrote the arrays returned by earlier calls")
    x = xc
    a, b = f(50), f(50)
    if np.array_equal(a, b):
        rec.violation("C20:%s-unseeded-calls-identical" % kind, family, case, "two consecutive unseeded calls returned identical draws")
    else:
        rec.count("repro:unseeded-differ")
    # support
    # [lo, hi): draws equal to hi are tolerated only where the interval is so narrow relative to its magnitude that
    # lo + (hi-lo)*u cannot avoid rounding onto hi (numpy documents this; fewer than 2^20 doubles in the interval)
    coarse = (hi - lo) < 2.0 ** 20 * math.ulp(max(abs(lo), abs(hi)))
    if kind == "uniform" and ((x < lo).any() or (x > hi).any() or (not coarse and (x >= hi).any())):
        rec.violation("C20:uniform-support", family, case, "draws outside [%r, %r): min %r max %r" % (lo, hi, float(x.min()), float(x.max())))
    # i.i.d. draws of a continuous law do not repeat values (a handful of coincidences among 53-bit doubles is
    # possible at n = 1e6: expected ~1e-4; ten or more is not)
    dups = N - len(np.unique(x))
    expected = S.expected_coincidences(N, max(abs(mu) + 4 * math.sqrt(var), abs(lo) if math.isfinite(lo) else 0, abs(hi) if math.isfinite(hi) else 0), math.sqrt(var))
    rec.max("max-duplicated-values-above-expectation", dups - 10 * expected)
    if dups >= 10 + 10 * expected:
        rec.violation("C20:%s-repeated-draws" % kind, family, case, "%d of %d draws repeat an earlier value: not i.i.d." % (dups, N))
    # distribution: DKW band
    ks = S.ks_distance(x, cdf)
    eps = S.dkw_eps(N)
    rec.count("dkw:" + kind)
    rec.max("max-ks/dkw-band:" + kind, ks / eps)
    if ks > eps:
        rec.violation("C20:%s-law" % kind, family, case,
                      "empirical CDF deviates by %.4f from the documented law (DKW band %.4f at n=%d, delta=1e-12)" % (ks, eps, N),
                      sample_mean=float(x.mean()), sample_var=float(x.var()), expected_mean=mu, expected_var=var)
    # moments with escalation
    for stat_name, stat_fn in (("lag2", lambda y: S.z_lag(y, 2)), ("lag5", lambda y: S.z_lag(y, 5)), ("halves", lambda y: S.z_halves(y, var))):
        zz = stat_fn(x)
        rec.max("max|z|-" + stat_name, abs(zz))
        if abs(zz) > S.Z_SUSPECT:
            rec.count("escalations")

            def rerun_s(r, n, stat_fn=stat_fn):
                np.random.seed(util.derive_seed("C20esc2", kind, params, s, r) % (2**32))
                return stat_fn(f(n))
            bad, zs = S.confirm(rerun_s, N)
            if bad:
                rec.violation("C20:%s-%s" % (kind, stat_name), family, case, "%s statistic z = %s on three fresh seeds: draws are not i.i.d." % (stat_name, ["%.1f" % v for v in zs]))
    zm, zv, zl = S.z_mean(x, mu, var), S.z_var(x, mu, var, kurt), S.z_lag1(x)
    rec.max("max|z|-mean", abs(zm))
    rec.max("max|z|-variance", abs(zv))
    rec.max("max|z|-lag1", abs(zl))
    for name, z, stat in (("mean", zm, lambda y: S.z_mean(y, mu, var)), ("variance", zv, lambda y: S.z_var(y, mu, var, kurt)),
                          ("lag1", zl, S.z_lag1)):
        if abs(z) > S.Z_SUSPECT:
            rec.count("escalations")

            def rerun(r, n, stat=stat):
                np.random.seed(util.derive_seed("C20esc", kind, params, s, r) % (2**32))
                return stat(f(n))
            bad, zs = S.confirm(rerun, N)
            if bad:
                rec.violation("C20:%s-%s" % (kind, name), family, case,
                              "%s z-score %.1f, confirmed on three fresh seeds at 4x the size: %s" % (name, z, ["%.1f" % v for v in zs]),
                              expected_mean=mu, expected_var=var)
