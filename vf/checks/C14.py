"""C14 - models are immutable under use and caller data is never modified.

Monitors: (1) argument-fingerprint + aliasing monitor wrapped round every public
callable of sempler.utils / sempler.generators and the model classes' constructors
and methods (vf/monitors/argmon.py); (2) icontract class invariants on LGANM, ANM,
NormalDistribution (vf/monitors/invariants.py); (3) history-independence and
copy-on-construct oracles comparing the used model with a freshly constructed
twin, bit for bit; (4) write-through tests on returned arrays.
"""
import copy

import numpy as np

from ..core import util
from ..oracles import graphs as G
from ..workloads import gmat

FAKE_RPY2 = True
TECHNIQUE = "runtime argument-fingerprint + aliasing monitor on every public callable, icontract class invariants on the model classes, twin-model comparison after random call histories, copy-on-construct and write-through tests"
LEVEL_TEXT = ("Random histories (5-40 calls) of sample / marginal / conditional / regress / mse with arbitrary interventions are run on "
              "random LGANM, ANM and NormalDistribution models: bit-exact fingerprints of every argument and of the model are compared "
              "around every call, the icontract invariant compares the model with its state after construction at every public method "
              "boundary, returned arrays must not share memory with model or caller arrays and are overwritten to show nothing writes "
              "through, and at the end the model must be indistinguishable (population law, seeded sample, attributes) from a freshly "
              "built twin.  Every public graph / generator utility is called on caller-owned matrices, sets, lists and dicts under the "
              "same monitors; constructors are tested for copy-on-construct by mutating the caller's objects afterwards (arrays, lists and, for "
              "NormalDistribution, 0-d / 1-d / 1x1 arrays of lower dimension than the stored form, with a shares-memory assertion).")
LEVEL_NOTE = "Callables stored in an ANM are shared by reference (they are not arrays, sets or dicts); the documented output buffer of cartesian is exempt."
RULE = ("cases: (model kind, model parameters, call history) and (utility workload on a graph).  distinct = distinct canonical case; "
        "non-trivial = a history with at least one intervention or conditioning call, or a utility workload on a graph with >= 2 edges"
        " Also: arguments omitted so that the functions' own default objects are used (they are fingerprinted too), numpy-style negative index arrays, bool adjacency matrices, LGANMs with 65-75 variables, queries put to the used object and a twin in several orders.")
ASSUMPTIONS = ["library-internal nested calls are not judged separately: their effect on caller data is visible at the outer call boundary"]
EXHAUSTIVE = {"quick": False, "thorough": False}
SOFT_LIMIT = {"quick": 1200, "thorough": 5400}      # generous wall-clock watchdogs (a loaded machine must not cut a workload short); normal run times are in the evidence
REQUIRED_FUNCS = ["sempler/lganm.py:LGANM.sample", "sempler/anm.py:ANM.sample", "sempler/normal_distribution.py:NormalDistribution.conditional",
                  "sempler/normal_distribution.py:NormalDistribution.marginal", "sempler/normal_distribution.py:NormalDistribution.regress",
                  "sempler/normal_distribution.py:NormalDistribution.mse", "sempler/utils.py:maximally_orient", "sempler/utils.py:split_data",
                  "sempler/utils.py:imec", "sempler/semi.py:DRFNet.sample"]
REQUIRED_COUNTERS = {"quick": {"argmon:calls": 30000, "argmon:alias-checked": 10000, "invariant:evaluations": 20000, "twin:lganm": 150, "twin:anm": 100,
                               "twin:nd": 100, "copy-on-construct:LGANM": 100, "copy-on-construct:ANM": 100, "copy-on-construct:NormalDistribution": 100,
                               "copy-on-construct:DRFNet": 10, "write-through-tests": 2000, "utils-functions-covered": 1},
                     "thorough": {"argmon:calls": 300000, "argmon:alias-checked": 100000, "invariant:evaluations": 200000, "twin:lganm": 1500, "twin:anm": 1000,
                                  "twin:nd": 1000, "copy-on-construct:LGANM": 1000, "copy-on-construct:ANM": 1000, "copy-on-construct:NormalDistribution": 1000,
                                  "copy-on-construct:DRFNet": 100, "write-through-tests": 20000, "utils-functions-covered": 1}}
N = {"quick": {"models": 600, "utils": 500, "drf": 24}, "thorough": {"models": 40000, "utils": 30000, "drf": 1000}}


def gen(tier, seed, shard, nshards):
    if tier == "thorough":
        for m, module in enumerate(['test_utils.py', 'test_lganm.py', 'test_normal_distribution.py', 'test_anm.py', 'test_generators.py', 'test_api.py']):
            if m % nshards == shard:
                yield "repo-tests", {"module": module}
    cfg = N[tier]
    for k in range(cfg["models"]):
        if k % nshards == shard:
            yield "model-history", {"kind": ("lganm", "anm", "nd")[k % 3], "k": k, "seed": seed}
    for k in range(cfg["utils"]):
        if k % nshards == shard:
            yield "utils", {"k": k, "seed": seed}
    for k in range(cfg["drf"]):
        if k % nshards == shard:
            yield "drfnet", {"k": k, "seed": seed}


def setup(rec):
    import sempler
    import sempler.utils as U
    import sempler.generators as gens
    import sempler.semi as semi
    from ..monitors import argmon, invariants
    invariants.install([sempler.LGANM, sempler.ANM, sempler.NormalDistribution], rec)
    names = argmon.install_module(U, rec, "utils.", skip=("eg1", "eg2", "eg3", "eg4", "eg5", "eg6"))
    names += argmon.install_module(gens, rec, "generators.")
    argmon.install_class(sempler.LGANM, rec, "LGANM.", ["__init__", "sample"])
    argmon.install_class(sempler.ANM, rec, "ANM.", ["__init__", "sample"])
    argmon.install_class(sempler.NormalDistribution, rec, "NormalDistribution.",
                         ["__init__", "sample", "marginal", "conditional", "regress", "mse", "equal"])
    argmon.install_class(semi.DRFNet, rec, "DRFNet.", ["__init__", "sample"])
    rec.add("monitored-callables", "%d module functions + model class methods" % len(names))
    rec.utils_names = set(n for n in vars(U) if ("utils." + n) and callable(getattr(U, n)) and hasattr(getattr(U, n), "__vf_original__"))


# ---------------------------------------------------------------------------

def _scribble(rec, arr):
    """Overwrite a returned array: nothing the library keeps may change with it."""
    if isinstance(arr, np.ndarray) and arr.size and arr.flags.writeable and arr.dtype.kind in "fiu":
        rec.count("write-through-tests")
        arr[...] = 99 if arr.dtype.kind != "f" else -12345.678


def _iv(rng, p):
    d = {}
    for j in (int(v) for v in rng.permutation(p)):
        if rng.random() < (0.35 if p < 20 else 2.0 / p):
            d[j] = (float(np.round(rng.uniform(-2, 2), 2)), float(np.round(rng.uniform(0, 2), 2))) if rng.random() < 0.7 else float(np.round(rng.uniform(-2, 2), 2))
    return d


def _same_dist(a, b):
    return np.array_equal(np.asarray(a.mean), np.asarray(b.mean)) and np.array_equal(np.asarray(a.covariance), np.asarray(b.covariance))


def _history_on_dist(rec, rng, dist, steps, family, case):
    """Random marginal / conditional / regress / mse / sample calls on a NormalDistribution."""
    p = dist.p
    for _ in range(steps):
        c = int(rng.integers(0, 6))
        try:
            if c == 0:
                idx = [int(v) for v in rng.permutation(p)[: int(rng.integers(1, p + 1))]]
                if rng.random() < 0.2:
                    idx = np.array([v - p if k_ % 2 else v for k_, v in enumerate(idx)])      # numpy-style negative indices, caller's array
                r = dist.marginal(idx if not isinstance(idx, list) or rng.random() < 0.7 else np.array(idx))
                _scribble(rec, r.mean)
                _scribble(rec, r.covariance)
            elif c == 1 and p >= 2:
                perm = [int(v) for v in rng.permutation(p)]
                ny = int(rng.integers(1, p))
                nx = int(rng.integers(1, p - ny + 1))
                x = [float(v) for v in rng.normal(size=nx)]
                Yq, Xq = perm[:ny], perm[ny:ny + nx]
                if rng.random() < 0.25:
                    Yq = np.array([v - p if k_ % 2 == 0 else v for k_, v in enumerate(Yq)])
                    Xq = np.array([v - p if k_ % 2 else v for k_, v in enumerate(Xq)])
                r = dist.conditional(Yq, Xq, x)
                rec.count("history:conditioning-calls")
                _scribble(rec, r.mean)
                _scribble(rec, r.covariance)
            elif c == 2:
                S = [int(v) for v in np.where(rng.random(p) < 0.5)[0]]
                coefs, _ = dist.regress(int(rng.integers(p)), S)
                _scribble(rec, coefs)
            elif c == 3:
                S = [int(v) for v in np.where(rng.random(p) < 0.5)[0]]
                dist.mse(int(rng.integers(p)), S)
            elif c == 4:
                r = dist.sample(int(rng.integers(0, 6)), random_state=None if rng.random() < 0.5 else int(rng.integers(100)))
                _scribble(rec, r)
            else:
                dist.equal(dist)
        except np.linalg.LinAlgError:
            rec.count("history:singular-block(skipped)")
        except Exception as e:
            # exceptions are other properties' business; here only state matters
            rec.count("history:exception-" + type(e).__name__)


def _judge_model(kind, case, rec, family):
    import sempler
    import sempler.noise as noise
    rng = util.rng_for("C14", case["seed"], "m", case["k"])
    p = int(rng.integers(1, 7))
    if kind == "lganm" and case["k"] % 30 == 0:
        p = int(rng.integers(65, 75))          # more than 64 variables (bit-mask / print-summary territory)
    out = gmat.random_dag_masks(rng, p) if p < 20 else gmat.random_dag_masks(rng, p, density=2.5 / p)
    steps = int(rng.integers(5, 41))
    if kind == "lganm":
        W = gmat.weighted(rng, out, "signed") if case["k"] % 2 else gmat.weighted(rng, out, "int", dtype=int)
        if (case["k"] // 3) % 3 == 1:
            W = gmat.weighted(rng, out, "tiny")        # non-zero weights down to 5e-324: a caller's array all the same
        means = np.round(rng.uniform(-2, 2, p), 2) if case["k"] % 4 else rng.integers(-2, 3, p)
        variances = np.round(rng.uniform(0.2, 3, p), 2) if case["k"] % 4 else rng.integers(1, 4, p)
        W0, m0, v0 = W.copy(), means.copy(), variances.copy()
        model = sempler.LGANM(W, means, variances)
        if not (np.array_equal(W, W0) and np.array_equal(means, m0) and np.array_equal(variances, v0)):
            rec.violation("C14:argument-modified-by-LGANM.__init__", family, case, "the constructor modified the caller's W / means / variances")
        first = model.sample(population=True)
        first_copy = (np.array(first.mean, copy=True), np.array(first.covariance, copy=True))
        n_iv = 0
        last_kw = None
        used_kws = []
        for _ in range(steps):
            c = int(rng.integers(0, 4))
            kw = {"do_interventions": _iv(rng, p), "shift_interventions": _iv(rng, p), "noise_interventions": _iv(rng, p)}
            if p >= 65 and rng.random() < 0.6:
                # big models: interventions on the variables with index >= 64 that have parents (beyond any 64-bit set encoding)
                high = [j for j in range(64, p) if W0[:, j].any()]
                if high:
                    kw[("do_interventions", "noise_interventions")[int(rng.integers(2))]][int(rng.choice(high))] = (1.5, 0.5)
            used_kws.append(dict((k_, dict(v_)) for k_, v_ in kw.items()))
            n_iv += any(kw.values())
            if any(kw.values()) and c == 0:
                last_kw = kw
            for name in list(kw):
                if not kw[name] and rng.random() < 0.5:
                    del kw[name]         # argument omitted: the function's own default object is used
            try:
                if c == 0:
                    r = model.sample(int(rng.integers(0, 8)), random_state=None if rng.random() < 0.5 else int(rng.integers(100)), **kw)
                    _scribble(rec, r)
                elif c == 1:
                    d = model.sample(population=True, **kw)
                    _history_on_dist(rec, rng, d, int(rng.integers(1, 5)), family, case)
                    _scribble(rec, d.mean)
                    _scribble(rec, d.covariance)
                elif c == 2:
                    d = model.sample(population=True)
                    _scribble(rec, d.mean)
                    _scribble(rec, d.covariance)
                else:
                    model.sample(3, **kw)
            except Exception as e:
                rec.count("history:exception-" + type(e).__name__)
        # a one-variable model whose W is given with fewer than two dimensions (np.atleast_2d returns a view of such arrays)
        for wform in ("0d", "1d", "2d"):
            w1 = {"0d": np.array(0.0), "1d": np.array([0.0]), "2d": np.array([[0.0]])}[wform]
            mu1, va1 = np.array([1.5]), np.array([2.0])
            try:
                one = sempler.LGANM(w1, mu1, va1)
            except Exception as e:
                rec.count("copy-on-construct:low-dim-exception-" + type(e).__name__)
                continue
            rec.count("copy-on-construct:LGANM-low-dim")
            if np.shares_memory(one.W, w1) or np.shares_memory(one.means, mu1) or np.shares_memory(one.variances, va1):
                rec.violation("C14:lganm-aliases-constructor-argument", family, case, "LGANM(W as %s array of one variable) stores the caller's own buffer" % wform)
                break
            w1[...] = 0.5
            mu1[...] = -4.0
            va1[...] = 9.0
            d_one = one.sample(population=True)
            if not (np.array_equal(np.asarray(one.W), [[0.0]]) and np.array_equal(d_one.mean, [1.5]) and np.array_equal(d_one.covariance, [[2.0]])):
                rec.violation("C14:lganm-low-dim-argument-not-copied", family, case,
                              "LGANM(W as %s array): overwriting the caller's arrays after construction changed the model" % wform)
                break
        # the caller later changes his own arrays: the model must not notice (copy-on-construct)
        rec.count("copy-on-construct:LGANM")
        W[...] = 7
        means[...] = -9
        variances[...] = 5
        twin = sempler.LGANM(W0, m0, v0)
        rec.count("twin:lganm")
        end = model.sample(population=True)
        tw = twin.sample(population=True)
        if not _same_dist(end, tw) or not (np.array_equal(end.mean, first_copy[0]) and np.array_equal(end.covariance, first_copy[1])):
            rec.violation("C14:lganm-differs-from-fresh-twin", family, case,
                          "after %d calls (and the caller overwriting his own arrays) the observational distribution differs from a freshly built twin's" % steps)
        a, b = model.sample(6, random_state=3), twin.sample(6, random_state=3)
        if not np.array_equal(a, b):
            rec.violation("C14:lganm-seeded-sample-differs-from-twin", family, case, "seeded sample differs from a fresh twin's after the history")
        # results do not depend on earlier calls: re-issue an earlier kind of call (same targets, same n and seed) with OTHER
        # parameter values, first on the used model, then on the twin
        if last_kw is not None:
            def other(d):
                return {j: ((v[0] + 1.25, v[1] * 0.5 + 0.125) if isinstance(v, tuple) else v - 0.75) for j, v in d.items()}
            kw1 = dict((k, dict(v)) for k, v in last_kw.items())
            kw2 = dict((k, other(v)) for k, v in last_kw.items())
            r1 = model.sample(4, random_state=11, **kw1)
            r2 = model.sample(4, random_state=11, **kw2)
            t2 = twin.sample(4, random_state=11, **kw2)
            rec.count("history:same-targets-other-parameters")
            if not np.array_equal(r2, t2):
                rec.violation("C14:lganm-result-depends-on-earlier-call", family, case,
                              "sample(4, random_state=11) with the same intervention targets as an earlier call but other parameters differs from a fresh twin's result")
        # every kind of question put during the history is put again, to the used model and to the fresh twin: same answers
        seen_kw = set()
        for kw_ in used_kws[::-1]:
            key_ = repr(sorted((k_, sorted(v_.items(), key=repr)) for k_, v_ in kw_.items()))
            if key_ in seen_kw or len(seen_kw) >= 8:
                continue
            seen_kw.add(key_)
            try:
                d1, d2 = model.sample(population=True, **kw_), twin.sample(population=True, **kw_)
            except Exception:
                continue
            rec.count("history:settings-re-asked-against-twin")
            if not _same_dist(d1, d2):
                rec.violation("C14:lganm-result-depends-on-earlier-call", family, case,
                              "the population law under interventions asked earlier in the history differs between the used model and a fresh twin "
                              "(targets do=%s noise=%s shift=%s)" % (sorted(kw_["do_interventions"]), sorted(kw_["noise_interventions"]), sorted(kw_["shift_interventions"])))
                break
        for name, orig in (("W", W0), ("means", m0), ("variances", v0)):
            if not np.array_equal(np.asarray(getattr(model, name)), orig) or model.p != p:
                rec.violation("C14:lganm-attribute-changed", family, case, "attribute %s differs from the constructor argument" % name)
        return n_iv > 0
    if kind == "anm":
        A = gmat.weighted(rng, out, ("signed", "tiny", "signed")[(case["k"] // 3) % 3]) if case["k"] % 2 else gmat.to_np(out)
        inn = G.transpose(out)

        def mk_assign(i):
            pa = G.bits(inn[i])
            if not pa:
                return None
            w = np.arange(1, len(pa) + 1, dtype=float)
            return lambda x, w=w: np.tanh(x @ w)
        assigns = [mk_assign(i) for i in range(p)]
        nz = [noise.normal(float(i), 1.0 + i) for i in range(p)]
        A0 = A.copy()
        assigns0, nz0 = list(assigns), list(nz)
        model = sempler.ANM(A, assigns, nz)
        n_iv = 0
        for _ in range(steps):
            def ivd():
                return {j: noise.uniform(-1, 1) for j in range(p) if rng.random() < 0.3}
            kw = {"do_interventions": ivd(), "shift_interventions": ivd(), "noise_interventions": ivd()}
            n_iv += any(kw.values())
            try:
                r = model.sample(int(rng.integers(0, 8)), random_state=None if rng.random() < 0.5 else int(rng.integers(100)), **kw)
                _scribble(rec, r)
            except Exception as e:
                rec.count("history:exception-" + type(e).__name__)
        rec.count("copy-on-construct:ANM")
        A[...] = 0
        for i in range(p):
            assigns[i] = lambda x: 1e9
            nz[i] = noise.zero()
        twin = sempler.ANM(A0, assigns0, nz0)
        rec.count("twin:anm")
        a, b = model.sample(6, random_state=3), twin.sample(6, random_state=3)
        if not np.array_equal(a, b):
            rec.violation("C14:anm-seeded-sample-differs-from-twin", family, case,
                          "after %d calls (and the caller overwriting his own matrix / lists) a seeded sample differs from a fresh twin's" % steps)
        if not np.array_equal(np.asarray(model.A), A0) or model.p != p:
            rec.violation("C14:anm-attribute-changed", family, case, "attribute A differs from the constructor argument")
        return n_iv > 0
    # NormalDistribution
    B = rng.normal(size=(p, p))
    cov = B @ B.T + 0.2 * np.eye(p)
    mean = np.round(rng.uniform(-3, 3, p), 2)
    if case["k"] % 2:
        cov, mean = cov.tolist(), mean.tolist()      # array_like containers of the caller
    cov0, mean0 = copy.deepcopy(cov), copy.deepcopy(mean)
    dist = sempler.NormalDistribution(mean, cov)
    _history_on_dist(rec, rng, dist, steps, family, case)
    rec.count("copy-on-construct:NormalDistribution")
    if isinstance(cov, np.ndarray):
        cov[...] = 1.0
        mean[...] = 100.0
    else:
        for r in cov:
            for j in range(len(r)):
                r[j] = 1.0
        for j in range(len(mean)):
            mean[j] = 100.0
    twin = sempler.NormalDistribution(mean0, cov0)
    rec.count("twin:nd")
    # results do not depend on earlier calls: the same queries (conditioning sets in a new order included) on the used object
    # and on the twin give identical bits
    if p >= 3:
        for _ in range(4):
            perm = [int(v) for v in rng.permutation(p)]
            ny = int(rng.integers(1, p - 1))
            Y, Xs = perm[:ny], perm[ny:]
            x = [float(v) for v in rng.normal(size=len(Xs))]
            for Xo in (Xs, Xs[::-1], sorted(Xs)):
                xo = [x[Xs.index(j)] for j in Xo]
                try:
                    a1, a2 = dist.conditional(Y, Xo, xo), twin.conditional(Y, Xo, xo)
                    r1, r2 = dist.regress(Y[0], Xo), twin.regress(Y[0], Xo)
                    m1, m2 = dist.mse(Y[0], Xo), twin.mse(Y[0], Xo)
                except np.linalg.LinAlgError:
                    continue
                rec.count("history:queries-compared-with-twin")
                if not (_same_dist(a1, a2) and np.array_equal(r1[0], r2[0]) and r1[1] == r2[1] and m1 == m2):
                    rec.violation("C14:nd-result-depends-on-earlier-calls", family, case,
                                  "conditional / regress / mse (Y=%s, X=%s) on a distribution with a call history differ from a fresh twin's" % (Y, Xo))
                    break
    if not _same_dist(dist, twin) or dist.p != p:
        rec.violation("C14:nd-differs-from-fresh-twin", family, case, "after %d calls (and the caller overwriting his own data) mean / covariance differ from a fresh twin's" % steps)
    if not np.array_equal(dist.sample(5, random_state=1), twin.sample(5, random_state=1)):
        rec.violation("C14:nd-seeded-sample-differs-from-twin", family, case, "seeded sample differs from a fresh twin's")
    # a marginal over / a conditional of all variables in order given nothing must be a new object, not the distribution itself
    allv = list(range(p))
    for how, full in (("marginal(list)", dist.marginal(allv)), ("marginal(range)", dist.marginal(range(p))), ("marginal(ndarray)", dist.marginal(np.arange(p))),
                      ("conditional(range, [], [])", dist.conditional(range(p), [], [])), ("conditional(list, [], [])", dist.conditional(allv, [], [])),
                      ("conditional(ndarray, [], [])", dist.conditional(np.arange(p), [], []))):
        rec.count("identity-queries")
        if full is dist:
            rec.violation("C14:nd-result-is-the-model", family, case, "%s returned the distribution object itself" % how)
            continue
        _scribble(rec, full.mean)
        _scribble(rec, full.covariance)
        if not _same_dist(dist, twin):
            rec.violation("C14:nd-result-writes-through", family, case, "writing into the result of %s changed the distribution" % how)
            break
    # univariate distributions given as arrays of lower dimension than the stored form (0-d mean, 0-d / 1-d / 1x1 covariance,
    # e.g. np.mean(x), np.var(x), np.cov(x) of a 1-d sample): np.atleast_nd hands back views of such arrays
    m1, v1 = float(np.round(rng.uniform(-3, 3), 2)), float(np.round(rng.uniform(0.2, 4), 2))
    for mform in ("0d", "1d", "float"):
        for cform in ("0d", "1d", "2d", "float"):
            mu = {"0d": np.array(m1), "1d": np.array([m1]), "float": m1}[mform]
            cv = {"0d": np.array(v1), "1d": np.array([v1]), "2d": np.array([[v1]]), "float": v1}[cform]
            try:
                d1 = sempler.NormalDistribution(mu, cv)
            except Exception as e:
                rec.count("copy-on-construct:low-dim-exception-" + type(e).__name__)
                continue
            rec.count("copy-on-construct:NormalDistribution-low-dim")
            if isinstance(mu, np.ndarray):
                mu[...] = -77.0
            if isinstance(cv, np.ndarray):
                cv[...] = 55.0
            t1 = sempler.NormalDistribution(m1, v1)
            if not _same_dist(d1, t1):
                rec.violation("C14:nd-low-dim-argument-not-copied", family, case,
                              "NormalDistribution(mean as %s, covariance as %s): overwriting the caller's arrays after construction changed the distribution" % (mform, cform))
                return True
            # and the other direction: the model's arrays are the model's own, writing into them must not reach the caller's
            mu2 = {"0d": np.array(m1), "1d": np.array([m1]), "float": m1}[mform]
            cv2 = {"0d": np.array(v1), "1d": np.array([v1]), "2d": np.array([[v1]]), "float": v1}[cform]
            d2 = sempler.NormalDistribution(mu2, cv2)
            if (isinstance(mu2, np.ndarray) and np.shares_memory(d2.mean, mu2)) or (isinstance(cv2, np.ndarray) and np.shares_memory(d2.covariance, cv2)):
                rec.violation("C14:nd-aliases-constructor-argument", family, case,
                              "NormalDistribution(mean as %s, covariance as %s) stores the caller's own buffer" % (mform, cform))
                return True
    return True


def _utils_workload(U, gens, rng, rec):
    """Call every public utility on caller-owned graphs / sets / lists / dicts."""
    p = int(rng.integers(2, 6))
    dag = gmat.random_dag_masks(rng, p, density=rng.uniform(0.3, 0.8))
    pd = gmat.random_pdag_masks(rng, p)
    D = gmat.to_np(dag) if rng.random() < 0.8 else gmat.to_np(dag, dtype=bool)      # 0/1 adjacency given as bool now and then
    Df = gmat.to_np(dag, dtype=float)
    W = gmat.weighted(rng, dag, "signed")
    P = gmat.to_np(pd)
    ext = G.extensions(pd)
    Pext = gmat.to_np(ext[0]) if ext else D
    cp = gmat.to_np(G.union_graph(G.mec_of(dag), p))
    S = set(int(v) for v in np.where(rng.random(p) < 0.5)[0])
    i, j = int(rng.integers(p)), int(rng.integers(p))
    I = set(int(v) for v in np.where(rng.random(p) < 0.4)[0])
    a_set, b_set = {0}, {p - 1}
    s_set = set(range(1, p - 1)) if p > 2 else set()
    order = [int(v) for v in G.topological_order(dag)]
    data = [rng.normal(size=(int(rng.integers(4, 12)), 3)) for _ in range(2)]
    ordered = None
    calls = [
        ("argmin", (W,)), ("argmax", (W,)), ("matrix_block", (W, [0, 1], [1, 0])), ("sampling_matrix", (W,)), ("combinations", (p, 0)),
        ("nonzero", (W[0],)), ("ancestors", (i, P)), ("descendants", (i, P)), ("transitive_closure", (D,)), ("transitive_closure", (W,)),
        ("allclose", (W, W + 1e-9)), ("same_normal", (data[0], data[0] + 0.0)), ("na", (i, j, P)), ("neighbors", (i, P)), ("adj", (i, P)),
        ("pa", (i, P)), ("ch", (i, P)), ("an", (i, P)), ("desc", (i, P)), ("is_clique", (S, P)), ("is_clique", (sorted(S), W)), ("is_dag", (P,)),
        ("is_dag", (W,)), ("is_complete", (P,)), ("chain_graph", (p,)), ("is_chain_graph", (D,)), ("mec", (D,)), ("mec", (W,)), ("imec", (D, I)),
        ("imec", (W, I)), ("chain_graph_MEC", (p,)), ("chain_graph_IMEC", (U.chain_graph(p), I)), ("topological_ordering", (W,)),
        ("topological_ordering", (D,)), ("semi_directed_paths", (i, j, P)), ("separates", (s_set, a_set, b_set, P)), ("chain_component", (i, P)),
        ("induced_subgraph", (S, P)), ("induced_subgraph", (S, W)), ("vstructures", (P,)), ("vstructures", (W,)), ("moral_graph", (D,)),
        ("moral_graph", (W,)), ("degrees", (P,)), ("only_directed", (P,)), ("only_directed", (W,)), ("only_undirected", (P,)), ("undirected_edges", (P,)),
        ("directed_edges", (P,)), ("edge_weights", (W,)), ("skeleton", (P,)), ("skeleton", (W,)), ("is_consistent_extension", (Pext, P)),
        ("has_consistent_extension", (P,)), ("are_forward_neighbors", (cp, cp, i, j)), ("are_backward_neighbors", (cp, cp, i, j)),
        ("to_factorization", (D,)), ("is_supergraph", (D, D)), ("has_subgraph", ([D, Pext], [D])), ("has_supergraph", ([D], [D, Pext])),
        ("remove_edges", (D, min(1, int(D.sum())))), ("remove_edges", (W, 0)), ("add_edges", (D, min(1, p * (p - 1) // 2 - int(D.sum())))),
        ("LGANM-ctor", (D,)), ("ANM-ctor", (D,)),
        ("add_edges", (W, 0)), ("pdag_to_cpdag", (P,)), ("dag_to_cpdag", (D,)), ("dag_to_cpdag", (W,)), ("pdag_to_dag", (P,)), ("order_edges", (D,)),
        ("order_edges", (W,)), ("rule_1", (i, j, P)), ("rule_2", (i, j, P)), ("rule_3", (i, j, P)), ("rule_4", (i, j, P)), ("maximally_orient", (P,)),
        ("maximally_orient", (cp,)), ("pdag_to_icpdag", (cp, I)), ("dag_to_icpdag", (D, I)), ("dag_to_icpdag", (W, I)), ("all_dags", (P,)),
        ("all_dags", (cp,)), ("cartesian", ([np.array([1, 2]), np.array([3, 4, 5])],)), ("sort", ([3, 1, 2],)), ("sort", (list(reversed(order)), order)),
        ("subsets", (S,)), ("member", ([D, Pext], D)), ("delete", (W, np.array([True] + [False] * (p - 1)), 0)), ("split_data", (data, [0.5, 0.25, 0.25])),
        ("split_data", (data, (0.7, 0.2, 0.1), 7)), ("sorted_tuple", ({3, 1, 2},)), ("all_but", (0, p)), ("all_but", ([0, 1], p)),
    ]
    # "nothing to do" inputs, where handing back the caller's own array would be the cheapest thing to do
    full = set(range(p))
    Und = ((P != 0) & (P.T != 0)).astype(int)
    closed = gmat.to_np([G.reach(dag, 1 << v) & ~(1 << v) for v in range(p)])
    calls += [
        ("induced_subgraph", (full, P)), ("induced_subgraph", (list(range(p)), W)), ("only_directed", (D,)), ("only_directed", (W,)),
        ("only_undirected", (Und,)), ("skeleton", (Und,)), ("moral_graph", (Und,)), ("pdag_to_cpdag", (cp,)), ("pdag_to_cpdag", (D,)),
        ("maximally_orient", (D,)), ("pdag_to_dag", (D,)), ("pdag_to_dag", (W,)), ("all_dags", (D,)), ("all_dags", (W,)),
        ("dag_to_icpdag", (D, set())), ("dag_to_icpdag", (D, full)), ("pdag_to_icpdag", (D, I)), ("pdag_to_icpdag", (D, full)),
        ("remove_edges", (D, 0)), ("add_edges", (D, 0)), ("delete", (W, np.zeros(p, dtype=bool), 0)), ("sort", (list(order), list(order))),
        ("matrix_block", (W, list(range(p)), list(range(p)))), ("transitive_closure", (closed,)), ("imec", (D, full)), ("imec", (D, set())),
        ("split_data", (data, [1.0])), ("split_data", (data, [1.0], 0)), ("sampling_matrix", (np.zeros((p, p)),)), ("subsets", (set(),)),
    ]
    # the same graphs as boolean, Fortran-ordered arrays (e.g. (W != 0).T of a C-ordered W): conversions that are no-ops for exactly
    # this dtype / layout hand the routine the caller's own array
    Db = np.asfortranarray(gmat.to_np(dag).astype(bool))
    Pb = np.asfortranarray(P.astype(bool))
    calls += [("is_dag", (Db,)), ("topological_ordering", (Db,)), ("dag_to_cpdag", (Db,)), ("transitive_closure", (Db,)), ("mec", (Db,)),
              ("LGANM-ctor", (Db,)), ("ANM-ctor", (Db,)), ("pdag_to_dag", (Pb,)), ("maximally_orient", (Pb,)), ("all_dags", (Pb,)),
              ("only_directed", (Pb,)), ("skeleton", (Pb,)), ("vstructures", (Pb,)), ("moral_graph", (Db,)), ("order_edges", (Db,)),
              ("add_edges", (Db, 0)), ("remove_edges", (Db, 0)), ("induced_subgraph", (S, Pb))]
    results = {}
    import sempler as _s
    for (name, args) in calls:
        if name == "LGANM-ctor":
            fn = lambda M: _s.LGANM(M, (0, 1), (1, 2)).W
        elif name == "ANM-ctor":
            fn = lambda M: _s.ANM(M, [None] * len(M), [_s.noise.normal()] * len(M)).A
        else:
            fn = getattr(U, name, None)
            if fn is None:       # helpers that are not part of any property may disappear in a rewrite
                rec.count("utils:absent-" + name)
                continue
        try:
            res = fn(*args)
        except (ValueError, AssertionError):
            rec.count("utils:valueerror(out of scope here)")
            continue
        except Exception as e:
            rec.count("utils:exception-%s-%s" % (name, type(e).__name__))
            continue
        rec.add("utils-called", name)
        results[name] = res
        # write-through: overwriting what was returned must not reach the caller's objects (fingerprinted again by the next call)
        from ..monitors import argmon
        for arr in argmon.arrays_in(res):
            _scribble(rec, arr)
    # label_edges needs a valid ordering matrix
    try:
        ordered = U.order_edges(D)
        U.label_edges(ordered)
        rec.add("utils-called", "label_edges")
    except Exception as e:
        rec.count("utils:exception-label_edges-" + type(e).__name__)
    # generators
    for (name, args, kw) in (("dag_avg_deg", (p + 1, 1.0), {"random_state": 1}), ("dag_full", (p,), {"return_ordering": True, "random_state": 2}),
                             ("intervention_targets", (p + 2, 2, (0, 2)), {"random_state": 3}),
                             ("intervention_targets", (p + 4, 2, 1), {"replace": False, "random_state": 3})):
        try:
            getattr(gens, name)(*args, **kw)
            rec.add("utils-called", "generators." + name)
        except Exception as e:
            rec.count("utils:exception-%s-%s" % (name, type(e).__name__))
    return int(D.sum())


def judge(family, case, rec):
    if family == "repo-tests":
        from ..workloads import repotests
        from ..monitors import invariants
        # the repository's tests assign attributes of a model themselves (joint.mean = ...): a change made by the *caller*
        # between two calls is not the library's doing, so the construction-time invariant is switched off here and only the
        # per-call comparison of the model before / after each method (argmon) is judged
        saved = invariants.State.rec
        invariants.State.rec = None
        try:
            repotests.run(rec, case["module"])
        finally:
            invariants.State.rec = saved
        return
    import sempler
    import sempler.utils as U
    import sempler.generators as gens
    if family == "model-history":
        nontrivial = _judge_model(case["kind"], case, rec, family)
        rec.case(family, case, bool(nontrivial))
    elif family == "utils":
        rng = util.rng_for("C14", case["seed"], "u", case["k"])
        edges = _utils_workload(U, gens, rng, rec)
        rec.case(family, case, edges >= 2)
    else:
        import sempler.semi as semi
        rng = util.rng_for("C14", case["seed"], "d", case["k"])
        p = int(rng.integers(2, 5))
        out = gmat.random_dag_masks(rng, p, density=0.6)
        graph = gmat.weighted(rng, out, "signed")
        data = [rng.normal(size=(int(rng.integers(15, 30)), p)) for _ in range(2)]
        g0, d0 = graph.copy(), [a.copy() for a in data]
        rec.case(family, case, True)
        net = semi.DRFNet(graph, data)
        ref = net.sample(8, random_state=4)
        for r in ref:
            _scribble(rec, r)
        rec.count("copy-on-construct:DRFNet")
        graph[...] = 0
        for a in data:
            a[...] = -1.0
        data.append(np.zeros((3, p)))
        twin = semi.DRFNet(g0, d0)
        again, tw = net.sample(8, random_state=4), twin.sample(8, random_state=4)
        if len(again) != len(tw) or not all(np.array_equal(x, y) for x, y in zip(again, tw)):
            rec.violation("C14:drfnet-affected-by-caller-mutation", family, case,
                          "after the caller overwrote the graph / data passed to DRFNet, its samples differ from a fresh twin's")
        if not np.array_equal(net.graph, (g0 != 0).astype(int)):
            rec.violation("C14:drfnet-graph-changed", family, case, "DRFNet.graph changed")


def shard_end(rec):
    import sempler.utils as U
    called = set(n for n in rec.sets.get("utils-called", ()) if not n.startswith("generators."))
    allfn = set(n for n, f in vars(U).items() if hasattr(f, "__vf_original__"))
    missing = sorted(allfn - called)
    if called:
        rec.add("utils-functions-never-called", ",".join(missing) if missing else "(none)")
        if not missing:
            rec.count("utils-functions-covered")
