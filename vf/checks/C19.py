"""C19 - semi-synthetic samples factorise according to the given graph.

Monitor: a stand-in rpy2 backend (vf/fake_rpy2) that logs every forest fit and
every prediction query, plus an output monitor on DRFNet.sample.  Training values
are pairwise distinct, so each output value identifies the training row it came
from.  The Python side (sempler/semi.py, drf/code.py) runs unmodified.
"""
import numpy as np

from ..core import util
from ..oracles import graphs as G
from ..oracles import stats as S
from ..workloads import gmat

FAKE_RPY2 = True
TECHNIQUE = "runtime monitoring through an instrumented stand-in rpy2 backend (fit/query event log) + output monitor on DRFNet.sample: value provenance, one query per (node, environment) on the final synthetic parents, source and forest-draw independence and bootstrap uniformity (binomial bounds), seeded reproducibility across perturbed histories, documented exceptions"
LEVEL_TEXT = ("For random DAGs (p 2..6), 1-3 environments of 20-80 rows with pairwise distinct values and n given as None / int / list, "
              "each DRFNet construction and sample call is checked against the backend's event log: exactly one forest per "
              "(non-source node, environment) fitted on that environment's sorted-parent columns; exactly one query per such pair per "
              "sample call whose newdata equals the *final* synthetic parent columns in increasing index and which is addressed to the "
              "right forest; every output value is a training value of the same variable and environment and lies in the support of "
              "its query row's weights; source columns are bootstrapped independently (matching row indices ~ Bin(n, 1/N)); the same "
              "random_state gives bit-identical output whatever happened to numpy's global generator in between; the documented "
              "TypeError / ValueError cases are raised.")
LEVEL_NOTE = "The R forest is replaced by a deterministic nearest-neighbour stand-in; only the Python side is under check."
RULE = ("cases: (graph, data sizes, n form, seed).  distinct = distinct canonical case; non-trivial = at least one non-source node "
        "and at least two source nodes or two environments"
        ' Also: graphs with 9-12 variables, numpy-integer seeds, Fortran-ordered data, the caller overwriting his data after construction.')
ASSUMPTIONS = ["stand-in backend behind the rpy2 interface (no R in the sandbox)"]
EXHAUSTIVE = {"quick": False, "thorough": False}
SOFT_LIMIT = {"quick": 1200, "thorough": 5400}      # generous wall-clock watchdogs (a loaded machine must not cut a workload short); normal run times are in the evidence
REQUIRED_FUNCS = ["sempler/semi.py:DRFNet.__init__", "sempler/semi.py:DRFNet.sample"]      # the backend side is observed through the stand-in's own fit / query log
REQUIRED_COUNTERS = {"quick": {"sample-calls": 600, "queries-checked": 1000, "fits-checked": 500, "independence-asserted": 100, "forest-draws-independence-asserted": 300, "bootstrap:rows-judged": 500,
                               "repro:seeded-pairs": 200, "repro:seed0": 20, "errors:raised-as-documented": 400, "n:list": 50, "n:int": 50, "n:None": 50},
                     "thorough": {"sample-calls": 3000, "queries-checked": 6000, "fits-checked": 3000, "independence-asserted": 500, "forest-draws-independence-asserted": 1500, "bootstrap:rows-judged": 3000,
                                  "repro:seeded-pairs": 1000, "repro:seed0": 100, "errors:raised-as-documented": 400, "n:list": 250, "n:int": 250, "n:None": 250}}
N = {"quick": 320, "thorough": 3200}


def gen(tier, seed, shard, nshards):
    if shard == 0:
        yield "errors", {"k": 0}
    # bootstrap of source variables: every observed row equally likely (frequencies over one long sample)
    for b in range(16 if tier == "quick" else 96):
        if b % nshards == shard:
            rng = util.rng_for("C19", seed, "boot", b)
            yield "bootstrap", {"p": int(rng.integers(1, 4)), "Ns": [int(rng.integers(5, 90)) for _ in range(int(rng.integers(1, 3)))],
                                "n": 40000, "rs": [None, 0, int(rng.integers(0, 2**32))][b % 3], "dseed": int(rng.integers(0, 2**31)), "k": b}
    for k in range(N[tier]):
        if k % nshards != shard:
            continue
        rng = util.rng_for("C19", seed, k)
        p = int(rng.integers(2, 7)) if k % 3 else int(rng.integers(9, 13))
        for _ in range(50):
            out = gmat.random_dag_masks(rng, p, density=rng.uniform(0.15, 0.6) if p < 9 else rng.uniform(0.1, 0.3))
            inn = G.transpose(out)
            n_src = sum(1 for i in range(p) if not inn[i])
            if n_src >= 2 or rng.random() < 0.15:
                break
        e = int(rng.integers(1, 4))
        Ns = [int(rng.integers(20, 81)) for _ in range(e)]
        weighted = bool(k % 3 == 0)
        yield "net", {"masks": out, "Ns": Ns, "weighted": weighted, "k": k, "dseed": int(rng.integers(0, 2**31)),
                      "rs": [0, 1, 42, int(rng.integers(0, 2**32))][k % 4]}


def _data(p, Ns, dseed):
    rng = np.random.default_rng(dseed)
    data = []
    for k, n in enumerate(Ns):
        a = np.zeros((n, p))
        for i in range(p):
            a[:, i] = i * 10**6 + k * 10**4 + rng.permutation(n) + 0.125
        data.append(a)
    return data


def _perturb(rng):
    """Arbitrary other use of numpy's generators between two seeded calls."""
    c = int(rng.integers(0, 5))
    if c == 0:
        np.random.seed(int(rng.integers(0, 2**32)))
    elif c == 1:
        np.random.normal(size=int(rng.integers(1, 50)))
    elif c == 2:
        np.random.default_rng(int(rng.integers(0, 100))).uniform(size=5)
    elif c == 3:
        np.random.set_state(np.random.RandomState(int(rng.integers(0, 1000))).get_state())
    else:
        np.random.choice(10, 3)
    return c


def judge(family, case, rec):
    import sempler.semi as semi
    from rpy2.robjects import packages as backend
    if family == "errors":
        _errors(semi, rec, family, case)
        return
    if family == "bootstrap":
        p, Ns, n = case["p"], case["Ns"], case["n"]
        rec.case(family, case, True, key=("boot", case["k"], case["dseed"]))
        data = _data(p, Ns, case["dseed"])
        try:
            net = semi.DRFNet(np.zeros((p, p)), [a.copy() for a in data])
            res = net.sample(n, random_state=case["rs"]) if case["rs"] is not None else net.sample(n)
        except Exception as ex:
            rec.exception_violation("C19:sample-exception", family, case, "DRFNet without edges: construction / sample(%d) raised" % n, ex)
            return
        for k in range(len(Ns)):
            a = np.asarray(res[k])
            if a.shape != (n, p):
                rec.violation("C19:output-shape", family, case, "environment %d: shape %r, expected (%d, %d)" % (k, a.shape, n, p))
                return
            for i in range(p):
                pos = {v: r for r, v in enumerate(data[k][:, i].tolist())}
                try:
                    idx = np.array([pos[v] for v in a[:, i].tolist()])
                except KeyError:
                    rec.violation("C19:value-not-from-training-column", family, case, "environment %d, variable %d contains values never observed" % (k, i))
                    return
                cnt = np.bincount(idx, minlength=Ns[k])
                rec.count("bootstrap:rows-judged", Ns[k])
                for r in range(Ns[k]):
                    bnd = S.binom_tail_bound(int(cnt[r]), n, 1.0 / Ns[k])
                    if bnd < S.DELTA / Ns[k]:
                        rec.violation("C19:bootstrap-not-uniform", family, case,
                                      "environment %d, source variable %d: observation %d of %d was drawn %d times in %d rows (about %d expected; bound %.3g)"
                                      % (k, i, r, Ns[k], int(cnt[r]), n, n // Ns[k], bnd))
                        return
        return
    out = list(case["masks"])
    p = len(out)
    inn = G.transpose(out)
    parents = [G.bits(inn[i]) for i in range(p)]
    sources = [i for i in range(p) if not parents[i]]
    nonsrc = [i for i in range(p) if parents[i]]
    Ns = case["Ns"]
    e = len(Ns)
    data = _data(p, Ns, case["dseed"])
    if case["k"] % 4 == 1:
        data = [np.asfortranarray(a) if i % 2 == 0 else np.ascontiguousarray(a.T).T for i, a in enumerate(data)]   # column-major inputs
    rng = util.rng_for("C19j", case["k"])
    graph = gmat.weighted(rng, out, "signed") if case["weighted"] else gmat.to_np(out)
    rec.case(family, case, bool(nonsrc and (len(sources) >= 2 or e >= 2)))
    backend.reset()
    data0 = [a.copy() for a in data]
    try:
        net = semi.DRFNet(graph, data)
    except Exception as ex:
        rec.exception_violation("C19:ctor-exception", family, case, "DRFNet(graph, data) raised %s" % type(ex).__name__, ex)
        return
    # ---- fits: every forest fitted - at construction or later - must be the model of one (non-source node, environment) pair,
    # fitted on that pair's original columns (sorted parents -> the variable); a pair may be fitted lazily or more than once
    fit_of = FitBook(data0, parents, nonsrc)
    if not fit_of.absorb(backend.LOG, rec, family, case):
        return

    if case["k"] % 2:
        # the caller re-uses / rescales his own arrays after fitting: the network must keep working on what it was fitted to
        for a in data:
            a[...] = a * 0.5 - 3.0
        rec.count("history:caller-overwrote-data-after-construction")

    def run_sample(n, rs):
        start = len(backend.LOG)
        if rs is not None and case["k"] % 3 == 1:
            res = net.sample(n, rs)        # both arguments positionally (documented order: n, random_state)
        else:
            res = net.sample(n, random_state=rs) if rs is not None else net.sample(n)
        return res, backend.LOG[start:]

    # ---- sample calls with the three forms of n
    forms = [("None", None, list(Ns)), ("int", 25, [25] * e), ("list", [int(v) for v in rng.integers(5, 40, e)], None)]
    forms[2] = ("list", forms[2][1], list(forms[2][1]))
    if case["k"] % 32 == 3 and p <= 5:
        big = [4500] + [int(v) for v in rng.integers(5, 40, e - 1)]          # more than 4096 rows in one environment
        forms.append(("list", big, list(big)))
        rec.count("n:more-than-4096-rows")
    for (fname, n, sizes) in forms:
        for rs in (None, case["rs"] if case["k"] % 5 else np.int64(case["rs"])):
            rec.count("sample-calls")
            rec.count("n:" + fname)
            try:
                res, events = run_sample(n, rs)
            except Exception as ex:
                rec.exception_violation("C19:sample-exception", family, case, "sample(n=%r, random_state=%r) raised %s" % (n, rs, type(ex).__name__), ex)
                return
            if not _check_output(rec, family, case, res, events, sizes, data0, parents, sources, nonsrc, fit_of, n, rs):
                return
    # ---- independence of source nodes: matching bootstrap indices ~ Bin(n, 1/N)
    if len(sources) >= 2:
        nbig = 400
        for rs in (None, case["rs"], 0):
            try:
                res = net.sample(nbig, random_state=rs) if rs is not None else net.sample(nbig)
            except Exception as ex:
                rec.exception_violation("C19:sample-exception", family, case, "sample(%d, random_state=%r) raised" % (nbig, rs), ex)
                return
            for k in range(e):
                rows = {}
                for i in sources:
                    pos = {v: r for r, v in enumerate(data0[k][:, i].tolist())}
                    try:
                        rows[i] = np.array([pos[v] for v in np.asarray(res[k])[:, i].tolist()])
                    except KeyError:
                        rows[i] = None
                a, b = sources[0], sources[1]
                if rows[a] is None or rows[b] is None:
                    continue
                match = int((rows[a] == rows[b]).sum())
                rec.count("independence-asserted")
                bound = S.binom_tail_bound(match, nbig, 1.0 / Ns[k]) if match > nbig / Ns[k] else 1.0
                rec.max("max-matching-fraction-x-N", match / float(nbig) * Ns[k])
                if bound < S.DELTA:
                    rec.violation("C19:sources-not-independent", family, case,
                                  "environment %d, random_state=%r: source variables %d and %d were resampled from the same training row in %d of %d "
                                  "synthetic rows (expected about %d if independent; bound %.3g)" % (k, rs, a, b, match, nbig, nbig // Ns[k], bound))
                    return
    # ---- the draws of different forests are independent of one another given the queries: with the stand-in backend every query
    # row weights exactly three training rows equally, so *which* of the three was drawn (rank 0/1/2 by training index) is uniform and
    # independent between any two (variable, environment) pairs: the number of rows with equal rank is Bin(n, 1/3)
    if len(nonsrc) * e >= 2 and min(Ns) >= 3:
        nbig = 400
        for rs in (None, case["rs"]):
            try:
                res, events = run_sample(nbig, rs)
            except Exception as ex:
                rec.exception_violation("C19:sample-exception", family, case, "sample(%d, random_state=%r) raised" % (nbig, rs), ex)
                return
            fit_of.absorb(events, rec, family, case)
            ranks = {}
            for i in nonsrc:
                for k in range(e):
                    evs = [ev for ev in events if ev["op"] == "predict" and fit_of.owner.get(ev["fit"]) == (i, k)]
                    Wr = _weights_by_row(evs, range(len(evs)), np.asarray(res[k])[:, parents[i]], len(parents[i])) if evs else None
                    if Wr is None or len(Wr) != nbig:
                        continue
                    ev = {"weights": np.vstack(Wr)}
                    pos = {v: r for r, v in enumerate(data0[k][:, i].tolist())}
                    col = np.asarray(res[k])[:, i].tolist()
                    rk = np.full(nbig, -1)
                    for r in range(nbig):
                        sup = np.flatnonzero(ev["weights"][r] > 0)
                        t = pos.get(col[r])
                        if t is not None and len(sup) == 3 and t in sup:
                            rk[r] = int(np.searchsorted(sup, t))
                    if (rk >= 0).all():
                        ranks[(i, k)] = rk
            keys = sorted(ranks)
            pairs = [(keys[a], keys[b]) for a in range(len(keys)) for b in range(a + 1, len(keys))][:8]
            for (ka, kb) in pairs:
                match = int((ranks[ka] == ranks[kb]).sum())
                rec.count("forest-draws-independence-asserted")
                rec.max("max-equal-rank-fraction", match / float(nbig))
                if match > nbig / 3.0 and S.binom_tail_bound(match, nbig, 1.0 / 3.0) < S.DELTA:
                    rec.violation("C19:forest-draws-not-independent", family, case,
                                  "random_state=%r: the forests of (variable %d, environment %d) and (variable %d, environment %d) drew the same one of their "
                                  "three weighted training rows in %d of %d synthetic rows (about %d expected for independent draws)"
                                  % (rs, ka[0], ka[1], kb[0], kb[1], match, nbig, nbig // 3))
                    return
    # ---- reproducibility across perturbed histories
    rs = case["rs"]
    if rs == 0:
        rec.count("repro:seed0")
    try:
        if case["k"] % 5 == 0:
            rs_np = np.int64(rs)
            r1, r2 = net.sample(12, random_state=rs_np), net.sample(12, random_state=rs)
            np.random.normal(size=3)
            r3 = net.sample(12, random_state=rs_np)
            rec.count("repro:numpy-integer-seed")
            if not all(np.array_equal(a, b) and np.array_equal(a, c) for a, b, c in zip(r1, r2, r3)):
                rec.violation("C19:numpy-integer-seed-not-honoured", family, case,
                              "random_state=np.int64(%d) does not reproduce the sample of random_state=%d / of itself" % (rs, rs))
                return
        ref = net.sample(30, random_state=rs)
        for t in range(3):
            hist = [_perturb(rng) for _ in range(int(rng.integers(1, 4)))]
            if t == 1:
                net.sample(7)                      # an unseeded library call in between
            if t == 2:
                net.sample(9, random_state=(rs + 1) % (2**32))
            again = net.sample(30, random_state=rs)
            rec.count("repro:seeded-pairs")
            if not all(np.array_equal(a, b) for a, b in zip(ref, again)):
                cols = sorted(set(int(j) for a, b in zip(ref, again) for j in np.where((np.asarray(a) != np.asarray(b)).any(axis=0))[0]))
                rec.violation("C19:seeded-sample-not-reproducible", family, case,
                              "sample(30, random_state=%d) differs after history %s (columns %s; sources %s)" % (rs, hist, cols, sources))
                return
        u1, u2 = net.sample(30), net.sample(30)
        if all(np.array_equal(a, b) for a, b in zip(u1, u2)):
            rec.violation("C19:unseeded-samples-identical", family, case, "two consecutive unseeded samples are identical")
    except Exception as ex:
        rec.exception_violation("C19:sample-exception", family, case, "sample raised during the reproducibility history", ex)
        return
    if case["k"] % 2 == 0 and any(not np.array_equal(a, b) for a, b in zip(data, data0)):
        rec.violation("C19:data-mutated", family, case, "the caller's data arrays were modified")


def _check_output(rec, family, case, res, events, sizes, data0, parents, sources, nonsrc, fit_of, n, rs):
    e, p = len(data0), data0[0].shape[1]
    ctx = {"n": n, "random_state": rs}
    if not isinstance(res, list) or len(res) != e:
        rec.violation("C19:output-structure", family, case, "sample returned %r, expected a list of %d arrays" % (type(res).__name__, e), **ctx)
        return False
    for k in range(e):
        a = np.asarray(res[k])
        if a.shape != (sizes[k], p):
            rec.violation("C19:output-shape", family, case, "environment %d: shape %r, expected (%d, %d)" % (k, a.shape, sizes[k], p), **ctx)
            return False
        for i in range(p):
            if not set(a[:, i].tolist()) <= set(data0[k][:, i].tolist()):
                rec.violation("C19:value-not-from-training-column", family, case,
                              "environment %d, variable %d contains values never observed for it in that environment" % (k, i), **ctx)
                return False
    preds = [ev for ev in events if ev["op"] == "predict"]
    if not fit_of.absorb(events, rec, family, case):       # forests fitted during sample() are judged like those fitted at construction
        return False
    used = [False] * len(preds)
    for i in nonsrc:
        for k in range(e):
            a = np.asarray(res[k])
            want_new = a[:, parents[i]]
            hits = [q for q, ev in enumerate(preds) if fit_of.owner.get(ev["fit"]) == (i, k)]
            rec.count("queries-checked")
            if not hits:
                rec.violation("C19:query-count", family, case,
                              "variable %d, environment %d: no query reached a forest fitted to it during the sample call (%d queries in total)"
                              % (i, k, len(preds)), **ctx)
                return False
            if len(hits) > 1:
                rec.count("queries:in-several-batches")
            for q in hits:
                used[q] = True
            # one query or several (batches, or one row per distinct parent configuration): every synthetic row's parent values must
            # have been put to the forest, every query row must be the parent values of some synthetic row, and the value of the
            # row must lie in the support of the weights answered for its parent values
            Wrow = _weights_by_row(preds, hits, want_new, len(parents[i]))
            if Wrow is None:
                rec.violation("C19:query-not-on-synthetic-parents", family, case,
                              "variable %d, environment %d: the forest was queried with data that is not the final synthetic columns of its parents %s (in increasing index)"
                              % (i, k, parents[i]), **ctx)
                return False
            Y = data0[k][:, i]
            col = a[:, i]
            for r in range(len(col)):
                sup = Y[Wrow[r] > 0]
                if col[r] not in sup:
                    rec.violation("C19:value-outside-query-support", family, case,
                                  "variable %d, environment %d, row %d: value is not among the training responses weighted by its query row" % (i, k, r), **ctx)
                    return False
    if not all(used):
        rec.violation("C19:unexpected-query", family, case, "%d queries addressed to forests of no (non-source node, environment) pair" % (len(used) - sum(used)), **ctx)
        return False
    return True


def _weights_by_row(preds, hits, want_new, npar):
    """The weight vector answered for the parent values of every synthetic row (None if a row was never asked about, or if a
    query row is not the parent values of any synthetic row)."""
    table = {}
    for q in hits:
        nd = np.asarray(preds[q]["newdata"], dtype=float).reshape(-1, max(1, npar))
        Wq = preds[q]["weights"]
        if len(nd) != len(Wq):
            return None
        for r in range(len(nd)):
            table[nd[r].tobytes()] = Wq[r]
    want = np.ascontiguousarray(np.asarray(want_new, dtype=float).reshape(-1, max(1, npar)))
    rows = []
    seen = set()
    for r in range(len(want)):
        key = want[r].tobytes()
        w = table.get(key)
        if w is None:
            return None
        seen.add(key)
        rows.append(w)
    if len(seen) != len(table):
        return None           # a query on values that are not the parents of any synthetic row
    return rows


class FitBook:
    """Which (variable, environment) pair every fitted forest belongs to, decided from the data it was fitted on."""

    def __init__(self, data0, parents, nonsrc):
        self.data0, self.parents, self.nonsrc = data0, parents, nonsrc
        self.owner = {}          # fit id -> (variable, environment)
        self.seen = set()

    def absorb(self, events, rec, family, case):
        for ev in events:
            if ev["op"] != "fit" or ev["fit"] in self.seen:
                continue
            self.seen.add(ev["fit"])
            rec.count("fits-checked")
            hit = None
            for i in self.nonsrc:
                for k in range(len(self.data0)):
                    X, Y = self.data0[k][:, self.parents[i]], self.data0[k][:, [i]]
                    if ev["X"].shape == X.shape and np.array_equal(ev["X"], X) and np.array_equal(np.asarray(ev["Y"]).reshape(-1, 1), Y):
                        hit = (i, k)
                        break
                if hit:
                    break
            if hit is None:
                rec.violation("C19:fit-missing-or-wrong", family, case,
                              "a forest was fitted on data (X %r, Y %r) that are not the original columns (sorted parents -> variable) of any "
                              "(non-source variable, environment) pair" % (ev["X"].shape, np.asarray(ev["Y"]).shape))
                return False
            self.owner[ev["fit"]] = hit
        return True


def _errors(semi, rec, family, case):
    rec.case(family, case, True)
    rng = np.random.default_rng(5)
    good_graph = np.array([[0, 1, 1], [0, 0, 1], [0, 0, 0]])
    good_data = [rng.uniform(size=(12, 3)), rng.uniform(size=(9, 3))]
    bad_ctor = [
        ("graph-not-ndarray", TypeError, lambda: semi.DRFNet(good_graph.tolist(), good_data)),
        ("graph-1d", ValueError, lambda: semi.DRFNet(np.zeros(3), good_data)),
        ("graph-3d", ValueError, lambda: semi.DRFNet(np.zeros((3, 3, 3)), good_data)),
        ("graph-cyclic", ValueError, lambda: semi.DRFNet(np.array([[0, 1, 0], [0, 0, 1], [1, 0, 0]]), good_data)),
        ("graph-negative-2cycle", ValueError, lambda: semi.DRFNet(np.array([[0, -1.0, 0], [-1.0, 0, 0], [0, 0, 0]]), good_data)),
        ("data-not-list", TypeError, lambda: semi.DRFNet(good_graph, tuple(good_data))),
        ("data-array", TypeError, lambda: semi.DRFNet(good_graph, good_data[0])),
        ("sample-not-ndarray", TypeError, lambda: semi.DRFNet(good_graph, [good_data[0], good_data[1].tolist()])),
        ("sample-1d", ValueError, lambda: semi.DRFNet(good_graph, [good_data[0], np.zeros(3)])),
        ("sample-wrong-width", ValueError, lambda: semi.DRFNet(good_graph, [good_data[0], np.zeros((5, 4))])),
    ]
    net = semi.DRFNet(good_graph, good_data)
    bad_n = [
        ("n-float", TypeError, lambda: net.sample(3.5)),
        ("n-str", TypeError, lambda: net.sample("3")),
        ("n-tuple", TypeError, lambda: net.sample((3, 3))),
        ("n-list-of-float", TypeError, lambda: net.sample([3, 2.5])),
        ("n-zero", ValueError, lambda: net.sample(0)),
        ("n-negative", ValueError, lambda: net.sample(-4)),
        ("n-list-nonpositive", ValueError, lambda: net.sample([3, 0])),
        ("n-list-too-short", ValueError, lambda: net.sample([3])),
        ("n-list-too-long", ValueError, lambda: net.sample([3, 4, 5])),
        ("n-list-empty", ValueError, lambda: net.sample([])),
    ]
    for rep in range(25):
        for (name, exc, fn) in bad_ctor + bad_n:
            try:
                r = fn()
                rec.violation("C19:no-exception-" + name, family, case, "%s: no exception (returned %s), documented %s" % (name, type(r).__name__, exc.__name__))
            except exc:
                rec.count("errors:raised-as-documented")
            except Exception as ex:
                rec.exception_violation("C19:wrong-exception-" + name, family, case,
                                        "%s: raised %s, documented %s" % (name, type(ex).__name__, exc.__name__), ex)
