"""C17 - split_data partitions every environment's observations.

Monitor: post-condition on utils.split_data.  Rows carry unique ids (environment *
10^6 + row index), so the multiset of ids over the folds of an environment must
equal the input's ids: no loss, no duplicate, no migration.  Fold sizes, seed
determinism, shuffling, untouched inputs and the ratio-sum contract are checked
too.
"""
from fractions import Fraction

import math

import numpy as np

from ..core import util

TECHNIQUE = "runtime post-condition monitor on split_data with uniquely tagged rows (conservation / exactly-once per environment), fold-size, determinism and ratio-sum contracts over a grid of sizes x ratio compositions x seeds; place-frequency and co-occurrence monitor of the shuffle over thousands of seeds (Chernoff bound)"
LEVEL_TEXT = ("For every n in 0..40 (plus 99, 101, 1000), ratio vectors built as integer compositions k_i/m (m in 2,3,5,7,10,100; 1-6 folds, "
              "zeros allowed; exact sum 1 whatever the float sum) and 1-3 environments of unequal size, each row is tracked by a unique "
              "id: every observation must appear in exactly one fold of its own environment with its row intact; non-last folds have "
              "round(n r_i) rows (either neighbour at exact ties, truncated when rows run out), the last takes the rest; same seed => "
              "identical output, different seed => different assignment, folds are not slices of the input order, inputs untouched; "
              "vectors off by more than 1e-6 must raise ValueError.")
LEVEL_NOTE = "Exhaustive over the stated grid; larger n sampled."
RULE = ("cases: (environment sizes, ratio composition, seed, container form).  distinct = distinct tuple; non-trivial = at least two "
        "folds and some environment with n >= 2"
        ' Also: explicit seeds 0 and 42 with pairwise distinct assignments, folds of earlier calls re-checked after later calls, the call repeated after the caller overwrote earlier folds.')
ASSUMPTIONS = ["ratio vectors are exact-sum-1 by construction (k_i/m); the float sum may differ from 1 by rounding"]
EXHAUSTIVE = {"quick": True, "thorough": True}
SOFT_LIMIT = {"quick": 1200, "thorough": 5400}      # generous wall-clock watchdogs (a loaded machine must not cut a workload short); normal run times are in the evidence
REQUIRED_FUNCS = ["sempler/utils.py:split_data"]
REQUIRED_COUNTERS = {"quick": {"accepted": 20000, "float-sum-not-1": 300, "rejected-as-expected": 200, "tie-sizes": 300, "determinism-checked": 5000,
                               "shuffle-checked": 1000, "rows-tracked": 500000, "uniformity:calls": 20000, "uniformity:cells-judged": 150},
                     "thorough": {"accepted": 100000, "float-sum-not-1": 500, "rejected-as-expected": 200, "tie-sizes": 3000, "determinism-checked": 50000,
                                  "shuffle-checked": 5000, "rows-tracked": 2000000, "uniformity:calls": 200000, "uniformity:cells-judged": 150}}
SEEDS = {"quick": 3, "thorough": 24}


def compositions(m, parts):
    """All ordered compositions of m into `parts` non-negative integers (bounded enumeration)."""
    if parts == 1:
        yield (m,)
        return
    for a in range(m + 1):
        for rest in compositions(m - a, parts - 1):
            yield (a,) + rest


def ratio_vectors():
    vecs = []
    for m in (2, 3, 5, 7, 10):
        for parts in (1, 2, 3):
            for c in compositions(m, parts):
                vecs.append((m, c))
    for m in (6, 9, 11):
        for c in compositions(m, 3):
            if 0 not in c:
                vecs.append((m, c))
    vecs += [(10, (7, 2, 1)), (10, (1, 2, 7)), (10, (3, 3, 3, 1)), (10, (1, 1, 1, 1, 1, 5)), (100, (33, 33, 34)), (100, (70, 20, 10)),
             (100, (15, 15, 70)), (100, (1, 98, 1)), (7, (1, 1, 1, 1, 1, 2)), (3, (1, 1, 1)), (100, (35, 35, 30)), (100, (5, 5, 90)), (10, (0, 0, 10)),
             (100, (45, 55)), (100, (25, 25, 25, 25)), (100, (12, 13, 75))]
    # dedupe, keep order
    seen, out = set(), []
    for v in vecs:
        if v not in seen:
            seen.add(v)
            out.append(v)
    return out


def gen(tier, seed, shard, nshards):
    vecs = ratio_vectors()
    ns = list(range(0, 41)) + [99, 101, 1000]
    idx = 0
    for n in ns:
        for vi, (m, c) in enumerate(vecs):
            if idx % nshards == shard:
                rng = util.rng_for("C17", seed, n, vi)
                envs = int(1 + (idx % 3))
                sizes = [n] + [int(rng.integers(0, 45)) for _ in range(envs - 1)]
                yield "split", {"sizes": sizes, "m": m, "k": list(c), "d": int(1 + idx % 3), "n_seeds": SEEDS[tier], "form": idx % 4, "base": seed}
            idx += 1
    # uniformity of the shuffle over seeds (a "random shuffle": every observation equally likely in every place)
    for u, (n, ratios) in enumerate(((12, [0.5, 0.25, 0.25]), (7, [0.7, 0.2, 0.1]), (20, [0.1, 0.9]), (9, [1 / 3, 1 / 3, 1 / 3]), (30, [0.2, 0.3, 0.5]), (5, [0.4, 0.6]))):
        if u % nshards == shard:
            yield "uniformity", {"n": n, "ratios": ratios, "n_seeds": 4000 if tier == "quick" else 40000, "base": int(seed), "m": 0, "k": []}
    # ratio vectors that do not sum to 1
    b = 0
    for (m, c) in vecs[::3]:
        for delta in (2e-6, -2e-6, 1e-3, -0.05, 0.3):
            if b % nshards == shard:
                yield "badsum", {"m": m, "k": list(c), "delta": delta, "pos": b % len(c)}
            b += 1


def _data(sizes, d):
    data = []
    for e, n in enumerate(sizes):
        a = np.zeros((n, d))
        a[:, 0] = e * 10**6 + np.arange(n)
        for j in range(1, d):
            a[:, j] = (a[:, 0] * (j + 1)) % 1013 + 0.25 * j
        data.append(a)
    return data


def _ratios(m, k, form):
    r = [ki / m for ki in k]
    if form == 1:
        return tuple(r)
    if form == 2:
        return np.array(r)
    return r


def _judge_uniformity(U, family, case, rec):
    from ..oracles import stats as S
    n, ratios, ns = case["n"], case["ratios"], case["n_seeds"]
    rec.case(family, case, True, key=("uniformity", n, tuple(ratios), case["base"]))
    member = None                               # member[i, f]: observation i in fold f (the order of the rows inside a fold is not part of the property)
    together = 0
    sizes = None
    data0 = np.arange(n, dtype=float).reshape(n, 1)
    for t in range(ns):
        rs = util.derive_seed("C17u", case["base"], n, t) % (2**32)
        try:
            folds = U.split_data([data0.copy()], list(ratios), random_state=rs)
        except Exception as e:
            rec.exception_violation("C17:exception-" + type(e).__name__, family, case, "split_data raised", e)
            return
        parts = [np.asarray(f[0])[:, 0].astype(int) for f in folds]
        seq = np.concatenate(parts)
        if len(seq) != n or sorted(seq.tolist()) != list(range(n)):
            return          # conservation is judged by the 'split' family
        sizes = [len(q) for q in parts]
        fold_of = np.repeat(np.arange(len(parts)), sizes)[np.argsort(seq)]
        if member is None:
            member = np.zeros((n, len(parts)), dtype=int)
        member[np.arange(n), fold_of] += 1
        together += int(fold_of[0] == fold_of[1])
    rec.count("uniformity:calls", ns)
    worst = 1.0
    for i in range(n):
        for q in range(len(sizes)):
            if sizes[q] in (0, n):
                continue
            b = S.binom_tail_bound(int(member[i, q]), ns, sizes[q] / float(n))
            worst = min(worst, b)
            if b < S.DELTA / (n * len(sizes)):
                rec.violation("C17:shuffle-not-uniform", family, case,
                              "over %d seeds observation %d of %d lands in fold %d (%d of %d rows) %d times (expected about %d; bound %.3g)"
                              % (ns, i, n, q, sizes[q], n, int(member[i, q]), int(ns * sizes[q] / float(n)), b), fold_sizes=sizes)
                return
    p_same = sum(sz * (sz - 1) for sz in sizes) / float(n * (n - 1))
    b = S.binom_tail_bound(together, ns, p_same) if 0 < p_same < 1 else 1.0
    rec.count("uniformity:cells-judged", n * len(sizes) + 1)
    if b < S.DELTA:
        rec.violation("C17:shuffle-not-uniform", family, case,
                      "over %d seeds observations 0 and 1 land in the same fold %d times (expected about %d for a uniform shuffle; bound %.3g)"
                      % (ns, together, int(ns * p_same), b), fold_sizes=sizes)


def judge(family, case, rec):
    import sempler.utils as U
    if family == "uniformity":
        _judge_uniformity(U, family, case, rec)
        return
    m, k = case["m"], case["k"]
    if family == "badsum":
        r = [ki / m for ki in k]
        r[case["pos"]] += case["delta"]
        if r[case["pos"]] < 0:
            r[case["pos"]] = abs(case["delta"])
        rec.case(family, case, True)
        data = _data([10, 7], 2)
        try:
            U.split_data(data, r)
            rec.violation("C17:no-valueerror-for-wrong-sum", family, case, "ratios %r (sum %.9g) were accepted" % (r, sum(r)))
        except ValueError:
            rec.count("rejected-as-expected")
        except Exception as e:
            rec.exception_violation("C17:wrong-sum-other-exception", family, case, "ratios not summing to 1 raised a non-ValueError", e)
        return

    sizes, d = case["sizes"], case["d"]
    ratios = _ratios(m, k, case["form"])
    nf = len(k)
    if float(np.sum(ratios)) != 1.0:
        rec.count("float-sum-not-1")
    seeds = [None, 0, 42][: 1 + case["n_seeds"]] + [util.derive_seed("C17", case["base"], tuple(sizes), m, tuple(k), i) % (2**32)
                                                   for i in range(max(0, case["n_seeds"] - 1))]
    outs = {}
    held = []
    if case["form"] == 3:
        # seeds beyond 61 / 64 bits are seeds like any other (default_rng takes arbitrary non-negative integers); they collide with
        # 0 and 42 under Python's hash() of an int (modulo 2**61 - 1) and under truncation to 64 bits
        seeds += [2**61 - 1, 2**61 + 41, 2**64, 2**64 + 42]
    for rs in seeds:
        sub = {"sizes": sizes, "m": m, "k": k, "d": d, "random_state": rs, "form": case["form"]}
        rec.case(family, sub, bool(nf >= 2 and max(sizes) >= 2), key=(tuple(sizes), m, tuple(k), d, rs, case["form"]))
        data = _data(sizes, d)
        before = [a.copy() for a in data]
        kw = {} if rs is None else {"random_state": rs}
        try:
            folds = U.split_data(data, ratios, rs) if (rs is not None and rs % 2) else U.split_data(data, ratios, **kw)
        except Exception as e:
            rec.exception_violation("C17:exception-" + type(e).__name__, family, sub,
                                    "split_data raised %s for ratios %r (exact sum 1, float sum %.17g)" % (type(e).__name__, list(map(float, ratios)), float(np.sum(ratios))), e)
            continue
        rec.count("accepted")
        if any(not np.array_equal(a, b) for a, b in zip(data, before)):
            rec.violation("C17:input-mutated", family, sub, "split_data modified the caller's arrays")
        if not isinstance(folds, list) or len(folds) != nf or any(len(f) != len(sizes) for f in folds):
            rec.violation("C17:output-structure", family, sub, "expected %d folds x %d environments, got %r" % (nf, len(sizes), [len(f) for f in folds] if isinstance(folds, list) else type(folds)))
            continue
        ok = True
        for e, n in enumerate(sizes):
            parts = [np.asarray(folds[i][e]) for i in range(nf)]
            if any(pt.ndim != 2 or pt.shape[1] != d for pt in parts):
                rec.violation("C17:fold-shape", family, sub, "environment %d: fold shapes %r" % (e, [pt.shape for pt in parts]))
                ok = False
                continue
            ids = np.concatenate([pt[:, 0] for pt in parts]) if parts else np.zeros(0)
            rec.count("rows-tracked", int(len(ids)))
            want = before[e][:, 0]
            if len(ids) < n or set(want.tolist()) - set(ids.tolist()):
                lost = sorted(set(want.tolist()) - set(ids.tolist()))
                rec.violation("C17:rows-lost", family, sub, "environment %d: %d of %d observations are in no fold (e.g. ids %s); fold sizes %s"
                              % (e, len(lost), n, lost[:5], [len(pt) for pt in parts]))
                ok = False
            elif len(ids) > n or len(set(ids.tolist())) != len(ids):
                rec.violation("C17:rows-duplicated", family, sub, "environment %d: %d rows in the folds for %d observations" % (e, len(ids), n))
                ok = False
            elif set(ids.tolist()) != set(want.tolist()):
                rec.violation("C17:rows-migrated", family, sub, "environment %d contains rows of another environment" % e)
                ok = False
            else:
                # rows intact
                allrows = np.concatenate(parts) if parts else np.zeros((0, d))
                order = np.argsort(allrows[:, 0], kind="stable")
                if not np.array_equal(allrows[order], before[e]):
                    rec.violation("C17:rows-corrupted", family, sub, "environment %d: row contents changed" % e)
                    ok = False
            # fold sizes
            remaining = n
            for i in range(nf):
                ln = len(parts[i])
                if i == nf - 1:
                    good = ln == remaining
                    exp = "the remaining %d" % remaining
                else:
                    exact = Fraction(k[i], m) * n
                    cands = [s for s in (int(exact), int(exact) + 1, int(exact) - 1) if abs(Fraction(s) - exact) <= Fraction(1, 2) and s >= 0]
                    if len(cands) > 1:
                        rec.count("tie-sizes")
                    good = any(ln == min(s, remaining) for s in cands)
                    exp = "round(%d * %d/%d) = %s (at most the remaining %d)" % (n, k[i], m, cands, remaining)
                if not good:
                    rec.violation("C17:fold-size", family, sub, "environment %d fold %d has %d rows, expected %s; all sizes %s"
                                  % (e, i, ln, exp, [len(pt) for pt in parts]))
                    ok = False
                    break
                remaining -= ln
        if ok:
            outs[rs] = folds
            held.append((rs, folds, [[np.array(a, copy=True) for a in f] for f in folds]))
        # determinism
        try:
            again = U.split_data(_data(sizes, d), ratios, **kw)
            rec.count("determinism-checked")
            same = all(np.array_equal(np.asarray(a), np.asarray(b)) for fa, fb in zip(folds, again) for a, b in zip(fa, fb))
            if not same:
                rec.violation("C17:not-deterministic", family, sub, "two calls with random_state=%r give different folds" % (rs,))
        except Exception as e:
            rec.exception_violation("C17:second-call-exception", family, sub, "the second identical call raised", e)
    # folds returned earlier belong to the caller: later calls (other seeds, same shapes) must not change them
    for (rs, folds, copies) in held:
        rec.count("earlier-folds-rechecked")
        same = all(np.array_equal(np.asarray(a), b) for f, g in zip(folds, copies) for a, b in zip(f, g))
        if not same:
            rec.violation("C17:earlier-folds-changed-by-later-call", family, case,
                          "the folds returned for random_state=%r changed after later split_data calls" % (rs,))
            break
    if held:
        rs, folds, copies = held[0]
        for f in folds:
            for a in f:
                if isinstance(a, np.ndarray) and a.size and a.flags.writeable:
                    a[...] = -1.0
        try:
            again = U.split_data(_data(sizes, d), ratios, **({} if rs is None else {"random_state": rs}))
            rec.count("repeat-after-caller-overwrote-folds")
            if not all(np.array_equal(np.asarray(a), b) for f, g in zip(again, copies) for a, b in zip(f, g)):
                rec.violation("C17:result-depends-on-overwritten-earlier-result", family, case,
                              "after the caller overwrote the folds of an earlier call, the same seeded call returns different folds")
        except Exception as e:
            rec.exception_violation("C17:repeat-exception", family, case, "repeated call raised", e)
    # shuffling: different seeds give different assignments; folds are not slices of the input order
    big = [e for e, n in enumerate(sizes) if n >= 20]
    if big and len(outs) >= 2:
        e = big[0]
        rec.count("shuffle-checked")
        seqs = []
        labels = []
        for rs, folds in outs.items():
            if rs is None:
                continue        # the default seed is documented (42): it may coincide with an explicit 42
            # the *assignment* of observations to folds (the order of the rows inside a fold is not part of the property)
            assign = np.full(sizes[e], -1)
            for i in range(nf):
                ids = (np.asarray(folds[i][e])[:, 0] - e * 10**6).astype(int)
                assign[ids] = i
            seqs.append(assign)
            labels.append(rs)
        fsz = sorted(int((seqs[0] == i).sum()) for i in range(nf)) if seqs else []
        # number of distinct assignments with these fold sizes is at least C(n, second largest fold): judged only where two seeds
        # coincide (or hit the identity) with probability below 1e-12
        log10_ways = 0.0
        if len(fsz) >= 2 and fsz[-2] >= 1:
            k_ = fsz[-2]
            log10_ways = sum(math.log10((sizes[e] - t) / (t + 1.0)) for t in range(k_))
        if log10_ways >= 12:
            same = [(labels[a], labels[b]) for a in range(len(seqs)) for b in range(a + 1, len(seqs)) if np.array_equal(seqs[a], seqs[b])]
            if same:
                rec.violation("C17:seed-ignored", family, case,
                              "environment %d (n=%d): different seeds give the very same assignment of observations to folds: %s" % (e, sizes[e], same[:3]))
            if any((np.diff(a_) >= 0).all() for a_ in seqs):
                rec.violation("C17:not-shuffled", family, case, "environment %d (n=%d): folds are consecutive slices of the input order" % (e, sizes[e]))
            rec.count("shuffle-judged")
        else:
            rec.count("shuffle:too-few-possible-assignments(not judged)")
