"""C07 - Markov equivalence classes and consistent extensions are enumerated exactly.

Monitors: post-conditions on utils.mec / utils.all_dags / utils.is_consistent_extension.
Oracle: brute-force bitmask enumeration (vf.oracles.graphs): class table of all
DAGs grouped by (skeleton, v-structures); extensions of a PDAG by enumerating the
orientations of its undirected edges.
"""
import numpy as np

from ..core import util
from ..oracles import graphs as G
from ..workloads import gmat
from . import _gc

TECHNIQUE = "runtime post-condition monitors on mec/all_dags/is_consistent_extension vs. brute-force bitmask enumeration of classes and extensions (exhaustive p<=4 quick, p<=5 thorough)"
LEVEL_TEXT = ("Every result of mec, all_dags and is_consistent_extension produced by the workload is compared as a set "
              "(duplicates detected) with an independent brute-force enumeration: all 4,173 PDAG codes and all 572 DAGs on "
              "p<=4 nodes in the quick tier, all 4^10 PDAG codes and all 29,281 DAGs at p=5 in the thorough tier, plus "
              "sampled graphs to p=8, chain graphs to p=12 (shortcut vs general path) and real-weighted copies.")
LEVEL_NOTE = ("Trusted: the brute-force oracle (it reproduces the known counts 543/185 and 29,281/8,782, reported in the "
              "evidence).  Beyond p=5 graphs are sampled with <= 12 edges / <= 10 undirected edges.")
RULE = ("cases: PDAG codes (base-4 digit per node pair) with acyclic directed part -> all_dags and is_consistent_extension "
        "for every acyclic orientation of the skeleton; DAG codes -> mec (both check_chain); chains; weighted copies; "
        "sampled larger graphs.  distinct = distinct (family, graph, weights); non-trivial = class size >= 2, or PDAG with "
        ">= 1 undirected edge, or no extension"
        ' Also: every small graph relabelled into 9..20 nodes (random and hash-hostile labels), named shapes on 6-10 nodes, presentations of the input array (see C03), minute weights, weighted canonical chains / chains plus chords (near the chain special case), graphs built from utils.chain_graph and edited in place, check_chain=False and a sufficient max_combinations, repeat after the caller overwrote the result.')
ASSUMPTIONS = ["brute-force oracle over python ints is correct (self-check: number of DAGs / classes per p recomputed each run)",
               "PDAG inputs with a cyclic directed part are outside the property's quantifier and only counted"]
EXHAUSTIVE = {"quick": True, "thorough": True}
SOFT_LIMIT = {"quick": 1200, "thorough": 5400}      # generous wall-clock watchdogs (a loaded machine must not cut a workload short); normal run times are in the evidence
REQUIRED_FUNCS = ["sempler/utils.py:mec", "sempler/utils.py:all_dags", "sempler/utils.py:is_consistent_extension"]
REQUIRED_COUNTERS = {"quick": {"all_dags:empty": 50, "all_dags:multi": 200, "ice:true": 500, "ice:false": 500, "mec:chain-shortcut": 5, "embedded:max-label>=8": 500},
                     "thorough": {"all_dags:empty": 500, "all_dags:multi": 2000, "ice:true": 5000, "ice:false": 5000, "mec:chain-shortcut": 5, "embedded:max-label>=8": 500}}

N = {"quick": {"dag5": 3000, "weighted": 1500, "sampled": 900, "chain_max": 10, "pdag5": 12000},
     "thorough": {"dag5": 0, "weighted": 100000, "sampled": 40000, "chain_max": 12, "pdag5": 0}}


def gen(tier, seed, shard, nshards):
    n = N[tier]
    for c in _gc.iter_pdag_cases((1, 2, 3, 4) if tier == "quick" else (1, 2, 3, 4, 5), shard, nshards):
        yield "pdag", c
    for c in _gc.iter_dag_cases((1, 2, 3, 4) if tier == "quick" else (1, 2, 3, 4, 5), shard, nshards):
        yield "dag", c
    for code in _gc.sample_pdag5_codes(("C07", seed), n["pdag5"], shard, nshards):
        yield "pdag", {"p": 5, "code": code}
    if n["dag5"]:
        codes = G.all_dag_codes(5)
        rng = util.rng_for("C07", seed, "dag5")
        pick = rng.choice(len(codes), n["dag5"], replace=False)
        for k, i in enumerate(pick):
            if k % nshards == shard:
                yield "dag", {"p": 5, "code3": int(codes[int(i)])}
    for p in range(1, n["chain_max"] + 1):
        if p % nshards == shard:
            yield "chain", {"p": p}
    # relabelled copies of the small graphs inside 9..13 nodes (labels >= 8 included)
    for c in _gc.iter_pdag_cases((3, 4), shard, nshards):
        yield "embedded-pdag", dict(c, P=9 + c["code"] % 5)
    for c in _gc.iter_dag_cases((3, 4), shard, nshards):
        yield "embedded-dag", dict(c, P=9 + c["code3"] % 5)

    sidx = 0
    for pp in (6, 7, 8, 9, 10):
        for name in sorted(gmat.named_shapes(pp)):
            for rep in range(4 if name.startswith("chain-") else 2):      # label-dependent effects: several relabellings of the path shapes
                if sidx % nshards == shard:
                    yield "shape-dag", {"p": pp, "shape": name, "rep": rep}
                sidx += 1
    for k in range(n["weighted"]):
        if k % nshards == shard:
            rng = util.rng_for("C07", seed, "w", k)
            out = _gc.sampled_dag(("C07", seed, "wd", k), 2, 6, max_edges=10)
            yield "weighted", {"W": gmat.weighted(rng, out)}
    for k in range(n["sampled"]):
        if k % nshards == shard:
            if k % 2:
                yield "sampled-pdag", {"masks": _gc.sampled_pdag(("C07", seed, "sp", k), 6, 12, max_und=9, max_edges=11)}
            else:
                yield "sampled-dag", {"masks": _gc.sampled_dag(("C07", seed, "sd", k), 6, 12, max_edges=11)}
    for k in range(2400 if tier == "quick" else 60000):
        if k % nshards == shard:
            yield "sampled-pdag", {"masks": _gc.dense_pdag(("C07", seed, "dense", k))}
    for k in range(96 if tier == "quick" else 2400):
        if k % nshards == shard:
            yield "sampled-dag", {"masks": _gc.dense_dag(("C07", seed, "densedag", k))}
    for k in range(800 if tier == "quick" else 20000):
        if k % nshards == shard:
            rp = _gc.ring_pdag(("C07", seed, "ring", k))
            if G.directed_part_acyclic(rp):
                yield "sampled-pdag", {"masks": rp}
    # chordless rings on 10-12 nodes, directed round the ring except for one or two edges (few undirected edges: the library's own
    # 2^u enumeration stays cheap): a criterion that only *bounds* the weight of long cycles lets the cyclic orientation through
    for k in range(32 if tier == "quick" else 400):
        if k % nshards == shard:
            rp = _gc.ring_pdag(("C07", seed, "longring", k), Lrange=(10, 13), pmax=13, styles=(1, 1, 1, 2))
            if G.directed_part_acyclic(rp) and _gc.n_undirected(rp) <= 6:
                yield "sampled-pdag", {"masks": rp}
    for k in range(n["weighted"] // 3):
        if k % nshards == shard:
            yield "weighted", {"W": _gc.near_chain(("C07", seed, "nc", k))}
    for k in range(n["weighted"] // 4):
        if k % nshards == shard:
            yield "library-chain-edited", {"k": k, "seed": seed}


def _check_all_dags(U, out, family, case, rec, key):
    P = gmat.hostile_array(gmat.to_np(out), sum(out) + len(out))
    want = set(tuple(g) for g in G.extensions(out))
    und = _gc.n_undirected(out)
    rec.case(family, case, bool(und >= 1 or len(want) != 1), key=key)
    if (sum(out) + len(out)) % 5 == 3:
        # history across routines: related routines asked about the same graph first, their results overwritten by the caller
        _gc.scribble_related(U, gmat.to_np(out), rec, ("pdag_to_dag", "maximally_orient", "only_directed", "only_undirected", "skeleton"))
    try:
        res = U.all_dags(P)
        lst, got = _gc.result_set(res)
    except Exception as e:
        rec.exception_violation("C07:all_dags-exception", family, case, "all_dags raised %s" % type(e).__name__, e)
        return want
    rec.count("all_dags:empty" if not want else ("all_dags:multi" if len(want) > 1 else "all_dags:single"))
    if (sum(out) + len(out)) % 8 == 3:
        # a sufficient max_combinations must not change the answer
        try:
            l2, g2 = _gc.result_set(U.all_dags(gmat.to_np(out), max_combinations=2 ** und) if und % 2 else U.all_dags(gmat.to_np(out), 2 ** und))
            rec.count("keyword:max_combinations")
            if g2 != got or len(l2) != len(lst):
                rec.violation("C07:all_dags-max_combinations-changes-result", family, case,
                              "all_dags(P, max_combinations=2**%d) returns %d graphs, without the argument %d" % (und, len(l2), len(lst)), pdag=_gc.rows(out))
        except Exception as e:
            rec.exception_violation("C07:all_dags-max_combinations-exception", family, case, "all_dags raised with a sufficient max_combinations", e)
    if want and (sum(out) + len(out)) % 4 == 0:
        _gc.repeat_after_overwrite(rec, family, case, "C07", "all_dags", U.all_dags, (gmat.to_np(out),), res)
    rec.max("all_dags:max-extensions", len(want))
    diff = _gc.compare_sets(lst, got, want)
    if diff:
        rec.violation("C07:all_dags-" + diff["kind"], family, case,
                      "all_dags returned %d graphs, the PDAG has %d consistent extensions" % (len(lst), len(want)),
                      pdag=_gc.rows(out), **diff)
    return want


def _check_ice(U, out, want, family, case, rec, extra_rng=None):
    """is_consistent_extension(G, P) for every acyclic orientation G of P's skeleton."""
    P = gmat.to_np(out)
    parts = G.Parts(out)
    skel = [parts.adj[i] for i in range(parts.p)]
    und_pairs = [(i, j) for (i, j) in G.pairs(parts.p) if (skel[i] >> j) & 1]
    cands = []
    if len(und_pairs) <= 6:
        for choice in range(1 << len(und_pairs)):
            g = [0] * parts.p
            for k, (i, j) in enumerate(und_pairs):
                if (choice >> k) & 1:
                    g[j] |= 1 << i
                else:
                    g[i] |= 1 << j
            if not G.has_cycle(g):
                cands.append(g)
    else:
        cands = [list(w) for w in list(want)[:8]]
    if extra_rng is not None and parts.p >= 2:
        for _ in range(2):   # DAGs with another skeleton: must be rejected
            g = gmat.random_dag_masks(extra_rng, parts.p)
            cands.append(g)
    wrng = util.rng_for("C07ice", tuple(out))
    for gi, g in enumerate(cands):
        expect = tuple(g) in want
        # the candidate DAG as 0/1 matrix or (one in three) as a real weight matrix of any sign: only its non-zero pattern may matter
        Garg = gmat.to_np(g) if (gi + parts.p) % 3 else gmat.weighted(wrng, g, ("signed", "tiny", "int")[gi % 3], dtype=int if gi % 3 == 2 else float)
        if (gi + parts.p) % 3 == 0:
            rec.count("ice:weighted-candidate")
        try:
            r = U.is_consistent_extension(Garg, P)
        except Exception as e:
            rec.exception_violation("C07:ice-exception", family, case, "is_consistent_extension raised", e)
            continue
        rec.count("ice:true" if expect else "ice:false")
        if bool(r) != expect:
            rec.violation("C07:ice-wrong-" + ("accepts" if r else "rejects"), family, case,
                          "is_consistent_extension=%s, brute force says %s" % (bool(r), expect),
                          pdag=_gc.rows(out), dag=_gc.rows(g))


def _check_mec(U, out, family, case, rec, key, A=None, chain_variants=(True,)):
    want = set(tuple(g) for g in G.mec_of(out))
    rec.case(family, case, len(want) >= 2, key=key)
    rec.max("mec:max-class-size", len(want))
    if A is None:
        A = gmat.to_np(out)
    if (sum(out) + len(out)) % 5 == 1 or chain_variants != (True,):
        _gc.scribble_related(U, A, rec, ("dag_to_cpdag", "chain_graph_MEC", "all_dags"))     # not chain_graph: the library-chain-edited family edits those arrays in a realistic way; wiping them here would hide what it looks for
    if chain_variants == (True,) and (sum(out) + len(out)) % 6 == 2:
        chain_variants = (True, False)      # check_chain=False must give the same class for every graph
        rec.count("keyword:check_chain=False")
    for cc in chain_variants:
        try:
            if len(out) % 2 and cc is not True:
                res = U.mec(A, cc)         # the second parameter given positionally
                rec.count("call-form:positional")
            else:
                res = U.mec(A, check_chain=cc) if cc is not True else U.mec(A)
            lst, got = _gc.result_set(res)
        except Exception as e:
            rec.exception_violation("C07:mec-exception", family, case, "mec raised %s" % type(e).__name__, e)
            continue
        rec.count("mec:calls")
        if cc is True and (sum(out) + len(out)) % 4 == 1:
            _gc.repeat_after_overwrite(rec, family, case, "C07", "mec", U.mec, (np.array(A, copy=True),), res)
        diff = _gc.compare_sets(lst, got, want)
        if diff:
            rec.violation("C07:mec-%s%s" % (diff["kind"], "" if cc else "-general-path"), family, case,
                          "mec(check_chain=%s) returned %d graphs, the class has %d members" % (cc, len(lst), len(want)),
                          dag=_gc.rows(out), **diff)


def setup(rec):
    G.self_check()
    rec.count("oracle:self-check-passed")
    # oracle self-check, reported in the evidence
    for p in (3, 4):
        rec.add("oracle:dags/classes", "p=%d: %d DAGs in %d classes" % (p, len(G.all_dag_codes(p)), len(G.class_table(p))))
    if rec.tier == "thorough":
        rec.add("oracle:dags/classes", "p=5: %d DAGs in %d classes" % (len(G.all_dag_codes(5)), len(G.class_table(5))))
    if len(G.all_dag_codes(4)) != 543 or len(G.class_table(4)) != 185:
        raise RuntimeError("oracle self-check failed")


def judge(family, case, rec):
    import sempler.utils as U
    if family == "pdag":
        out = G.pdag_from_code(case["p"], case["code"])
        if not G.directed_part_acyclic(out):
            rec.count("out_of_domain:cyclic-directed-part")
            return
        key = (case["p"], case["code"])
        want = _check_all_dags(U, out, family, case, rec, key)
        _check_ice(U, out, want, family, case, rec, util.rng_for("C07x", case["p"], case["code"]) if case["code"] % 7 == 0 else None)
    elif family == "embedded-pdag":
        small = G.pdag_from_code(case["p"], case["code"])
        if not G.directed_part_acyclic(small) or G.n_edges(small) < 2:
            return
        out = gmat.embed_any(small, case["P"], util.rng_for("C07e", case["p"], case["code"]), case.get("code", case.get("code3", 0)) // 2)
        rec.count("embedded:max-label>=8" if any(out[i] or G.transpose(out)[i] for i in range(8, len(out))) else "embedded:labels<8")
        want = _check_all_dags(U, out, family, case, rec, ("e", case["p"], case["code"]))
        _check_ice(U, out, want, family, case, rec)
    elif family == "embedded-dag":
        small = G.dag_from_code3(case["p"], case["code3"])
        if G.n_edges(small) < 2:
            return
        out = gmat.embed_any(small, case["P"], util.rng_for("C07e", case["p"], case["code3"]), case.get("code", case.get("code3", 0)) // 2)
        rec.count("embedded:max-label>=8" if any(out[i] or G.transpose(out)[i] for i in range(8, len(out))) else "embedded:labels<8")
        _check_mec(U, out, family, case, rec, ("e", case["p"], case["code3"]))
    elif family == "sampled-pdag":
        out = list(case["masks"])
        want = _check_all_dags(U, out, family, case, rec, None)
        _check_ice(U, out, want, family, case, rec)
    elif family == "dag":
        out = G.dag_from_code3(case["p"], case["code3"])
        A = gmat.to_np(out, dtype=float)
        is_chain = (A == np.eye(case["p"], k=1)).all()
        if is_chain:
            rec.count("mec:chain-shortcut")
        _check_mec(U, out, family, case, rec, (case["p"], case["code3"]), A=A,
                   chain_variants=(True, False) if is_chain else (True,))
    elif family == "sampled-dag":
        out = list(case["masks"])
        _check_mec(U, out, family, case, rec, None)
    elif family == "shape-dag":
        out0 = gmat.named_shapes(case["p"])[case["shape"]]
        if G.n_edges(out0) > 12:
            return
        out = gmat.relabel(out0, util.rng_for("shape", case["p"], case["shape"], case["rep"])) if case["rep"] else list(out0)
        rec.count("shapes:" + case["shape"])
        _check_mec(U, out, family, case, rec, ("shape", case["p"], case["shape"], case["rep"]), chain_variants=(True, False))
        # every member's CPDAG (as a PDAG) has exactly the class as extensions
        ess = G.union_graph(G.mec_of(out), len(out))
        _check_all_dags(U, ess, family, dict(case, essential=True), rec, ("shape-ess", case["p"], case["shape"], case["rep"]))
    elif family == "chain":
        p = case["p"]
        out = [(1 << (i + 1)) if i + 1 < p else 0 for i in range(p)]
        rec.count("mec:chain-shortcut")
        # oracle for a chain: p members (root at each position)
        want = set()
        for r in range(p):
            g = [0] * p
            for j in range(r, 0, -1):
                g[j] |= 1 << (j - 1)
            for j in range(r, p - 1):
                g[j] |= 1 << (j + 1)
            want.add(tuple(g))
        if p <= 5 and want != set(tuple(g) for g in G.mec_of(out)):
            raise RuntimeError("chain oracle disagrees with class table")
        rec.case(family, case, p >= 2, key=("chain", p))
        A = gmat.to_np(out, dtype=float)
        for cc in (True, False):
            try:
                lst, got = _gc.result_set(U.mec(A, check_chain=cc))
            except Exception as e:
                rec.exception_violation("C07:mec-exception", family, case, "mec raised on a chain", e)
                continue
            diff = _gc.compare_sets(lst, got, want)
            if diff:
                rec.violation("C07:mec-chain-%s-%s" % ("shortcut" if cc else "general", diff["kind"]), family, case,
                              "mec(chain p=%d, check_chain=%s): %d graphs, expected %d" % (p, cc, len(lst), p), **diff)
    elif family == "library-chain-edited":
        A = _gc.library_chain_edited(U, ("C07lc", case["seed"], case["k"]))
        rec.count("graphs-built-from-library-chain_graph")
        _check_mec(U, gmat.masks(A), family, case, rec, None, A=A, chain_variants=(True, False))
    elif family == "weighted":
        W = case["W"]
        out = gmat.masks(W)
        _check_mec(U, out, family, case, rec, None, A=W)
        # all_dags must also accept the weighted DAG as a PDAG without undirected edges
        rec.count("weighted:negative-entries" if (W < 0).any() else "weighted:positive-only")
    else:
        raise RuntimeError("unknown family " + family)
