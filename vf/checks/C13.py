"""C13 - seeded calls are reproducible regardless of history.

Monitor: a history monitor.  A small interpreter executes
``target; perturbation*; target; perturbation*; target`` where target is one seeded
API call and the perturbations are arbitrary other uses of numpy's generators and
of the library (reseeding the global generator, drawing from it, restoring other
states, unseeded / differently seeded library calls, noise-factory calls).  The
three results must be bit-identical (SHA-256 of dtype, shape, bytes).  Targets are
also executed in a *fresh interpreter* (empty history).  A probe of
numpy.random.get_state() records which APIs consume the global stream (evidence).
Unseeded sampling calls must differ from one another.
"""
import json
import os
import subprocess
import sys

import numpy as np

from ..core import util, env
from ..workloads import gmat

TECHNIQUE = "runtime history monitor: identical seeded calls separated by random perturbation programs (global reseeding, draws, state restores, other library calls) must be bit-identical, also against a fresh-interpreter replay; global-RNG-state probe"
LEVEL_TEXT = ("Hundreds (quick) / thousands (thorough) of random call histories over all twelve seeded entry points named by the "
              "property (LGANM construction with sampled parameters, LGANM / NormalDistribution / ANM sampling with the library's "
              "noise factories, dag_avg_deg, dag_full, intervention_targets, split_data, add_edges, remove_edges) with seeds "
              "{0, 1, 42, 2^32-1, random}: the same seeded call is executed three times in one process with perturbations in "
              "between, and once in a fresh interpreter; all digests must agree.  Consecutive unseeded sampling calls must differ.")
LEVEL_NOTE = "Histories are sampled (length 5-12); the alphabet of perturbations is the checker's."
RULE = ("cases: (target call with arguments and seed, perturbation program).  distinct = distinct canonical case; non-trivial = the "
        "program contains at least one perturbation that reseeds or advances numpy's global generator"
        ' Also: numpy-integer and positional seeds, one-variable models, dag_avg_deg up to k = p-1, calls on the *same object* with the same seed and targets but other parameter values before and between the judged calls, failing library calls as perturbations, comparison with a freshly built twin, 150-call histories.')
ASSUMPTIONS = ["bit-identity is judged on SHA-256 of (dtype, shape, bytes) of every returned array / nested list"]
EXHAUSTIVE = {"quick": False, "thorough": False}
SOFT_LIMIT = {"quick": 1200, "thorough": 5400}      # generous wall-clock watchdogs (a loaded machine must not cut a workload short); normal run times are in the evidence
TARGETS = ["lganm_ctor", "lganm_sample", "nd_sample", "anm_sample", "dag_avg_deg", "dag_full", "intervention_targets", "split_data",
           "add_edges", "remove_edges"]
REQUIRED_FUNCS = ["sempler/lganm.py:LGANM.__init__", "sempler/lganm.py:LGANM.sample", "sempler/normal_distribution.py:NormalDistribution.sample",
                  "sempler/anm.py:ANM.sample", "sempler/generators.py:dag_avg_deg", "sempler/generators.py:dag_full",
                  "sempler/generators.py:intervention_targets", "sempler/utils.py:split_data", "sempler/utils.py:add_edges",
                  "sempler/utils.py:remove_edges"]
REQUIRED_COUNTERS = {"quick": dict([("target:" + t, 200) for t in TARGETS] + [("seed:0", 400), ("fresh-process-replays", 60), ("unseeded-pairs", 500),
                                                                              ("perturbation:reseed-global", 1000), ("perturbation:library-call", 1000)]),
                     "thorough": dict([("target:" + t, 3000) for t in TARGETS] + [("seed:0", 6000), ("fresh-process-replays", 600), ("unseeded-pairs", 5000),
                                                                                 ("perturbation:reseed-global", 10000), ("perturbation:library-call", 10000)])}
N = {"quick": {"hist": 4000, "fresh": 96}, "thorough": {"hist": 300000, "fresh": 1600}}
SEED_POOL = [0, 1, 42, 2**32 - 1]


# ---------------------------------------------------------------------------
# targets

def make_target(rng, kind):
    """JSON-able description of one seeded API call."""
    p = int(rng.integers(1, 7))
    out = gmat.random_dag_masks(rng, p)
    W = gmat.weighted(rng, out, "signed")
    s = int(SEED_POOL[int(rng.integers(4))]) if rng.random() < 0.6 else int(rng.integers(0, 2**32))
    t = {"kind": kind, "seed": s, "W": W, "np_seed": int(rng.integers(1, 5)) if rng.random() < 0.25 else 0,
         "positional": bool(rng.random() < 0.3)}
    if kind == "lganm_ctor":
        t.update(means=(-1.0, 2.0), variances=(0.5, 1.5))
    elif kind in ("lganm_sample", "anm_sample"):
        t.update(means=np.round(rng.uniform(-2, 2, p), 2), variances=np.round(rng.uniform(0.2, 2, p), 2), n=int(rng.integers(1, 40)),
                 do={int(rng.integers(p)): [(1.0, 0.5), (1.5, 0.0), (-1.0, 1.0), (-2, 2.0)][int(rng.integers(4))]} if rng.random() < 0.6 else {},
                 shift={int(rng.integers(p)): (0.5, 0.25)} if rng.random() < 0.5 else {},
                 noises=[["normal", "uniform", "laplace"][int(x)] for x in rng.integers(0, 3, p)])
        if kind == "anm_sample" and t["seed"] >= 2**32:
            t["seed"] = 7
    elif kind == "nd_sample":
        B = rng.normal(size=(p, p))
        t.update(mean=np.round(rng.uniform(-2, 2, p), 2), cov=B @ B.T + 0.1 * np.eye(p), n=int(rng.integers(1, 40)))
    elif kind == "dag_avg_deg":
        pp = int(rng.integers(2, 12))
        t.update(p=pp, k=float(np.round(rng.uniform(0, min(1.5, pp - 1)), 2)) if rng.random() < 0.7 else float(rng.choice([0, pp - 1, pp - 1.0, (pp - 1) / 2.0])),      # k <= p - 1: an edge probability
                 w=(0.5, 2.0), ordering=bool(rng.random() < 0.5))
    elif kind == "dag_full":
        t.update(p=int(rng.integers(1, 9)), w=(-2.0, -0.5), ordering=bool(rng.random() < 0.5))
    elif kind == "intervention_targets":
        pp = int(rng.integers(3, 12))
        t.update(p=pp, K=int(rng.integers(1, 5)), size=(0, min(3, pp)), replace=bool(rng.random() < 0.5))
        if not t["replace"]:
            t["K"] = max(1, min(t["K"], pp // 3))
    elif kind == "split_data":
        t.update(sizes=[int(x) for x in rng.integers(3, 30, int(rng.integers(1, 4)))], ratios=[0.5, 0.3, 0.2])
    elif kind in ("add_edges", "remove_edges"):
        E = int((W != 0).sum())
        cap = E if kind == "remove_edges" else p * (p - 1) // 2 - E
        t.update(count=int(rng.integers(0, cap + 1)))
    return t


def run_target(t, seeded=True):
    """Execute the described call against the library; returns a digest string."""
    return prepare(t)(seeded)


def prepare(t):
    """Build the objects of the described call once (models are re-used by the calls of one history, so that
    state kept on the object - a cache, a stored generator - is part of the history) and return call(seeded)."""
    import sempler
    import sempler.noise as noise
    import sempler.generators as gens
    import sempler.utils as U
    k = t["kind"]
    W = t["W"]
    obj = {}
    if k == "lganm_sample":
        obj["m"] = sempler.LGANM(W, t["means"], t["variances"])
    elif k == "nd_sample":
        obj["d"] = sempler.NormalDistribution(t["mean"], t["cov"])
    elif k == "anm_sample":
        p = len(W)
        assigns = []
        for i in range(p):
            pa = [j for j in range(p) if W[j, i] != 0]
            assigns.append((lambda x, w=W[pa, i].copy(): np.tanh(x @ w)) if pa else None)
        mk = {"normal": lambda i: noise.normal(float(t["means"][i]), float(t["variances"][i])),
              "uniform": lambda i: noise.uniform(float(t["means"][i]) - 1, float(t["means"][i]) + 1),
              "laplace": lambda i: noise.laplace(float(t["means"][i]), float(t["variances"][i]))}
        nz = [mk[t["noises"][i]](i) for i in range(p)]
        obj["a"] = sempler.ANM(W, assigns, nz)
        obj["do"] = {j: noise.normal(v[0], v[1]) for j, v in t["do"].items()}
        obj["sh"] = {j: noise.uniform(v[0], v[0] + v[1]) for j, v in t["shift"].items()}

    if k == "anm_sample":
        obj["do2"] = {j: noise.normal(v[0] + 1.5, v[1] * 2 + 0.1) for j, v in t["do"].items()}
        obj["sh2"] = {j: noise.uniform(v[0] - 0.7, v[0] + v[1] + 0.3) for j, v in t["shift"].items()}

    def call(seeded=True, variant=False):
        if variant:
            o2 = dict(obj)
            if "do2" in obj:
                o2["do"], o2["sh"] = obj["do2"], obj["sh2"]
            v = _variant(t)
            if variant == "kinds" and "do" in t:
                # ... or with other *kinds* of intervention on other targets: a do-intervention where the judged call has none,
                # none where it has one (what a model computes once and keeps must not depend on which question came first)
                p_ = len(t["W"])
                if t["do"]:
                    v["do"], o2["do"] = {}, {}
                else:
                    j = (t["seed"] + 1) % p_
                    v["do"] = {j: (2.0, 0.7)}
                    if "a" in obj:
                        o2["do"] = {j: noise.normal(2.0, 0.7)}
                v["shift"] = {} if t["shift"] else {(t["seed"] + 2) % p_: (0.3, 0.2)}
                if "a" in obj:
                    o2["sh"] = {j2: noise.uniform(w[0], w[0] + w[1]) for j2, w in v["shift"].items()}
            return _call(v, o2, seeded, sempler, gens, U)
        return _call(t, obj, seeded, sempler, gens, U)
    return call


def _variant(t):
    """The same call with the same seed and the same intervention *targets* but other parameter values / another n:
    used as a perturbation on the very object the target call uses (state kept per object or per argument 'shape')."""
    v = dict(t)
    if "do" in t:
        # other values on the same targets; -1 <-> -2 only (their Python hashes collide: a cache keyed on hash(...) confuses them)
        v["do"] = {j: ((p[0] + 1.5, p[1] * 2 + 0.1) if p[0] not in (-1, -2) else (type(p[0])(-3 - p[0]), p[1])) for j, p in t["do"].items()}
        v["shift"] = {j: (p[0] - 0.7, p[1] + 0.3) for j, p in t["shift"].items()}
    if "n" in t and not t.get("do") and not t.get("shift"):
        v["n"] = t["n"] + 1
    if "w" in t:
        v["w"] = (t["w"][0] * 0.5, t["w"][1] * 1.5) if t["w"][0] > 0 else (t["w"][0] * 1.5, t["w"][1] * 0.5)
    if "ratios" in t:
        v["ratios"] = [0.2, 0.3, 0.5]
    if "count" in t:
        v["count"] = max(0, t["count"] - 1)
    if "means" in t and isinstance(t["means"], tuple):
        v["means"] = (t["means"][0] - 1, t["means"][1] + 1)
    return v


def _call(t, obj, seeded, sempler, gens, U):
    s = t["seed"] if seeded else None
    if s is not None and t.get("np_seed"):
        s = (np.int64, np.int32, np.uint32, np.uint8)[t["np_seed"] - 1](s % (2**31 if t["np_seed"] == 2 else (256 if t["np_seed"] == 4 else 2**32)))
    k = t["kind"]
    W = t["W"]
    if k == "lganm_ctor":
        m = sempler.LGANM(W, tuple(t["means"]), tuple(t["variances"]), random_state=s)
        res = [m.means, m.variances]
    elif k == "lganm_sample":
        if t.get("positional") and s is not None:
            res = obj["m"].sample(t["n"], False, t["do"], t["shift"], {}, s)        # every argument given by position
        else:
            res = obj["m"].sample(t["n"], do_interventions=t["do"], shift_interventions=t["shift"], random_state=s)
    elif k == "nd_sample":
        res = obj["d"].sample(t["n"], s) if t.get("positional") and s is not None else obj["d"].sample(t["n"], random_state=s)
    elif k == "anm_sample":
        if t.get("positional") and s is not None:
            res = obj["a"].sample(t["n"], obj["do"], obj["sh"], {}, s)
        else:
            res = obj["a"].sample(t["n"], do_interventions=obj["do"], shift_interventions=obj["sh"], random_state=s)
    elif k == "dag_avg_deg":
        res = gens.dag_avg_deg(t["p"], t["k"], t["w"][0], t["w"][1], return_ordering=t["ordering"], random_state=s)
    elif k == "dag_full":
        res = gens.dag_full(t["p"], t["w"][0], t["w"][1], return_ordering=t["ordering"], random_state=s)
    elif k == "intervention_targets":
        res = gens.intervention_targets(t["p"], t["K"], tuple(t["size"]), replace=t["replace"], random_state=s)
        res = [[int(v) for v in iv] for iv in res]
    elif k == "split_data":
        data = [np.arange(n * 2, dtype=float).reshape(n, 2) + 1000 * e for e, n in enumerate(t["sizes"])]
        res = U.split_data(data, t["ratios"], random_state=s) if seeded else U.split_data(data, t["ratios"])
    elif k == "add_edges":
        res = U.add_edges(W, t["count"], random_state=s) if seeded else U.add_edges(W, t["count"])
    elif k == "remove_edges":
        res = U.remove_edges(W, t["count"], random_state=s) if seeded else U.remove_edges(W, t["count"])
    else:
        raise RuntimeError(k)
    return deep_digest(res)


def deep_digest(o):
    if isinstance(o, np.ndarray):
        return "nd:" + util.array_digest(o)
    if isinstance(o, (list, tuple)):
        return type(o).__name__ + "[" + ",".join(deep_digest(x) for x in o) + "]"
    return repr(o)


# ---------------------------------------------------------------------------
# perturbations

def run_failing_call(which):
    """Library calls that raise (and are caught by the caller): whatever they leave behind must not matter."""
    import sempler
    import sempler.utils as U
    import sempler.generators as gens
    cyc = np.array([[0, 1.0], [1.0, 0]])
    calls = [
        lambda: sempler.LGANM(cyc, (0, 1), (0, 1), random_state=3),
        lambda: sempler.LGANM(np.zeros((2, 2)), np.zeros(3), np.ones(2)),
        lambda: sempler.ANM(cyc, [None, None], [None, None]),
        lambda: sempler.NormalDistribution([0, 0], np.eye(3)),
        lambda: sempler.NormalDistribution([0, 0], np.eye(2)).conditional([0], [0, 1], [0.0, 1.0]),
        lambda: sempler.LGANM(np.zeros((2, 2)), np.zeros(2), np.ones(2)).sample(3, do_interventions={0: "x"}, random_state=1),
        lambda: gens.intervention_targets(3, 2, 5, random_state=2),
        lambda: gens.intervention_targets(3, 4, 1, replace=False, random_state=2),
        lambda: U.split_data([np.zeros((4, 2))], [0.5, 0.6], random_state=4),
        lambda: U.add_edges(np.zeros((2, 2)), 9, random_state=1),
        lambda: U.remove_edges(np.zeros((2, 2)), 1, random_state=1),
        lambda: U.separates({0}, {0}, {1}, np.zeros((2, 2))),
        lambda: U.pdag_to_dag(np.array([[0, 1, 0, 1], [1, 0, 1, 0], [0, 1, 0, 1], [1, 0, 1, 0]])),
        lambda: U.pdag_to_icpdag(np.array([[0, 1, 0, 0], [0, 0, 0, 0], [0, 0, 0, 1], [0, 0, 1, 0]]), {0, 2}),
        lambda: U.mec(cyc),
        lambda: U.all_dags(np.array([[0, 1, 1], [1, 0, 1], [1, 1, 0]]), max_combinations=2),
    ]
    try:
        calls[which % len(calls)]()
        return False
    except Exception:
        return True


def make_perturbation(rng):
    c = int(rng.integers(0, 9))
    if c == 8:
        return {"op": "failing-call", "v": int(rng.integers(0, 64))}
    if c == 0:
        return {"op": "reseed-global", "v": int(rng.integers(0, 2**32))}
    if c == 1:
        return {"op": "draw-global", "v": int(rng.integers(1, 200))}
    if c == 2:
        return {"op": "set-state", "v": int(rng.integers(0, 10**6))}
    if c == 3:
        return {"op": "fresh-default-rng", "v": int(rng.integers(0, 10**6))}
    if c == 4:
        return {"op": "noise-factory", "v": int(rng.integers(1, 50))}
    kind = TARGETS[int(rng.integers(len(TARGETS)))]
    return {"op": "library-call", "target": make_target(rng, kind), "seeded": bool(rng.random() < 0.5)}


def run_perturbation(pt):
    import sempler.noise as noise
    op = pt["op"]
    if op == "reseed-global":
        np.random.seed(pt["v"])
    elif op == "draw-global":
        np.random.normal(size=pt["v"])
        np.random.uniform()
    elif op == "set-state":
        np.random.set_state(np.random.RandomState(pt["v"]).get_state())
    elif op == "fresh-default-rng":
        np.random.default_rng(pt["v"]).normal(size=3)
    elif op == "noise-factory":
        noise.normal(1, 2)(pt["v"])
        noise.laplace()(3)
    elif op == "failing-call":
        run_failing_call(pt["v"])
    else:
        try:
            run_target(pt["target"], seeded=pt["seeded"])
        except Exception:
            pass


def gen(tier, seed, shard, nshards):
    cfg = N[tier]
    for k in range(cfg["hist"]):
        if k % nshards != shard:
            continue
        rng = util.rng_for("C13", seed, "h", k)
        kind = TARGETS[k % len(TARGETS)]
        target = make_target(rng, kind)
        if (k // len(TARGETS)) % 5 == 0:
            target["seed"] = 0
        progs = [[make_perturbation(rng) for _ in range(int(rng.integers(1, 5)))] for _ in range(2)]
        step = (cfg["hist"] // cfg["fresh"]) | 1
        yield "history", {"target": target, "programs": progs, "fresh": bool(k % step == 0)}
    for k in range(len(TARGETS) * (2 if tier == "quick" else 12)):
        if k % nshards != shard:
            continue
        rng = util.rng_for("C13", seed, "long", k)
        yield "long-history", {"target": make_target(rng, TARGETS[k % len(TARGETS)]), "repeats": 150}
    for k in range(cfg["hist"] // 4):
        if k % nshards != shard:
            continue
        rng = util.rng_for("C13", seed, "u", k)
        kind = ["lganm_sample", "nd_sample", "anm_sample"][k % 3]
        t = make_target(rng, kind)
        if t.get("do"):
            # a point-mass do on the only variable makes the law degenerate: identical unseeded samples would be legitimate
            t["do"] = {j: (v[0], v[1] if v[1] > 0 else 0.5) for j, v in t["do"].items()}
        yield "unseeded", {"target": t, "reseed": None}


def _fresh_digest(target):
    """Run the target in a fresh interpreter (empty history)."""
    spec = json.dumps(util.enc(target))
    code = ("import sys, json; sys.path.insert(0, %r); from vf.core import env, util; env.bootstrap(); "
            "from vf.checks import C13; t = util.dec(json.loads(sys.stdin.read())); print('DIGEST=' + C13.run_target(t))" % env.VERIF_ROOT)
    # another interpreter, another hash salt: a result may not depend on the process it is computed in (hash("...") of a string is
    # salted per process unless PYTHONHASHSEED fixes it)
    e_ = dict(env.child_env())
    e_["PYTHONHASHSEED"] = str((int(e_.get("PYTHONHASHSEED", "0") or 0) + 1 + util.derive_seed("C13hs", spec) % 4000) % 4294967295 or 1)
    cp = subprocess.run([sys.executable, "-c", code], input=spec, capture_output=True, text=True, timeout=300, env=e_)
    for line in cp.stdout.splitlines():
        if line.startswith("DIGEST="):
            return line[len("DIGEST="):]
    raise RuntimeError("fresh interpreter failed: " + cp.stderr[-1500:])


def judge(family, case, rec):
    target = case["target"]
    kind = target["kind"]
    if family == "unseeded":
        rec.case(family, case, True)
        rec.count("unseeded-pairs")
        try:
            call = prepare(target)
            a = call(False)
            b = call(False)
        except Exception as e:
            rec.exception_violation("C13:unseeded-exception", family, case, "unseeded %s raised" % kind, e)
            return
        if a == b and target.get("n", 1) >= 1:
            rec.violation("C13:unseeded-calls-identical-" + kind, family, case, "two consecutive unseeded %s calls returned identical samples" % kind)
        return
    if family == "long-history":
        # the 150th call must still answer like the first
        rec.case(family, case, True)
        try:
            call = prepare(target)
            first = call(True)
            for r in range(case["repeats"]):
                if r % 10 == 3:
                    call(False)
                if r % 25 == 7:
                    run_failing_call(r)
                d = call(True)
                if d != first:
                    rec.violation("C13:not-reproducible-after-many-calls-" + kind, family, case,
                                  "%s with random_state=%d: call number %d on the same object differs from the first" % (kind, target["seed"], r + 2))
                    return
            rec.count("long-history:calls", case["repeats"])
        except Exception as e:
            rec.exception_violation("C13:target-exception-" + kind, family, case, "seeded %s raised in a long history" % kind, e)
        return
    rec.count("target:" + kind)
    if target.get("np_seed"):
        rec.count("seed:numpy-integer-scalar")
    if target.get("positional") and kind in ("lganm_sample", "nd_sample", "anm_sample"):
        rec.count("seed:passed-positionally")
    if target["seed"] == 0:
        rec.count("seed:0")
    ops = [pt["op"] for prog in case["programs"] for pt in prog]
    for o in ops:
        rec.count("perturbation:" + o)
    rec.case(family, case, any(o in ("reseed-global", "draw-global", "set-state", "noise-factory", "library-call") for o in ops))
    digests = []
    try:
        call = prepare(target)
        if target["seed"] % 2 == 0 or kind in ("lganm_sample", "anm_sample"):
            # history *before* the first target call: same object, same seed and targets, other parameter values
            try:
                if target["seed"] % 3 == 0 or kind == "lganm_sample" and target["seed"] % 3 == 1:
                    call(True, variant="kinds")
                    rec.count("perturbation:same-object-other-kinds-first")
                else:
                    call(True, variant=True)
                rec.count("perturbation:same-object-variant-first")
            except Exception:
                rec.count("perturbation:same-object-variant-raised")
        for step in range(3):
            st0 = np.random.get_state()[1].tobytes()
            digests.append(call(True))
            if np.random.get_state()[1].tobytes() != st0:
                rec.add("apis-that-touch-the-global-generator", kind)
            if step < 2:
                for pt in case["programs"][step]:
                    run_perturbation(pt)
                # the same object / function called with the same seed and targets but other parameter values
                try:
                    call(True, variant=("kinds" if step == 1 else True))
                    rec.count("perturbation:same-object-variant")
                except Exception:
                    rec.count("perturbation:same-object-variant-raised")
    except Exception as e:
        rec.exception_violation("C13:target-exception-" + kind, family, case, "seeded %s raised %s" % (kind, type(e).__name__), e)
        return
    try:
        digests.append(prepare(target)(True))       # a freshly built twin object, same process
    except Exception as e:
        rec.exception_violation("C13:target-exception-" + kind, family, case, "seeded %s raised on a fresh twin" % kind, e)
        return
    if len(set(digests)) != 1:
        which = 1 if digests[0] != digests[1] else (2 if digests[1] != digests[2] else 2)
        rec.violation("C13:not-reproducible-" + kind, family, case,
                      "%s with random_state=%d gave a different result after perturbation program %d: %s"
                      % (kind, target["seed"], which, [pt["op"] for pt in case["programs"][which - 1]]))
        return
    if case.get("fresh"):
        rec.count("fresh-process-replays")
        fd = _fresh_digest(target)
        if fd != digests[0]:
            rec.violation("C13:differs-from-fresh-process-" + kind, family, case,
                          "%s with random_state=%d gives a different result in a fresh interpreter than after a history in this one" % (kind, target["seed"]))
