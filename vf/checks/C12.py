"""C12 - sampled intervention targets respect size, range and disjointness.

Monitor: post-condition and exception contract on generators.intervention_targets
over the full small parameter grid, plus coverage monitors over seeds (every size
of the range and every variable occurs).
"""
import numpy as np

from ..core import util
from ..oracles import stats as S

TECHNIQUE = "runtime post-condition / exception-contract monitor on intervention_targets over the full grid p<=7, K<=9, all sizes and ranges, both replace modes; coverage monitors over seeds with union bounds"
LEVEL_TEXT = ("For every combination of p in 1..7, K in 0..9, integer size 0..p+1 and every range 0<=lo<=hi<=p+1, with and without "
              "replacement and several seeds, the result must be K lists of distinct in-range variables of admissible length, pairwise "
              "disjoint without replacement, and ValueError must be raised exactly for max size > p, a tuple not of length two, or an "
              "impossible disjoint draw (any other exception, or a missing one, is a violation).  Boundary cells are repeated over "
              "hundreds of seeds and must show every size of the range and every variable.")
LEVEL_NOTE = "Coverage clauses asserted only where the union bound for a missing value is < 1e-12 at the number of seeds used."
RULE = ("cases: one call = (p, K, size, replace, seed).  distinct = distinct argument tuple; non-trivial = K >= 1 and max size >= 1 "
        "(a draw or a refusal actually happens)"
        ' Also: numpy-int arguments, p = 65..130 without replacement, the seeded call repeated after the caller edited the lists of an earlier result.')
ASSUMPTIONS = ["sizes are python ints / 2-tuples of ints as documented"]
EXHAUSTIVE = {"quick": True, "thorough": True}
SOFT_LIMIT = {"quick": 1200, "thorough": 5400}      # generous wall-clock watchdogs (a loaded machine must not cut a workload short); normal run times are in the evidence
REQUIRED_FUNCS = ["sempler/generators.py:intervention_targets"]
REQUIRED_COUNTERS = {"quick": {"ok:returned": 20000, "error:max>p": 1000, "error:tuple-length": 100, "error:without-replacement-impossible": 1000,
                               "boundary:maxK=p": 50, "coverage:sizes-asserted": 10, "coverage:variables-asserted": 20},
                     "thorough": {"ok:returned": 100000, "error:max>p": 5000, "error:tuple-length": 100, "error:without-replacement-impossible": 5000,
                                  "boundary:maxK=p": 50, "coverage:sizes-asserted": 10, "coverage:variables-asserted": 20}}
SEEDS = {"quick": 10, "thorough": 300}
BSEEDS = {"quick": 400, "thorough": 20000}


def grid():
    for p in range(1, 8):
        for K in range(0, 10):
            sizes = list(range(0, p + 2)) + [(lo, hi) for lo in range(0, p + 2) for hi in range(lo, p + 2)]
            for size in sizes:
                for replace in (True, False):
                    yield p, K, size, replace


def gen(tier, seed, shard, nshards):
    for idx, (p, K, size, replace) in enumerate(grid()):
        if idx % nshards == shard:
            yield "grid", {"p": p, "K": K, "size": size, "replace": replace, "n_seeds": SEEDS[tier], "base": seed}
    # boundary / coverage cells, many seeds
    b = 0
    for pbig in (65, 100, 130):
        for (K, size) in ((10, 6), (pbig // 10, 10), (5, (3, 12)), (64, 1), (pbig, 1)):
            if b % nshards == shard:
                yield "boundary", {"p": pbig, "K": K, "size": size, "replace": False, "n_seeds": max(20, BSEEDS[tier] // 20), "base": seed}
            b += 1
    for p in (2, 3, 5, 7, 10):
        cells = [(p, 1, p, True), (p, 1, p, False), (p, p, 1, False), (p, 4, (0, p), True), (p, 3, (1, min(p, 3)), True),
                 (p, max(1, p // 2), (0, 2), False) if 2 * max(1, p // 2) <= p else (p, 1, (0, 1), False),
                 (p, p + 3, 0, False), (p, 2, (0, 0), False), (p, 6, (1, 1), True)]
        for (pp, K, size, replace) in cells:
            if b % nshards == shard:
                yield "boundary", {"p": pp, "K": K, "size": size, "replace": replace, "n_seeds": BSEEDS[tier], "base": seed}
            b += 1
    # with replacement on medium-sized variable sets: rare slips (a repeated variable once in thousands of interventions) need
    # many interventions of size >= 3 drawn from 18..60 variables
    for pm in (18, 25, 40, 60):
        for (K, size) in ((20, 3), (20, (3, 5)), (12, 5), (30, (2, 4))):
            if b % nshards == shard:
                yield "boundary", {"p": pm, "K": K, "size": size, "replace": True, "n_seeds": BSEEDS[tier] // 2, "base": seed}
            b += 1
    # very large variable sets without replacement (where a generator may switch from "draw from what is left" to "draw and
    # redraw on a clash"): rare slips need hundreds of seeds
    for (pl, K, size) in ((10001, 2, 100), (20000, 3, 60), (12000, 2, (50, 120)), (50000, 4, 100)):
        if b % nshards == shard:
            yield "boundary", {"p": pl, "K": K, "size": size, "replace": False, "n_seeds": BSEEDS[tier] * 2, "base": seed}
        b += 1
    # wrong-length tuples
    t = 0
    for pp in (1, 4, 9):
        for K in (0, 1, 3):
            for replace in (True, False):
                for size in ((), (1,), (0, 1, 2), (1, 1, 1, 1), (0, 0, 0)):
                    if t % nshards == shard:
                        yield "badtuple", {"p": pp, "K": K, "size": size, "replace": replace, "n_seeds": 2, "base": seed}
                    t += 1


def judge(family, case, rec):
    import sempler.generators as gens
    p, K, size, replace = case["p"], case["K"], case["size"], case["replace"]
    if isinstance(size, list):
        size = tuple(size)
    if isinstance(size, tuple):
        bad_tuple = len(size) != 2
        lo, hi = (size if not bad_tuple else (None, None))
    else:
        bad_tuple = False
        lo = hi = size
    # expected exception, by the statement of the property
    if bad_tuple:
        expect = "tuple-length"
    elif hi > p:
        expect = "max>p"
    elif (not replace) and hi * K > p:
        expect = "without-replacement-impossible"
    else:
        expect = None
    if expect is None and not replace and hi * K == p and hi >= 1:
        rec.count("boundary:maxK=p")
    seeds = [0, 42][: case["n_seeds"]] + [util.derive_seed("C12", case["base"], p, K, size, replace, i) % (2**32) for i in range(max(0, case["n_seeds"] - 2))]
    seen_sizes, seen_vars = set(), set()
    n_ok = 0
    for rs in seeds:
        sub = {"p": p, "K": K, "size": size, "replace": replace, "random_state": rs}
        rec.case(family, sub, bool(K >= 1 and (bad_tuple or hi >= 1)), key=(p, K, size, replace, rs))
        try:
            if rs % 4 == 0 and not bad_tuple:
                sz = tuple(np.int64(v) for v in size) if isinstance(size, tuple) else np.int64(size)
                res = gens.intervention_targets(np.int64(p), np.int64(K), sz, replace=replace, random_state=rs)
            elif rs % 4 == 1:      # every argument positionally, in the documented order
                res = gens.intervention_targets(p, K, size, replace, rs)
                rec.count("call-form:positional")
            else:
                res = gens.intervention_targets(p, K, size, replace=replace, random_state=rs)
            raised = None
        except ValueError as e:
            res, raised = None, e
        except Exception as e:
            rec.exception_violation("C12:unexpected-%s" % type(e).__name__, family, sub,
                                    "intervention_targets raised %s (expected %s)" % (type(e).__name__, expect or "a result"), e)
            continue
        if expect is not None:
            if raised is None:
                rec.violation("C12:no-valueerror-%s" % expect, family, sub, "returned %r although %s" % (res, expect))
            else:
                rec.count("error:" + expect)
            continue
        if raised is not None:
            rec.violation("C12:spurious-valueerror", family, sub, "ValueError for a feasible request: %s" % raised)
            continue
        rec.count("ok:returned")
        n_ok += 1
        if rs % 3 == 0 and isinstance(res, list):
            # the caller edits the lists he was given, then asks again with the same seed: same answer expected
            import copy as _copy
            snapshot = _copy.deepcopy(res)
            for iv in res:
                if isinstance(iv, list):
                    iv.extend([0, 0, 99])
            res.append([7])
            try:
                again = gens.intervention_targets(p, K, size, replace=replace, random_state=rs)
                rec.count("repeat-after-caller-edited-result")
                if [[int(v) for v in iv] for iv in again] != [[int(v) for v in iv] for iv in snapshot]:
                    rec.violation("C12:result-depends-on-edited-earlier-result", family, sub,
                                  "after the caller edited the lists returned by an earlier call, the same seeded call returns %r instead of %r" % (again, snapshot))
            except Exception as e:
                rec.exception_violation("C12:repeat-exception", family, sub, "the repeated call raised", e)
            res = snapshot
        ok = isinstance(res, list) and len(res) == K
        if not ok:
            rec.violation("C12:wrong-number-of-interventions", family, sub, "returned %r, expected %d interventions" % (res, K))
            continue
        used = set()
        for iv in res:
            try:
                vals = [int(v) for v in iv]
                integral = all(float(v) == int(v) for v in iv)
            except Exception:
                vals, integral = None, False
            if vals is None or not integral or not isinstance(iv, list):
                rec.violation("C12:not-a-list-of-ints", family, sub, "intervention %r" % (iv,))
                break
            if not lo <= len(vals) <= hi:
                rec.violation("C12:size-out-of-range", family, sub, "intervention %s has %d targets, requested %s" % (vals, len(vals), size))
            if len(set(vals)) != len(vals):
                rec.violation("C12:repeated-target-within-intervention", family, sub, "intervention %s repeats a variable" % (vals,))
            if any(v < 0 or v >= p for v in vals):
                rec.violation("C12:target-out-of-range", family, sub, "intervention %s outside 0..%d" % (vals, p - 1))
            if not replace and used & set(vals):
                rec.violation("C12:not-disjoint-without-replacement", family, sub, "variable(s) %s occur in two interventions: %r" % (sorted(used & set(vals)), res))
            used |= set(vals)
            seen_sizes.add(len(vals))
            seen_vars |= set(vals)
    # coverage over seeds
    if family == "boundary" and expect is None and n_ok == len(seeds) and K >= 1:
        nsz = hi - lo + 1
        draws = n_ok * K
        if nsz > 1 and nsz * (1 - 1.0 / nsz) ** draws < S.DELTA:
            rec.count("coverage:sizes-asserted")
            if seen_sizes != set(range(lo, hi + 1)):
                rec.violation("C12:size-never-drawn", family, case, "over %d seeds sizes %s never occur (range %s inclusive)"
                              % (n_ok, sorted(set(range(lo, hi + 1)) - seen_sizes), size))
        # variables: the first intervention of a call has size uniform on [lo, hi] and is a uniform subset, so a given
        # variable is absent from it with probability 1 - E[size]/p; calls with different seeds are independent
        msize = (lo + hi) / 2.0
        if msize > 0 and p * (1 - msize / p) ** n_ok < S.DELTA:
            rec.count("coverage:variables-asserted")
            if seen_vars != set(range(p)):
                rec.violation("C12:variable-never-drawn", family, case,
                              "over %d seeds variables %s never occur" % (n_ok, sorted(set(range(p)) - seen_vars)))
