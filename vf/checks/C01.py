"""C01 - LGANM population law equals the intervened structural equations.

Monitor: post-condition on LGANM.sample(population=True, ...) and on the
constructor's sampled parameters.  Oracle: the specification applied literally to
exact-rational copies of the caller's inputs, solved by path sums
(vf.oracles.exact.sem_law); comparison in the max norm with a tolerance scaled by
the condition number of (I - W'^T).
"""
import numpy as np

from ..core import util
from ..oracles import graphs as G
from ..oracles import exact as X
from ..workloads import gmat, callforms

TECHNIQUE = "runtime post-condition monitor on LGANM.sample(population=True) vs. exact-rational path-sum solution of the intervened SEM; all 8^3 intervention assignments on fixed 3-node graphs + random signed DAGs x dtypes x dict/{}/None"
LEVEL_TEXT = ("Each population distribution returned for the workload is compared (mean and covariance, max norm, tolerance "
              "1e3*eps*cond(I-W'^T)*scale) with the exact-rational law of the intervened equations computed from the caller's "
              "original inputs: every assignment of {none, do, noise, shift and overlaps} to the variables of four 3-node graphs "
              "with tuple and scalar parameters, thousands of random signed DAGs up to p=8 in three weight-magnitude bands, "
              "integer / float32 / float64 model arrays with fractional parameters, and interventions passed as dict, {} or None. "
              "Constructor ranges are checked for membership, length and non-degeneracy.")
LEVEL_NOTE = ("Trusted: Fraction arithmetic and the literal reading of the specification in vf.oracles.exact.intervene.  Only models "
              "with 1e3*eps*cond <= 1e-4 are judged (others counted too_ill_conditioned).")
RULE = ("cases: (W, means, variances, do, noise, shift) tuples.  distinct = distinct canonical encoding of the whole case; "
        "non-trivial = at least one intervention target that has a parent or child, or a non-float64 model array"
        ' Also: intervention dicts in random key order and with numpy-int keys, arguments omitted / {} / None, models in units 1e-12..1e9, int8..float16 model arrays, on the same model object a far and a near-equal (9th digit) parameter set are asked before the judged one, and the judged call is repeated after the caller overwrote an earlier result.')
ASSUMPTIONS = ["scalar intervention parameters are python int/float (the documented form)",
               "condition-scaled tolerance: 1e3*eps*cond(I-W'^T) relative to the natural scale of the result"]
EXHAUSTIVE = {"quick": False, "thorough": False}
SOFT_LIMIT = {"quick": 1200, "thorough": 5400}      # generous wall-clock watchdogs (a loaded machine must not cut a workload short); normal run times are in the evidence
REQUIRED_FUNCS = ["sempler/lganm.py:LGANM.sample", "sempler/lganm.py:LGANM.__init__"]      # public entry points only: a rewrite may drop private helpers
REQUIRED_COUNTERS = {"quick": {"judged": 5000, "call-form:positional": 300, "overlap:do+noise": 100, "overlap:do+shift": 100, "overlap:noise+shift": 100,
                               "overlap:all-three": 50, "scalar-param": 500, "dtype:int-means-or-variances": 200, "form:None": 100, "form:{}": 100, "form:omitted": 100,
                               "ctor:ranges": 200},
                     "thorough": {"judged": 50000, "call-form:positional": 3000, "overlap:do+noise": 1000, "overlap:do+shift": 1000, "overlap:noise+shift": 1000,
                                  "overlap:all-three": 500, "scalar-param": 5000, "dtype:int-means-or-variances": 2000, "form:None": 1000,
                                  "form:{}": 1000, "form:omitted": 1000, "ctor:ranges": 2000}}
N = {"quick": {"random": 9000, "dtype": 2500, "ctor": 600}, "thorough": {"random": 1000000, "dtype": 300000, "ctor": 50000}}
EPS = 2.0 ** -52

GRAPHS3 = {
    "chain": [[0, 1.5, 0], [0, 0, -0.7], [0, 0, 0]],
    "fork": [[0, 2.0, -1.25], [0, 0, 0], [0, 0, 0]],
    "collider": [[0, 0, 0.5], [0, 0, -3.0], [0, 0, 0]],
    "complete": [[0, 1.0, -2.0], [0, 0, 0.75], [0, 0, 0]],
}


def _param(rng, scalar, frac=True):
    m = float(np.round(rng.uniform(-5, 5), 3)) if frac else float(rng.integers(-5, 6))
    if scalar:
        return m if rng.random() < 0.7 else int(round(m))
    v = float(np.round(rng.uniform(0, 4), 3)) if rng.random() < 0.85 else 0.0
    if rng.random() < 0.1:
        sc = float(10.0 ** rng.integers(-12, 10))
        m, v = m * sc, v * sc * sc
    return (m, v)


def _random_interventions(rng, p, scalar_rate=0.3):
    dicts = {"do": {}, "noise": {}, "shift": {}}
    # keys are inserted in random (not ascending) order: the dict order must not matter
    for j in (int(v) for v in rng.permutation(p)):
        kind = int(rng.integers(0, 8)) if rng.random() < 0.6 else 0
        if kind & 1:
            dicts["do"][j] = _param(rng, rng.random() < scalar_rate)
        if kind & 2:
            dicts["noise"][j] = _param(rng, rng.random() < scalar_rate)
        if kind & 4:
            dicts["shift"][j] = _param(rng, rng.random() < scalar_rate)
    return dicts


def _random_model(rng, p, band):
    out = gmat.random_dag_masks(rng, p)
    if band == 0:
        W = gmat.weighted(rng, out, "signed")
    elif band == 1:
        W = gmat.weighted(rng, out, "wide")
    else:
        W = gmat.weighted(rng, out, "int") * float(rng.choice([1, 0.5, 0.25]))
    means = np.round(rng.uniform(-3, 3, p), 4)
    variances = np.round(rng.uniform(0.01, 5, p), 4)
    variances[rng.random(p) < 0.1] = 0.0
    if rng.random() < 0.25:      # the law is scale-equivariant: tiny and huge scales must be honoured as well
        sc = float(10.0 ** rng.integers(-12, 10))
        means, variances = means * sc, variances * sc * sc
    return W, means, variances


def gen(tier, seed, shard, nshards):
    idx = 0
    # (b) every assignment of the 8 intervention combinations to 3 variables, 4 graphs
    for gname in sorted(GRAPHS3):
        for code in range(8 ** 3):
            if idx % nshards == shard:
                rng = util.rng_for("C01", "grid", gname, code)
                d = {"do": {}, "noise": {}, "shift": {}}
                c = code
                for j in range(3):
                    k = c & 7
                    c >>= 3
                    scalar = (code + j) % 3 == 0
                    if k & 1:
                        d["do"][j] = _param(rng, scalar)
                    if k & 2:
                        d["noise"][j] = _param(rng, scalar and not (k & 1))
                    if k & 4:
                        d["shift"][j] = _param(rng, (code + j) % 5 == 0)
                yield "grid3", {"W": np.array(GRAPHS3[gname], dtype=float), "means": np.array([0.5, -1.0, 2.0]),
                                "variances": np.array([1.0, 0.3, 2.5]), "iv": d, "forms": ["dict", "dict", "dict"]}
            idx += 1
    # (a) random models
    for k in range(N[tier]["random"]):
        if k % nshards == shard:
            rng = util.rng_for("C01", seed, "rand", k)
            p = int(rng.integers(1, 9))
            W, means, variances = _random_model(rng, p, k % 3)
            d = _random_interventions(rng, p)
            forms = [("dict" if d[x] else ["{}", "None", "omitted"][int(rng.integers(3))]) for x in ("do", "noise", "shift")]
            yield "random", {"W": W, "means": means, "variances": variances, "iv": d, "forms": forms}
    # (a') parameter values whose Python hashes collide (hash(-1) == hash(-2), hash(1.0) == hash(1) == hash(True), hash(2**61 - 1) == 0):
    # the same model is first asked about the colliding twin of the judged parameters
    for k in range(N[tier]["random"] // 8):
        if k % nshards == shard:
            rng = util.rng_for("C01", seed, "twin", k)
            p = int(rng.integers(2, 6))
            W, means, variances = _random_model(rng, p, 2)
            vals = [-1.0, -2.0, -1, -2, 1.0, 1, 0.0, 2.0]
            d = {"do": {}, "noise": {}, "shift": {}}
            for j in (int(v) for v in rng.permutation(p)[: int(rng.integers(1, p + 1))]):
                kind = ("do", "noise", "shift")[int(rng.integers(3))]
                m = vals[int(rng.integers(len(vals)))]
                d[kind][j] = (m, [1.0, 2.0, 1][int(rng.integers(3))]) if rng.random() < 0.7 else m
            yield "random", {"W": W, "means": means, "variances": np.maximum(variances, 0.01), "iv": d, "forms": [("dict" if d[x] else "{}") for x in ("do", "noise", "shift")],
                             "twin_first": True}
    # (c) dtypes / container forms
    dts = ["int64", "int32", "float32", "float64", "int8", "uint8", "int16", "float16"]
    for k in range(N[tier]["dtype"]):
        if k % nshards == shard:
            rng = util.rng_for("C01", seed, "dtype", k)
            p = int(rng.integers(1, 7))
            out = gmat.random_dag_masks(rng, p)
            dW, dm, dv = dts[k % 8], dts[(k // 8) % 8], dts[(k // 64) % 8]
            isint = lambda d: d.startswith("int") or d.startswith("uint")
            W = (np.abs(gmat.weighted(rng, out, "int")) if dW.startswith("uint") else gmat.weighted(rng, out, "int")).astype(dW) if isint(dW) else \
                (gmat.weighted(rng, out, "int") * 0.5).astype(dW)
            big = {"int8": (8, 13), "uint8": (12, 21), "int16": (150, 251), "float16": (100, 301), "int32": (40000, 60001)}.get(dW)
            if big is not None and (k // 8) % 2 == 1 and p >= 3:
                # weights near the limit of a narrow type: every single weight fits, but the product along a path of two edges does not
                # (12*12 > 127, 16*16 = 256, 200*200 > 32767, 300*300 > 65504, 50000*50000 > 2^31)
                p = min(p, 4)
                out = gmat.random_dag_masks(rng, p, density=0.9)
                mag = rng.integers(big[0], big[1], size=(p, p))
                sgn = 1 if dW.startswith("uint") else rng.choice([-1, 1], size=(p, p))
                W = (gmat.to_np(out) * mag * sgn).astype(dW)
            elif dW == "float32" and (k // 8) % 2 == 1:
                W = (gmat.to_np(out) * rng.integers(1, 30, size=(p, p)) * 0.1).astype(dW)       # not exactly representable products
            means = rng.integers(0 if dm.startswith("uint") else -4, 5, p).astype(dm) if isint(dm) else (rng.integers(-8, 9, p) * 0.25).astype(dm)
            variances = rng.integers(0, 4, p).astype(dv) if isint(dv) else (rng.integers(0, 9, p) * 0.25).astype(dv)
            d = _random_interventions(rng, p, scalar_rate=0.4)
            forms = [("dict" if d[x] else ("{}" if rng.random() < 0.5 else "None")) for x in ("do", "noise", "shift")]
            yield "dtype", {"W": W, "means": means, "variances": variances, "iv": d, "forms": forms,
                            "W_as_list": bool(k % 7 == 0)}
    # (d) constructor ranges
    for k in range(N[tier]["ctor"]):
        if k % nshards == shard:
            rng = util.rng_for("C01", seed, "ctor", k)
            p = int(rng.integers(1, 9))
            out = gmat.random_dag_masks(rng, p)
            lo_m = float(np.round(rng.uniform(-5, 5), 2))
            hi_m = lo_m if k % 6 == 0 else lo_m + float(np.round(rng.uniform(0.01, 4), 2))
            lo_v = float(np.round(rng.uniform(0, 3), 2))
            hi_v = lo_v if k % 5 == 0 else lo_v + float(np.round(rng.uniform(0.01, 4), 2))
            yield "ctor", {"W": gmat.weighted(rng, out, "signed"), "means": (lo_m, hi_m), "variances": (lo_v, hi_v),
                           "rs": None if k % 3 == 0 else int(rng.integers(0, 2**32))}


def _arg(d, form):
    if form == "dict":
        # target keys as python ints or numpy ints (both index the arrays identically)
        return {(np.int64(k) if (k + len(d)) % 3 == 0 else k): v for k, v in d.items()}
    return {} if form == "{}" else None


def judge(family, case, rec):
    import sempler
    W, means, variances = case["W"], case["means"], case["variances"]
    p = len(W)
    if family == "ctor":
        rec.count("ctor:ranges")
        rec.case(family, case, True)
        try:
            m = sempler.LGANM(W, case["means"], case["variances"], random_state=case["rs"])
        except Exception as e:
            rec.exception_violation("C01:ctor-exception", family, case, "LGANM(W, (lo,hi), (lo,hi)) raised", e)
            return
        for name, (lo, hi), arr in (("means", case["means"], m.means), ("variances", case["variances"], m.variances)):
            arr = np.asarray(arr)
            if arr.shape != (p,):
                rec.violation("C01:ctor-%s-shape" % name, family, case, "%s has shape %r, expected (%d,)" % (name, arr.shape, p))
                continue
            if (arr < lo).any() or (arr > hi).any() or not np.isfinite(arr).all():
                rec.violation("C01:ctor-%s-out-of-range" % name, family, case,
                              "%s drawn outside [%r, %r]: %s" % (name, lo, hi, arr.tolist()))
            if hi > lo and p >= 3 and len(set(arr.tolist())) == 1:
                rec.violation("C01:ctor-%s-not-one-per-variable" % name, family, case,
                              "all %d %s are identical (%r) although lo < hi" % (p, name, arr[0]))
        if (np.asarray(m.W) != W).any() or m.p != p:
            rec.violation("C01:ctor-W-changed", family, case, "stored W / p differ from the input")
        return

    d = case["iv"]
    forms = case["forms"]
    Warg = W.tolist() if case.get("W_as_list") else W
    # bookkeeping of what is being exercised
    do_t, no_t, sh_t = set(d["do"]), set(d["noise"]), set(d["shift"])
    if do_t & no_t - sh_t:
        rec.count("overlap:do+noise")
    if do_t & sh_t - no_t:
        rec.count("overlap:do+shift")
    if no_t & sh_t - do_t:
        rec.count("overlap:noise+shift")
    if do_t & no_t & sh_t:
        rec.count("overlap:all-three")
    if any(not isinstance(v, tuple) for dd in d.values() for v in dd.values()):
        rec.count("scalar-param")
    if means.dtype.kind in "iu" or variances.dtype.kind in "iu":
        rec.count("dtype:int-means-or-variances")
    for f in forms:
        rec.count("form:" + f)
    out = gmat.masks(W)
    inn = G.transpose(out)
    touched = do_t | no_t | sh_t
    nontrivial = any(out[t] or inn[t] for t in touched) or any(a.dtype != np.float64 for a in (W, means, variances))
    rec.case(family, case, bool(nontrivial))

    # oracle on the caller's original numbers
    Wi, mui, vari = X.intervene(X.fmat(W), X.fvec(means), X.fvec(variances), d["do"], d["noise"], d["shift"])
    want_mean, want_cov = X.sem_law(Wi, mui, vari)
    Wf = np.array([[float(x) for x in r] for r in Wi]).reshape(p, p)
    kappa = float(np.linalg.cond(np.eye(p) - Wf.T)) if p else 1.0
    rel = 1e3 * EPS * kappa
    if not np.isfinite(rel) or rel > 1e-4:
        rec.count("too_ill_conditioned")
        return
    rec.max("max-cond", kappa)
    W0, m0, v0 = W.copy(), means.copy(), variances.copy()
    try:
        model = sempler.LGANM(Warg, means, variances)
        kw = {}
        for name, dd, form in (("do_interventions", d["do"], forms[0]), ("noise_interventions", d["noise"], forms[1]),
                               ("shift_interventions", d["shift"], forms[2])):
            if form != "omitted":
                kw[name] = _arg(dd, form)
        sweep_first = bool(touched and (p + len(touched)) % 3 == 1)
        # one case in four is asked with every argument given positionally, in the documented order
        pos_form = bool(touched) and (p + 2 * len(touched) + len(do_t)) % 4 == 1
        rec.count("call-form:positional") if pos_form else None

        def ask(**kw_):
            if pos_form:
                return model.sample(*callforms.positional("LGANM.sample", 100, True, **kw_))
            return model.sample(population=True, **kw_)
        if case.get("twin_first"):
            tw = {-1: -2, -2: -1, 1: 1.0, 0: -0.0, 2: 2.0}

            def twin(v):
                if isinstance(v, tuple):
                    return tuple(twin(x) for x in v)
                return (float(tw[v]) if isinstance(v, float) else tw[v]) if v in tw and v in (-1, -2) else (tw.get(v, v) if not isinstance(v, float) else v)
            kw_t = {name: ({j: twin(v) for j, v in dd.items()} if isinstance(dd, dict) else dd) for name, dd in kw.items()}
            model.sample(population=True, **kw_t)
            model.sample(3, **kw_t)
            rec.count("history:hash-colliding-twin-parameters-first")
        dist = None if sweep_first else ask(**kw)
    except Exception as e:
        key = "C01:exception-" + type(e).__name__
        rec.exception_violation(key, family, case, "LGANM.sample(population=True) raised %s" % type(e).__name__, e)
        return
    rec.count("judged")
    if sweep_first:
        # the judged parameters are asked LAST: parameter sweep in steps far below print precision: the same model is first asked about parameters that differ from
        # the judged ones in the 11th significant digit only
        try:
            def nudge(dd, far):
                if far:     # clearly different values on the same targets
                    return {j: ((v[0] + 5.0, v[1] + 1.0) if isinstance(v, tuple) else v + 5.0) for j, v in dd.items()}
                # differs in the 9th significant digit only
                return {j: ((v[0] * (1 + 2e-9) + 1e-12, v[1] * (1 - 2e-9)) if isinstance(v, tuple) else v) for j, v in dd.items()}
            for far in (True, False):
                kw0 = {}
                for name, dd, form in (("do_interventions", d["do"], forms[0]), ("noise_interventions", d["noise"], forms[1]),
                                       ("shift_interventions", d["shift"], forms[2])):
                    if form == "dict":
                        kw0[name] = nudge(dd, far)
                    elif form != "omitted":
                        kw0[name] = _arg(dd, form)
                model.sample(population=True, **kw0)
                model.sample(2, **kw0)
            dist = ask(**kw)
            rec.count("history:near-equal-parameter-sweep")
        except Exception as e:
            rec.exception_violation("C01:exception-on-sweep-" + type(e).__name__, family, case, "a parameter sweep on the same model raised", e)
            return
    if case.get("W_as_list") is None and (p + len(touched)) % 3 == 0:
        # history: the caller rescales the distribution he was given (his own object), asks the same model something else,
        # then repeats the first question - the answer must not have changed
        try:
            for arr_, v_ in ((dist.mean, 1e6), (dist.covariance, -7.0)):
                if isinstance(arr_, np.ndarray) and arr_.flags.writeable:       # read-only results are the caller's too, just not writable
                    arr_[...] = v_
            model.sample(population=True)
            model.sample(population=True, do_interventions={0: (1.0, 2.0)})
            dist = ask(**kw)
            rec.count("history:repeat-after-caller-overwrote-result")
        except Exception as e:
            rec.exception_violation("C01:exception-on-repeat-" + type(e).__name__, family, case, "repeating the call raised", e)
            return
    got_mean = np.asarray(dist.mean, dtype=float)
    got_cov = np.asarray(dist.covariance, dtype=float)
    if got_mean.shape != (p,) or got_cov.shape != (p, p):
        rec.violation("C01:shape", family, case, "mean %r / covariance %r shapes" % (got_mean.shape, got_cov.shape))
        return
    wm = np.array([float(x) for x in want_mean])
    wc = np.array([[float(x) for x in r] for r in want_cov]).reshape(p, p)
    # natural scales: absolute path-sum of the mean, largest variance
    A = np.abs(np.linalg.inv(np.eye(p) - Wf.T))
    scale_m = float(np.max(A @ np.abs(np.array([float(x) for x in mui])))) if p else 0.0
    scale_c = float(np.max(np.diag(wc))) if p else 0.0
    err_m = float(np.max(np.abs(got_mean - wm))) if p else 0.0
    err_c = float(np.max(np.abs(got_cov - wc))) if p else 0.0
    tiny = 1e-300
    if scale_m > 0:
        rec.max("max-mean-error/(eps*cond*scale)", err_m / (EPS * kappa * scale_m))
    if scale_c > 0:
        rec.max("max-cov-error/(eps*cond*scale)", err_c / (EPS * kappa * scale_c))
    ctx = {"interventions": d, "forms": forms, "cond": kappa}
    if not np.isfinite(got_mean).all() or err_m > rel * scale_m + tiny:
        rec.violation("C01:mean-wrong", family, case,
                      "population mean off by %.3g (tolerance %.3g)" % (err_m, rel * scale_m),
                      returned=got_mean, expected=wm, **ctx)
    if not np.isfinite(got_cov).all() or err_c > rel * scale_c + tiny:
        rec.violation("C01:covariance-wrong", family, case,
                      "population covariance off by %.3g (tolerance %.3g)" % (err_c, rel * scale_c),
                      returned=got_cov, expected=wc, **ctx)
    if p and float(np.max(np.abs(got_cov - got_cov.T))) > rel * scale_c + tiny:
        rec.violation("C01:covariance-asymmetric", family, case, "covariance not symmetric", returned=got_cov, **ctx)
    if (W != W0).any() or (means != m0).any() or (variances != v0).any():
        rec.violation("C01:inputs-mutated", family, case, "the caller's arrays were modified")
