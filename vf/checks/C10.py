"""C10 - interventional equivalence classes and I-CPDAGs are exact.

Monitors: post-conditions on utils.imec / dag_to_icpdag / pdag_to_icpdag.
Oracle: members of the brute-force Markov equivalence class whose parent sets
agree with the DAG on every target; essential graph = their union graph.
"""
import numpy as np

from ..core import util
from ..oracles import graphs as G
from ..workloads import gmat
from . import _gc

TECHNIQUE = "runtime post-condition monitors on imec/dag_to_icpdag/pdag_to_icpdag vs. brute-force class filtered by target parent sets (all (DAG, I) pairs p<=4 quick, p<=5 thorough; dense 6-7 node DAGs via a covered-edge-reversal class search)"
LEVEL_TEXT = ("Every (DAG, target set) pair on p<=4 nodes (8,9k pairs, quick) and p<=5 (937k pairs, thorough, time-boxed) is run "
              "through imec and dag_to_icpdag and compared with the brute-force class filtered by the targets' parents; "
              "because every member of every class is enumerated, member-independence, I={} => MEC/CPDAG, I=[p] => {A} and "
              "monotonicity in I are observed directly.  pdag_to_icpdag is driven with all PDAG codes p<=4 x target sets; "
              "chains to p=12 compare shortcut and general path; weighted copies must depend on the pattern only.")
LEVEL_NOTE = "Trusted: brute-force class table. Sampled beyond p=5 (<= 11 edges)."
RULE = ("cases: (DAG code, target bitmask); (PDAG code, target bitmask) for pdag_to_icpdag; chains x random targets; weighted "
        "DAGs x random targets.  distinct = distinct (family, graph, targets); non-trivial = targets neither empty nor all "
        "nodes and Markov class size >= 2 (for pdag_to_icpdag: some target carries an undirected edge, or class size >= 2)"
        ' Also: relabelled embeddings, named shapes, weighted canonical chains and chains plus chords, graphs built from utils.chain_graph and edited in place, frozenset targets, check_chain=False, debug=True, repeat after the caller overwrote the result.')
ASSUMPTIONS = ["brute-force oracle correct (counts self-checked)"]
EXHAUSTIVE = {"quick": True, "thorough": True}
SOFT_LIMIT = {"quick": 1200, "thorough": 5400}      # generous wall-clock watchdogs (a loaded machine must not cut a workload short); normal run times are in the evidence
REQUIRED_FUNCS = ["sempler/utils.py:imec", "sempler/utils.py:dag_to_icpdag", "sempler/utils.py:pdag_to_icpdag"]
REQUIRED_COUNTERS = {"quick": {"imec:proper-subclass": 500, "picpdag:valueerror-expected": 500, "picpdag:value-expected": 500, "imec:chain-shortcut": 20},
                     "thorough": {"imec:proper-subclass": 5000, "picpdag:valueerror-expected": 500, "picpdag:value-expected": 500, "imec:chain-shortcut": 20}}
N = {"quick": {"dag5": 2500, "weighted": 800, "sampled": 500, "chain_max": 10, "chain_I": 6, "pdagI4": 3},
     "thorough": {"dag5": 0, "weighted": 40000, "sampled": 12000, "chain_max": 12, "chain_I": 48, "pdagI4": 16}}


def gen(tier, seed, shard, nshards):
    n = N[tier]
    # the families that feed the required counters come first (a watchdog that cuts a run short must not starve them)
    # pdag_to_icpdag
    idx = 0
    for p in (1, 2, 3, 4):
        for code in range(_gc.pdag_codes(p)):
            if idx % nshards == shard:
                if p < 4 or n["pdagI4"] >= 16:
                    Is = range(1 << p)
                else:
                    rng = util.rng_for("C10", seed, "pI", p, code)
                    Is = sorted(set(int(x) for x in rng.integers(0, 1 << p, n["pdagI4"])))
                for I in Is:
                    yield "pdagI", {"p": p, "code": code, "I": int(I)}
            idx += 1
    k = 0
    for p in range(1, n["chain_max"] + 1):
        rng = util.rng_for("C10", seed, "chain", p)
        for t in range(n["chain_I"]):
            I = int(rng.integers(0, 1 << p))
            if k % nshards == shard:
                yield "chainI", {"p": p, "I": I}
            k += 1
    idx = 0
    for p in ((1, 2, 3, 4) if tier == "quick" else (1, 2, 3, 4, 5)):
        for code in G.all_dag_codes(p):
            if idx % nshards == shard:
                for I in range(1 << p):
                    yield "dagI", {"p": p, "code3": code, "I": I}
            idx += 1
    if n["dag5"]:
        codes = G.all_dag_codes(5)
        rng = util.rng_for("C10", seed, "dag5")
        pick = rng.choice(len(codes), n["dag5"], replace=False)
        for k, i in enumerate(pick):
            if k % nshards == shard:
                yield "dagI", {"p": 5, "code3": int(codes[int(i)]), "I": int(rng.integers(1, 31))}
    if n["dag5"]:
        # dense DAGs without v-structures on 5 nodes (their CPDAG is one undirected chordal component) with a single target: the
        # orientation forced at the target has to travel through several triangles, i.e. the Meek fix-point needs several sweeps
        k = 0
        for code in G.all_dag_codes(5):
            out5 = G.dag_from_code3(5, code)
            if G.n_edges(out5) >= 7 and not G.vstructures(out5):
                if k % nshards == shard:
                    rng = util.rng_for("C10", seed, "moral5", code)
                    for t in rng.choice(5, 2, replace=False):
                        yield "dagI", {"p": 5, "code3": int(code), "I": 1 << int(t), "moral": True}
                k += 1
    # relabelled copies inside 9..13 nodes
    idx = 0
    for p in (3, 4):
        for code in G.all_dag_codes(p):
            if idx % nshards == shard:
                rng = util.rng_for("C10", seed, "emb", p, code)
                for I in sorted(set(int(x) for x in rng.integers(0, 1 << p, 6))):
                    yield "embedded-dagI", {"p": p, "code3": code, "I": I, "P": 9 + code % 5}
            idx += 1

    sidx = 0
    for pp in (6, 7, 8, 9, 10):
        for name in sorted(gmat.named_shapes(pp)):
            for rep in range(4 if name.startswith("chain-") else 2):      # label-dependent effects: several relabellings of the path shapes
                if sidx % nshards == shard:
                    yield "shape-dagI", {"p": pp, "shape": name, "rep": rep}
                sidx += 1
    for k in range(n["weighted"]):
        if k % nshards == shard:
            rng = util.rng_for("C10", seed, "w", k)
            out = _gc.sampled_dag(("C10", seed, "wd", k), 2, 6, max_edges=10)
            yield "weightedI", {"W": gmat.weighted(rng, out), "I": int(rng.integers(0, 1 << len(out)))}
    for k in range(n["weighted"] // 2):
        if k % nshards == shard:
            W = _gc.near_chain(("C10", seed, "nc", k))
            rng = util.rng_for("C10", seed, "ncI", k)
            yield "weightedI", {"W": W, "I": int(rng.integers(0, 1 << len(W)))}
    for k in range(n["weighted"] // 3):
        if k % nshards == shard:
            yield "library-chain-edited", {"k": k, "seed": seed}
    for k in range(2400 if tier == "quick" else 40000):
        if k % nshards == shard:
            rngI = util.rng_for("C10", seed, "denseI", k)
            # dense DAGs on 6-7 nodes with any number of edges (oracle: covered-edge reversals), every third with I = {}
            yield "sampled-dagI", {"masks": _gc.dense_dag(("C10", seed, "densedag", k), p_choices=(6, 6, 7), min_density=0.55, max_edges=21),
                                   "I": int(rngI.integers(0, 64)) if k % 3 else 0}
    for k in range(600 if tier == "quick" else 12000):
        if k % nshards == shard:
            out = _gc.meek_gadget_dag(("C10", seed, "gadget", k))
            rngI = util.rng_for("C10", seed, "gadgetI", k)
            yield "sampled-dagI", {"masks": out, "I": int(rngI.integers(0, 1 << len(out))) if k % 3 else 0}
    # directed paths on 7-11 nodes whose labels zig-zag (.. 4 -> 5 -> 3 -> 6 -> 2 -> 7 ..) or are random, with one target: the forced
    # orientations travel the whole path against and along the label order in turn, one edge per sweep of a label-ordered scan
    zk = 0
    for pz in (7, 8, 9, 10, 11):
        for rep in range(6 if tier == "quick" else 40):
            if zk % nshards == shard:
                rngz = util.rng_for("C10", seed, "zigzag", pz, rep)
                mid = pz // 2
                zig = [mid + ((t + 1) // 2) * (1 if t % 2 else -1) for t in range(pz)]
                zig = [v for v in zig if 0 <= v < pz]
                order = zig if (rep % 3 == 0 and len(set(zig)) == pz) else [int(v) for v in rngz.permutation(pz)]
                if rep % 2:
                    order = order[::-1]
                outz = [0] * pz
                for t in range(pz - 1):
                    outz[order[t]] |= 1 << order[t + 1]
                for tgt in (order[0], order[pz // 2], order[-1]):
                    yield "sampled-dagI", {"masks": outz, "I": 1 << tgt}
            zk += 1
    for k in range(n["sampled"]):
        if k % nshards == shard:
            out = _gc.sampled_dag(("C10", seed, "sd", k), 6, 12, max_edges=11)
            rng = util.rng_for("C10", seed, "sI", k)
            yield "sampled-dagI", {"masks": out, "I": int(rng.integers(0, 1 << len(out)))}


def setup(rec):
    G.self_check()
    rec.count("oracle:self-check-passed")
    if len(G.all_dag_codes(4)) != 543 or len(G.class_table(4)) != 185:
        raise RuntimeError("oracle self-check failed")


def _judge_dag(U, out, A, Imask, family, case, rec, key, chain_variants=(True,)):
    p = len(out)
    targets = G.bits(Imask)
    I = set(targets)
    mec = G.mec_of(out)
    members = G.imec_of(out, targets)
    want = set(tuple(g) for g in members)
    if tuple(out) not in want:
        raise RuntimeError("oracle: DAG not in its own I-class")
    rec.case(family, case, bool(0 < len(I) < p and len(mec) >= 2), key=key)
    if len(want) < len(mec):
        rec.count("imec:proper-subclass")
    ctx = {"dag": _gc.rows(out), "targets": sorted(I)}
    if (sum(out) + 3 * Imask + p) % 4 == 1 or family == "chainI":
        # history across routines: the caller first asked the *related* routines about the same graph and overwrote what he
        # was given (his own arrays) - the answers judged below must not depend on that
        _gc.scribble_related(U, A, rec, ("mec", "dag_to_cpdag", "chain_graph_MEC") if _gc.n_undirected(G.union_graph(mec, p)) <= 8 else ("dag_to_cpdag", "chain_graph_MEC"))
    Iarg = (frozenset(I), set(I), set(I), set(np.int64(v) for v in I), set(I))[(Imask + p) % 5]    # numpy-integer members included
    if chain_variants == (True,) and (sum(out) + Imask) % 6 == 2:
        chain_variants = (True, False)
        rec.count("keyword:check_chain=False")
    if (sum(out) + Imask) % 16 == 7:
        import io, contextlib
        try:
            with contextlib.redirect_stdout(io.StringIO()):
                rd = U.dag_to_icpdag(np.array(A, copy=True), set(I), debug=True)
            rec.count("keyword:debug=True")
            if gmat.masks(rd) != G.union_graph(members, p):
                rec.violation("C10:dag_to_icpdag-debug-changes-result", family, case, "dag_to_icpdag(A, I, debug=True) differs from the I-essential graph", **ctx)
        except Exception as e:
            rec.exception_violation("C10:dag_to_icpdag-debug-exception", family, case, "dag_to_icpdag(debug=True) raised", e)
    n_und_ess = _gc.n_undirected(G.union_graph(members, p))
    if n_und_ess > 8:
        # the library enumerates 2^u orientations of the u undirected edges of the I-essential graph: imec is not driven where that
        # alone would take seconds and gigabytes (the essential graph itself is judged below)
        rec.count("imec:skipped(more than 8 undirected edges)")
        chain_variants = ()
    for cc in chain_variants:
        try:
            if (Imask + p) % 3 == 0:       # the third parameter given positionally
                res = U.imec(A, Iarg, cc)
                rec.count("call-form:positional")
            else:
                res = U.imec(A, Iarg) if cc is True else U.imec(A, Iarg, check_chain=False)
            lst, got = _gc.result_set(res)
        except Exception as e:
            rec.exception_violation("C10:imec-exception", family, case, "imec raised %s" % type(e).__name__, e)
            continue
        rec.count("imec:calls")
        diff = _gc.compare_sets(lst, got, want)
        if diff:
            rec.violation("C10:imec-%s%s" % (diff["kind"], "" if cc else "-general-path"), family, case,
                          "imec(check_chain=%s) returned %d graphs, the I-class has %d" % (cc, len(lst), len(want)), **ctx, **diff)
    if Iarg != I:
        rec.violation("C10:targets-mutated", family, case, "imec modified the caller's target set", **ctx)
    wantg = G.union_graph(members, p)
    try:
        res = U.dag_to_icpdag(A, set(I))
    except Exception as e:
        rec.exception_violation("C10:dag_to_icpdag-exception", family, case, "dag_to_icpdag raised %s" % type(e).__name__, e)
        return
    got = gmat.masks(res)
    if (sum(out) + Imask) % 4 == 0:
        _gc.repeat_after_overwrite(rec, family, case, "C10", "dag_to_icpdag", U.dag_to_icpdag, (np.array(A, copy=True), set(I)), res)
    if got != wantg:
        Pw, Pg = G.Parts(wantg), G.Parts(got)
        kind = "skeleton" if Pg.adj != Pw.adj else ("left-undirected" if any(Pg.nb[i] & ~Pw.nb[i] for i in range(p)) else "over-oriented")
        rec.violation("C10:dag_to_icpdag-" + kind, family, case, "dag_to_icpdag differs from the essential graph of the I-class",
                      returned=_gc.rows(got), expected=_gc.rows(wantg), **ctx)


def judge(family, case, rec):
    import sempler.utils as U
    if family == "dagI":
        out = G.dag_from_code3(case["p"], case["code3"])
        A = gmat.hostile_array(gmat.to_np(out, dtype=float if case["code3"] % 2 else int), case["code3"] + case["I"])
        _judge_dag(U, out, A, case["I"], family, case, rec, (case["p"], case["code3"], case["I"]))
    elif family == "embedded-dagI":
        small = G.dag_from_code3(case["p"], case["code3"])
        if G.n_edges(small) < 2:
            return
        rng = util.rng_for("C10e", case["p"], case["code3"], case["I"])
        if (case["code3"] + case["I"]) % 2:
            pool = list(gmat.HOSTILE_SMALL) + list(gmat.HOSTILE_LARGE)
            labels = [int(v) for v in rng.choice(pool, case["p"], replace=False)]
            P = 20
        else:
            P = case["P"]
            labels = [int(v) for v in rng.permutation(P)[:case["p"]]]
        out = [0] * P
        for i in range(case["p"]):
            for j in G.bits(small[i]):
                out[labels[i]] |= 1 << labels[j]
        Ibig = sum(1 << labels[t] for t in G.bits(case["I"]))
        rec.count("embedded:graphs")
        _judge_dag(U, out, gmat.to_np(out), Ibig, family, case, rec, ("e", case["p"], case["code3"], case["I"]))
    elif family == "shape-dagI":
        out0 = gmat.named_shapes(case["p"])[case["shape"]]
        if G.n_edges(out0) > 11:
            return
        out = gmat.relabel(out0, util.rng_for("shape", case["p"], case["shape"], case["rep"])) if case["rep"] else list(out0)
        rec.count("shapes:" + case["shape"])
        rngI = util.rng_for("C10shape", case["p"], case["shape"], case["rep"])
        for I in sorted(set(int(x) for x in rngI.integers(0, 1 << len(out), 4))):
            _judge_dag(U, out, gmat.to_np(out), I, family, dict(case, I=I), rec, ("shape", case["p"], case["shape"], case["rep"], I),
                       chain_variants=(True, False))
    elif family == "sampled-dagI":
        out = list(case["masks"])
        _judge_dag(U, out, gmat.hostile_array(gmat.to_np(out), sum(out) + case["I"]), case["I"], family, case, rec, None)
    elif family == "library-chain-edited":
        A = _gc.library_chain_edited(U, ("C10lc", case["seed"], case["k"]))
        rngI = util.rng_for("C10lcI", case["seed"], case["k"])
        rec.count("graphs-built-from-library-chain_graph")
        _judge_dag(U, gmat.masks(A), A, int(rngI.integers(0, 1 << len(A))), family, case, rec, None, chain_variants=(True, False))
    elif family == "weightedI":
        W = case["W"]
        _judge_dag(U, gmat.masks(W), W, case["I"], family, case, rec, None)
    elif family == "chainI":
        p = case["p"]
        out = [(1 << (i + 1)) if i + 1 < p else 0 for i in range(p)]
        rec.count("imec:chain-shortcut")
        if p <= 9:
            _judge_dag(U, out, gmat.to_np(out, dtype=float), case["I"], family, case, rec, ("chain", p, case["I"]), chain_variants=(True, False))
        else:
            # oracle for long chains: members = roots r whose induced parents agree on the targets
            I = set(G.bits(case["I"]))
            want = set()
            inn = G.transpose(out)
            for r in range(p):
                g = [0] * p
                for j in range(r, 0, -1):
                    g[j] |= 1 << (j - 1)
                for j in range(r, p - 1):
                    g[j] |= 1 << (j + 1)
                gi = G.transpose(g)
                if all(gi[t] == inn[t] for t in I):
                    want.add(tuple(g))
            rec.case(family, case, 0 < len(I) < p, key=("chain", p, case["I"]))
            A = gmat.to_np(out, dtype=float)
            _gc.scribble_related(U, A, rec, ("mec", "chain_graph_MEC"))
            for cc in (True, False):
                try:
                    lst, got = _gc.result_set(U.imec(A, set(I), check_chain=cc) if (p + len(I)) % 2 else U.imec(A, set(I), cc))
                except Exception as e:
                    rec.exception_violation("C10:imec-exception", family, case, "imec raised on a chain", e)
                    continue
                diff = _gc.compare_sets(lst, got, want)
                if diff:
                    rec.violation("C10:imec-chain-%s-%s" % ("shortcut" if cc else "general", diff["kind"]), family, case,
                                  "imec(chain p=%d, I=%s, check_chain=%s): %d graphs, expected %d" % (p, sorted(I), cc, len(lst), len(want)), **diff)
    elif family == "pdagI":
        out = G.pdag_from_code(case["p"], case["code"])
        if not G.directed_part_acyclic(out):
            rec.count("out_of_domain:cyclic-directed-part")
            return
        p = case["p"]
        targets = G.bits(case["I"])
        parts = G.Parts(out)
        und_at_target = any(parts.nb[t] for t in targets)
        P = gmat.to_np(out)
        ctx = {"pdag": _gc.rows(out), "targets": targets}
        ext = G.extensions(out)
        key = (p, case["code"], case["I"])
        try:
            res = U.pdag_to_icpdag(P, set(targets))
            raised = None
        except ValueError as e:
            res, raised = None, e
        except Exception as e:
            rec.case(family, case, True, key=key)
            rec.exception_violation("C10:pdag_to_icpdag-exception", family, case, "pdag_to_icpdag raised a non-ValueError", e)
            return
        if und_at_target:
            rec.case(family, case, True, key=key)
            rec.count("picpdag:valueerror-expected")
            if raised is None:
                rec.violation("C10:pdag_to_icpdag-no-valueerror", family, case,
                              "pdag_to_icpdag accepted a PDAG with an undirected edge at a target", returned=np.asarray(res), **ctx)
            return
        if not ext:
            rec.case(family, case, True, key=key)
            rec.count("picpdag:no-extension")
            if raised is None:
                rec.violation("C10:pdag_to_icpdag-unextendable-accepted", family, case,
                              "pdag_to_icpdag returned a graph for a PDAG without consistent extension", **ctx)
            return
        members = G.imec_of(ext[0], targets)
        rec.case(family, case, len(G.mec_of(ext[0])) >= 2, key=key)
        rec.count("picpdag:value-expected")
        if raised is not None:
            rec.violation("C10:pdag_to_icpdag-spurious-valueerror", family, case,
                          "pdag_to_icpdag raised ValueError for a valid PDAG: %s" % raised, **ctx)
            return
        wantg = G.union_graph(members, p)
        got = gmat.masks(res)
        if got != wantg:
            rec.violation("C10:pdag_to_icpdag-wrong", family, case, "pdag_to_icpdag differs from the I-essential graph",
                          returned=_gc.rows(got), expected=_gc.rows(wantg), **ctx)
    else:
        raise RuntimeError("unknown family " + family)
