"""C18 - add_edges / remove_edges change exactly the requested number of edges.

Monitor: post-condition / exception contract at the call boundary.
Oracle: pattern inclusion, edge counts, acyclicity by the reference DFS, exact
feasibility bound (|E| for removal, p(p-1)/2 - |E| for addition).
"""
import numpy as np

from ..core import util
from ..oracles import graphs as G
from ..workloads import gmat
from . import _gc

TECHNIQUE = "runtime post-condition and exception-contract monitor on add_edges/remove_edges vs. edge-count / inclusion / reference-DFS oracle; every DAG p<=4 x every count 0..max+1 x seeds, random weighted DAGs p<=9"
LEVEL_TEXT = ("For every DAG on p<=4 nodes, every requested count from 0 to one past the feasible maximum and several seeds (plus the "
              "default seed), and for random binary / signed-weight DAGs to p=9 including empty and complete ones, the result is "
              "checked: sub-/super-graph of the input pattern, exact edge count, acyclic, no self-loop or two-cycle, ValueError "
              "exactly when infeasible (any other exception is a violation), same seed => same result, input untouched.")
LEVEL_NOTE = "Trusted: reference cycle detector. Larger graphs sampled."
RULE = ("cases: (DAG, operation, count, seed).  distinct = distinct tuple; non-trivial = 0 < count (feasible or exactly one past "
        "the maximum) on a graph with >= 1 edge or >= 3 nodes"
        ' Also: array presentations, minute weights, numpy signed / unsigned counts, relabelled chains p=5..16 x 12 seeds, near-complete DAGs on 35-40 nodes, repeat after the caller overwrote the result.')
ASSUMPTIONS = ["results are judged on their non-zero pattern (both functions document returning a 0/1 graph)"]
EXHAUSTIVE = {"quick": True, "thorough": True}
SOFT_LIMIT = {"quick": 1200, "thorough": 5400}      # generous wall-clock watchdogs (a loaded machine must not cut a workload short); normal run times are in the evidence
REQUIRED_FUNCS = ["sempler/utils.py:add_edges", "sempler/utils.py:remove_edges"]
REQUIRED_COUNTERS = {"quick": {"add:feasible": 2000, "add:infeasible": 300, "remove:feasible": 2000, "remove:infeasible": 300, "add:to-complete": 100, "remove:all": 100},
                     "thorough": {"add:feasible": 20000, "add:infeasible": 3000, "remove:feasible": 20000, "remove:infeasible": 3000, "add:to-complete": 100, "remove:all": 100}}
N = {"quick": {"seeds": (None, 0, 7), "random": 1500}, "thorough": {"seeds": (None, 0, 1, 7, 42, 2**32 - 1), "random": 250000}}


def gen(tier, seed, shard, nshards):
    idx = 0
    for p in (1, 2, 3, 4):
        for code in G.all_dag_codes(p):
            if idx % nshards == shard:
                yield "dag", {"p": p, "code3": code}
            idx += 1
    # relabelled chains (long directed paths) x every count x a dozen seeds
    c = 0
    for p in range(5, 17):
        for rep in range(2):
            if c % nshards == shard:
                rng = util.rng_for("C18", seed, "chain", p, rep)
                order = [int(v) for v in rng.permutation(p)]
                out = [0] * p
                for a in range(p - 1):
                    out[order[a]] |= 1 << order[a + 1]
                yield "chain", {"A": gmat.to_np(out, dtype=float if rep else int), "seeds": list(range(40))}
            c += 1
    # several unconnected short chains: adding edges joins them end to start
    for sizes in ((3, 3), (2, 2, 2), (3, 4), (4, 4), (2, 3, 3), (5, 3)):
        for rep in range(2):
            if c % nshards == shard:
                rng = util.rng_for("C18", seed, "multichain", sizes, rep)
                p_ = sum(sizes)
                order = [int(v) for v in rng.permutation(p_)]
                out = [0] * p_
                pos = 0
                for sz in sizes:
                    for a in range(pos, pos + sz - 1):
                        out[order[a]] |= 1 << order[a + 1]
                    pos += sz
                yield "chain", {"A": gmat.to_np(out, dtype=float if rep else int), "seeds": list(range(120)), "multi": True}
            c += 1
    # near-complete DAGs on 35..40 nodes (astronomically many directed walks between far-apart nodes)
    for pbig in range(35, 41):
        if pbig % nshards == shard:
            rng = util.rng_for("C18", seed, "big", pbig)
            order = [int(v) for v in rng.permutation(pbig)]
            out = [0] * pbig
            for a in range(pbig):
                for b in range(a + 1, pbig):
                    out[order[a]] |= 1 << order[b]
            for (a, b) in ((0, pbig - 1), (1, pbig - 2), (0, pbig // 2)):       # a few far-apart pairs left non-adjacent
                out[order[a]] &= ~(1 << order[b])
            yield "big", {"A": gmat.to_np(out), "seeds": list(range(8))}
    # complete DAGs on 258 / 514 nodes minus the edge first -> last, as 8-bit matrices: 256 (512) intermediate nodes between the only
    # non-adjacent pair - counts of two-step walks wrap to 0 in 8-bit arithmetic
    for wb, (pw, dt) in enumerate(((258, "uint8"), (258, "int8"), (514, "uint8"), (258, "bool"))):
        if wb % nshards == shard and (tier == "thorough" or pw == 258):
            rng = util.rng_for("C18", seed, "wrap", pw, dt)
            order = [int(v) for v in rng.permutation(pw)]
            out = [0] * pw
            for a in range(pw):
                for b in range(a + 1, pw):
                    out[order[a]] |= 1 << order[b]
            out[order[0]] &= ~(1 << order[pw - 1])
            yield "big", {"A": gmat.to_np(out).astype(dt), "seeds": list(range(6))}
    for k in range(N[tier]["random"]):
        if k % nshards == shard:
            rng = util.rng_for("C18", seed, "r", k)
            p = int(rng.integers(2, 10))
            kind = k % 5
            if kind == 0:
                out = [0] * p
            elif kind == 1:     # complete DAG under a random order
                order = list(rng.permutation(p))
                out = [0] * p
                for a in range(p):
                    for b in range(a + 1, p):
                        out[int(order[a])] |= 1 << int(order[b])
            else:
                out = gmat.random_dag_masks(rng, p)
            W = gmat.weighted(rng, out, dtype=int if k % 2 else float) if kind >= 3 else gmat.to_np(out, dtype=float if k % 2 else int)
            yield "random", {"A": W, "rs": int(rng.integers(0, 2**32))}


def _judge_one(U, op, A, out, k, rs, family, case, rec):
    p = len(out)
    E = G.n_edges(out)
    cap = E if op == "remove" else p * (p - 1) // 2 - E
    feasible = k <= cap
    fn = U.remove_edges if op == "remove" else U.add_edges
    before = A.copy()
    kw = {} if rs is None else {"random_state": rs}
    ctx = {"matrix": A, "count": k, "random_state": rs, "edges": E, "feasible_max": cap}
    rec.count("%s:%s" % (op, "feasible" if feasible else "infeasible"))
    try:
        kk = k
        if (k + E) % 3 == 0:
            kk = np.int64(k)
        elif (k + E) % 3 == 1 and k >= 0:
            kk = (np.uint64, np.uint8, np.uint16)[(k + p) % 3](k) if k < 250 else np.uint64(k)      # unsigned counts, as A.sum() of an unsigned matrix gives
        R = fn(A, kk, *kw.values()) if (k + p) % 2 and list(kw) == ["random_state"] else fn(A, kk, **kw)
        raised = None
    except ValueError as e:
        R, raised = None, e
    except Exception as e:
        rec.exception_violation("C18:%s-%s" % (op, type(e).__name__), family, case,
                                "%s_edges(count=%d, feasible max %d) raised %s" % (op, k, cap, type(e).__name__), e)
        return
    if not (A == before).all() or A.dtype != before.dtype:
        rec.violation("C18:%s-input-mutated" % op, family, case, "%s_edges modified its input" % op, **ctx)
    if not feasible:
        if raised is None:
            rec.violation("C18:%s-no-valueerror" % op, family, case,
                          "%s_edges returned a graph for an infeasible request (count %d > %d)" % (op, k, cap), returned=np.asarray(R), **ctx)
        return
    if raised is not None:
        rec.violation("C18:%s-spurious-valueerror" % op, family, case,
                      "%s_edges raised ValueError for a feasible request (count %d <= %d)" % (op, k, cap), **ctx)
        return
    R = np.asarray(R)
    if R.shape != A.shape:
        rec.violation("C18:%s-shape" % op, family, case, "result shape %r" % (R.shape,), **ctx)
        return
    ro = gmat.masks(R)
    if op == "remove":
        sub = all(ro[i] & ~out[i] == 0 for i in range(p))
        if not sub:
            rec.violation("C18:remove-not-subgraph", family, case, "remove_edges result is not a subgraph", returned=R, **ctx)
        if G.n_edges(ro) != E - k:
            rec.violation("C18:remove-wrong-count", family, case, "remove_edges: %d edges left, expected %d" % (G.n_edges(ro), E - k), returned=R, **ctx)
        if k == E and E > 0:
            rec.count("remove:all")
    else:
        sup = all(out[i] & ~ro[i] == 0 for i in range(p))
        if not sup:
            rec.violation("C18:add-not-supergraph", family, case, "add_edges result lost an edge of the input", returned=R, **ctx)
        if G.n_edges(ro) != E + k:
            rec.violation("C18:add-wrong-count", family, case, "add_edges: %d edges, expected %d" % (G.n_edges(ro), E + k), returned=R, **ctx)
        if G.has_cycle(ro):
            rec.violation("C18:add-cyclic", family, case, "add_edges result has a cycle / two-cycle / self-loop", returned=R, **ctx)
        if k == cap and k > 0:
            rec.count("add:to-complete")
    # determinism in random_state - also after the caller overwrote the array he was given
    Rc = R.copy()
    if R.flags.writeable and (k + E) % 2:
        R[...] = 5
        rec.count("repeat-after-caller-overwrote-result")
    R = Rc
    try:
        R2 = np.asarray(fn(A, k, **kw))
        if R2.shape != R.shape or not (R2 == R).all():
            rec.violation("C18:%s-not-deterministic" % op, family, case, "two calls with random_state=%r differ" % (rs,), **ctx)
    except Exception as e:
        rec.exception_violation("C18:%s-second-call-exception" % op, family, case, "second identical call raised", e)


def judge(family, case, rec):
    import sempler.utils as U
    if family == "dag":
        out = G.dag_from_code3(case["p"], case["code3"])
        A = gmat.to_np(out, dtype=int if case["code3"] % 2 else float)
        seeds = N[rec.tier]["seeds"]
    elif family in ("chain", "big"):
        A = case["A"]
        out = gmat.masks(A)
        seeds = tuple(case["seeds"])
    else:
        A = case["A"]
        out = gmat.masks(A)
        seeds = (case["rs"],)
    A = gmat.hostile_array(A, sum(out) + len(out))
    p = len(out)
    E = G.n_edges(out)
    full = p * (p - 1) // 2
    for op, cap in (("remove", E), ("add", full - E)):
        ks = range(0, cap + 2) if family == "dag" else (sorted(set([0, cap, cap + 1, max(0, cap // 2), 1])) if family not in ("chain", "big") else
                                                        sorted(set([1, 2, 3, cap // 2, cap])) if op == "add" else [1])
        if case.get("multi"):
            ks = [2, 3, 4, cap] if op == "add" else [1]
        if family == "big":
            ks = [1, cap] if op == "add" else [2]
        for k in ks:
            for rs in seeds:
                rec.case(family, {"graph": case, "op": op, "count": k, "rs": rs}, bool(k > 0 and (E >= 1 or p >= 3)),
                         key=(op, tuple(out), k, rs, A.dtype.str, float(np.abs(A).sum())))
                _judge_one(U, op, A, out, k, rs, family, case, rec)
