"""C02 - ANM samples satisfy the structural assignments row by row.

Monitor: instrumented collaborators.  Every noise / intervention distribution is a
recording generator (its draws are known to the checker), every assignment is a
deterministic, argument-order-sensitive function that logs what it was handed.
After ANM.sample returns, each column is re-derived from the *final* matrix with
the checker's own parent sets and compared (rtol = atol = 1e-12).
"""
import numpy as np

from ..core import util
from ..oracles import graphs as G
from ..workloads import gmat, callforms

TECHNIQUE = "runtime monitor with recording noise/assignment callables around ANM.sample; row equations re-derived from the final sample with the checker's own parent sets"
LEVEL_TEXT = ("For thousands of random DAGs (p<=8, signed and cancelling weight matrices as adjacency), non-symmetric non-linear "
              "assignments returning vectors, columns or scalars, and all combinations of do / shift / noise target sets (do may "
              "overlap the others), every column of the returned sample is recomputed from the final parent columns and the "
              "recorded draws; the arrays actually handed to the assignments are compared with the parents' final columns.")
LEVEL_NOTE = "Trusted: the checker's callables. User callables with side effects are not modelled. n in {0,1,2,5,1000}."
RULE = ("cases: (adjacency, assignment kinds, intervention target sets, n).  distinct = distinct canonical case; non-trivial = "
        "at least one non-source variable and n >= 1"
        ' Also: models with up to 14 variables (labels >= 8), adjacency matrices mixing 18 orders of magnitude or holding minute non-zero weights, numpy-int n and keys, noise distributions that replay a stored table (same array object each call, two consecutive samples).')
ASSUMPTIONS = ["targets that are simultaneously shift- and noise-intervened are excluded (the property's quantifier does)"]
EXHAUSTIVE = {"quick": False, "thorough": False}
SOFT_LIMIT = {"quick": 1200, "thorough": 5400}      # generous wall-clock watchdogs (a loaded machine must not cut a workload short); normal run times are in the evidence
REQUIRED_FUNCS = ["sempler/anm.py:ANM.sample", "sempler/anm.py:ANM.__init__"]
REQUIRED_COUNTERS = {"quick": {"columns:do": 1000, "columns:shift": 1000, "columns:noise-iv": 1000, "columns:plain": 3000,
                               "columns:do-overrides-other": 300, "assign:column-returning": 500, "assign:scalar-returning": 200,
                               "adjacency:cancelling": 300, "n:0": 100},
                     "thorough": {"columns:do": 10000, "columns:shift": 10000, "columns:noise-iv": 10000, "columns:plain": 30000,
                                  "columns:do-overrides-other": 3000, "assign:column-returning": 5000, "assign:scalar-returning": 2000,
                                  "adjacency:cancelling": 3000, "n:0": 1000}}
N = {"quick": 6000, "thorough": 900000}
NS = (0, 1, 2, 5, 1000, 5, 2, 5)


def gen(tier, seed, shard, nshards):
    for k in range(N[tier]):
        if k % nshards != shard:
            continue
        rng = util.rng_for("C02", seed, k)
        p = int(rng.integers(1, 9)) if k % 3 else int(rng.integers(9, 15))
        out = gmat.random_dag_masks(rng, p)
        style = k % 6
        if style == 4:
            A = gmat.weighted(rng, out, "tiny")                       # minute next to ordinary weights: still edges
        elif style == 5:
            A = gmat.weighted(rng, out, "signed") * (10.0 ** rng.integers(-9, 10, size=(p, p)))   # 18 orders of magnitude in one matrix
        elif style == 0:
            A = gmat.to_np(out, dtype=int)
        elif style == 1:
            A = gmat.weighted(rng, out, "cancel")
        elif style == 2:
            A = gmat.weighted(rng, out, "negative")
        else:
            A = gmat.weighted(rng, out, "signed")
        kinds = [int(x) for x in rng.integers(0, 5, p)]
        do = sorted(int(v) for v in np.where(rng.random(p) < 0.25)[0])
        lab = rng.integers(0, 4, p)           # 1: shift, 2: noise (disjoint by construction)
        shift = sorted(int(v) for v in np.where(lab == 1)[0])
        noise = sorted(int(v) for v in np.where(lab == 2)[0])
        if k % 9 == 0:
            do, shift, noise = [], [], []
        yield "anm", {"A": A, "kinds": kinds, "do": do, "shift": shift, "noise": noise, "n": NS[k % len(NS)],
                      "rs": None if k % 3 else int(rng.integers(0, 2**31)), "src_null": bool(k % 5 == 0), "cseed": int(rng.integers(0, 2**31))}


def _assignment(kind, npar, log, key):
    """Returns (logging function handed to the library, pure twin used by the oracle)."""
    w = np.arange(1, npar + 1, dtype=float)

    def pure(x):
        x = np.asarray(x, dtype=float)
        if kind in (0, 2):
            r = x @ w + x[:, 0] * x[:, -1] * 0.5 - 0.25 * x[:, 0]
            return r if kind == 0 else r.reshape(-1, 1)
        if kind == 1:
            return np.sin(x @ (w * 0.7).reshape(-1, 1)) + 0.1 * x[:, [0]]
        if kind == 3:
            return np.tanh(x @ w[::-1]) * 2.0
        return 2.5      # scalar-returning, ignores its input

    def logged(x):
        log.setdefault(key, []).append(np.array(x, copy=True))
        r = pure(x)
        # the value the library was actually given back (the same function on another memory layout of the same numbers may round
        # differently: the oracle must not recompute it)
        log.setdefault(("assign-out",) + tuple(key[1:]), []).append(np.array(r, dtype=float, copy=True))
        if kind in (1, 3) and isinstance(x, np.ndarray) and x.flags.writeable and x.size:
            # a user's assignment may work in place on the array it is handed (x *= ..., x -= x.mean()): that array is the
            # function's to use, the sample must not change with it
            x[...] = -777.25
        return r
    return logged, pure


def _recording(rng_seed, log, key, scale):
    rng = np.random.default_rng(rng_seed)

    def draw(n):
        r = rng.normal(0.0, scale, n) + ((len(key[0]) + 3 * key[1]) % 7)
        log.setdefault(key, []).append(r.copy())
        return r
    return draw


def judge(family, case, rec):
    import sempler
    import sempler.functions
    A = case["A"]
    p = len(A)
    n = case["n"]
    out = gmat.masks(A)
    inn = G.transpose(out)
    parents = [G.bits(inn[i]) for i in range(p)]
    log = {}
    assigns, pures = [], []
    for i in range(p):
        if not parents[i]:
            assigns.append(sempler.functions.null if case["src_null"] else None)
            pures.append(None)
        else:
            lg, pu = _assignment(case["kinds"][i], len(parents[i]), log, ("assign", i))
            assigns.append(lg)
            pures.append(pu)
            if case["kinds"][i] in (1, 2):
                rec.count("assign:column-returning")
            if case["kinds"][i] == 4:
                rec.count("assign:scalar-returning")
    cs = case["cseed"]
    noises = [_recording((cs, 1, i), log, ("orig", i), 1.0 + 0.1 * i) for i in range(p)]
    tables = {}
    if cs % 5 == 0 and n > 0:
        # exogenous noise replayed from a table: the callable hands out (a view of) the same stored array every time
        for i in range(p):
            if i % 2 == 0:
                tab = np.random.default_rng((cs, 9, i)).normal(0.5 * i, 1.0, max(n, 1))
                tables[i] = (tab, tab.copy())

                def replay(m, tab=tab, i=i):
                    log.setdefault(("orig", i), []).append(tab[:m].copy())
                    return tab[:m]
                noises[i] = replay
        rec.count("noise:replayed-tables")
    do = {i: _recording((cs, 2, i), log, ("do", i), 0.5) for i in case["do"]}
    shift = {i: _recording((cs, 3, i), log, ("shift", i), 2.0) for i in case["shift"]}
    noise = {i: _recording((cs, 4, i), log, ("noiseiv", i), 3.0) for i in case["noise"]}
    nonsource = any(parents[i] for i in range(p))
    rec.case(family, case, bool(nonsource and n >= 1))
    if n == 0:
        rec.count("n:0")
    if ((A != 0).sum(axis=0) > 0).any() and (np.abs(A.sum(axis=0)) < 1e-12)[(A != 0).sum(axis=0) > 0].any():
        rec.count("adjacency:cancelling")
    A0 = A.copy()
    try:
        model = sempler.ANM(A, assigns, noises)
        if case["cseed"] % 3 == 0:
            do = {np.int64(k): v for k, v in do.items()}
        if case["cseed"] % 5 == 2:      # every argument positionally, in the documented order
            Xs = model.sample(*callforms.positional("ANM.sample", n, do_interventions=do, shift_interventions=shift, noise_interventions=noise, random_state=case["rs"]))
            rec.count("call-form:positional")
        else:
            Xs = model.sample(np.int64(n) if case["cseed"] % 4 == 0 else n, do_interventions=do, shift_interventions=shift, noise_interventions=noise, random_state=case["rs"])
    except Exception as e:
        rec.exception_violation("C02:exception-" + type(e).__name__, family, case, "ANM construction / sampling raised %s" % type(e).__name__, e)
        return
    if tables:
        # sample a second time (same interventions): the replayed noise must still be the stored one
        try:
            log.clear()
            Xs = model.sample(np.int64(n) if case["cseed"] % 4 == 0 else n, do_interventions=do, shift_interventions=shift,
                              noise_interventions=noise, random_state=case["rs"])
        except Exception as e:
            rec.exception_violation("C02:exception-" + type(e).__name__, family, case, "second ANM.sample call raised", e)
            return
        for i, (tab, orig) in tables.items():
            if not np.array_equal(tab, orig):
                rec.violation("C02:user-noise-table-modified", family, case,
                              "the array handed out by the noise distribution of variable %d was modified in place by ANM.sample" % i)
                return
    Xs = np.asarray(Xs)
    if Xs.shape != (n, p):
        rec.violation("C02:shape", family, case, "sample has shape %r, expected (%d, %d)" % (Xs.shape, n, p))
        return
    if not np.isfinite(Xs).all():
        rec.violation("C02:non-finite", family, case, "sample contains non-finite values")
        return

    def last(key):
        v = log.get(key)
        return None if not v else v[-1]

    for i in range(p):
        ctx = {"variable": i, "parents": parents[i], "do": case["do"], "shift": case["shift"], "noise": case["noise"]}
        if i in do:
            rec.count("columns:do")
            if i in shift or i in noise:
                rec.count("columns:do-overrides-other")
            d = last(("do", i))
            if d is None or len(d) != n or not np.array_equal(Xs[:, i], d):
                rec.violation("C02:do-column-not-the-intervention-draw", family, case,
                              "do-intervened variable %d does not equal its intervention draw" % i, **ctx)
            continue
        if parents[i]:
            Xpa = Xs[:, parents[i]]
            f = last(("assign-out", i))
            f = np.asarray(pures[i](Xpa), dtype=float) if f is None else np.asarray(f, dtype=float)
            f = f.reshape(-1) if f.ndim else f
            got_in = last(("assign", i))
            if got_in is None:
                rec.violation("C02:assignment-not-called", family, case, "assignment of variable %d was never evaluated" % i, **ctx)
            elif got_in.shape != Xpa.shape or not np.array_equal(got_in, Xpa):
                rec.violation("C02:assignment-input-not-parents", family, case,
                              "assignment of variable %d received an array (shape %r) that is not the final parent columns %s in increasing order"
                              % (i, got_in.shape, parents[i]), **ctx)
        else:
            f = 0.0
        o = last(("orig", i))
        if i in shift:
            rec.count("columns:shift")
            s = last(("shift", i))
            if o is None or s is None:
                rec.violation("C02:shift-draw-missing", family, case, "no original-noise or shift draw for variable %d" % i, **ctx)
                continue
            e = o + s
            mag = np.abs(o) + np.abs(s)
            key = "C02:shift-column-wrong"
        elif i in noise:
            rec.count("columns:noise-iv")
            e = last(("noiseiv", i))
            if e is None:
                rec.violation("C02:noise-iv-draw-missing", family, case, "noise intervention of variable %d was never drawn" % i, **ctx)
                continue
            key = "C02:noise-iv-column-wrong"
        else:
            rec.count("columns:plain")
            e = o
            if e is None:
                rec.violation("C02:noise-draw-missing", family, case, "noise of variable %d was never drawn" % i, **ctx)
                continue
            key = "C02:column-wrong"
        want = f + e
        # the three terms may be added in any order: a few ulps of the largest term, nothing more
        tol_ = 16 * np.finfo(float).eps * (np.abs(f) + (mag if i in shift else np.abs(e))) + 1e-300
        if want.shape != (n,) or not (np.abs(Xs[:, i] - want) <= tol_).all():
            err = float(np.max(np.abs(Xs[:, i] - want))) if n and want.shape == (n,) else float("nan")
            rec.violation(key, family, case, "column %d != assignment(final parents) + noise (max abs error %.3g)" % (i, err), **ctx)
    if (A != A0).any():
        rec.violation("C02:adjacency-mutated", family, case, "the adjacency passed to ANM was modified")
