"""C06 - population regression and MSE are the least-squares solution.

Monitor: post-conditions on NormalDistribution.regress / .mse.  Oracle: the
normal equations evaluated in exact arithmetic on the returned floats (backward
error), the exact Schur complement for the MSE, and the causal link to LGANM
weights through LGANM.sample(population=True).
"""
import itertools

import numpy as np

from ..core import util
from ..oracles import exact as X
from ..oracles import graphs as G
from ..workloads import gmat
from .C05 import make_dist

TECHNIQUE = "runtime post-condition monitor on regress/mse: exact-arithmetic residuals of the normal equations, exact Schur-complement MSE, metamorphic relations, and recovery of LGANM weights from its population distribution"
LEVEL_TEXT = ("For random SPD covariances (cond 1..1e8, integer matrices, p<=8) every (y, S) pair for p<=5 and sampled pairs beyond "
              "is judged: coefficients zero outside S, normal-equation residual and intercept identity in exact arithmetic on the "
              "returned floats, MSE against the exact conditional variance, non-negativity, mean-independence, order-invariance of S, "
              "monotonicity under added regressors, S given as int / list / range / ndarray.  For random LGANMs (signed weights, "
              "positive variances, with and without interventions) regressing each variable on its parents must return the "
              "incoming weights, the noise mean and the noise variance.")
LEVEL_NOTE = "Trusted: Fraction arithmetic; literal intervention semantics of vf.oracles.exact.intervene. cond-scaled tolerances (1e3*eps*cond)."
RULE = ("cases: (mean, covariance, y, S) and (LGANM, interventions, variable).  distinct = distinct canonical case; non-trivial = "
        "|S| >= 1 and S != {y} for distributions; a variable with >= 1 parent for LGANMs"
        ' Also: badly scaled variables (gross-error regime), models in other units, int8/int16/int32/float32/bool weight matrices, S as int32/int16/uint8 arrays, the same object asked again after new means were assigned to it.')
ASSUMPTIONS = ["C_SS non-singular with 1e3*eps*cond(C_SS) <= 1e-4, else the case is counted too_ill_conditioned",
               "LGANM link judged only for noise variances >= 0.05 after intervention and cond(I-W^T) small enough"]
EXHAUSTIVE = {"quick": False, "thorough": False}
SOFT_LIMIT = {"quick": 1200, "thorough": 5400}      # generous wall-clock watchdogs (a loaded machine must not cut a workload short); normal run times are in the evidence
REQUIRED_FUNCS = ["sempler/normal_distribution.py:NormalDistribution.regress", "sempler/normal_distribution.py:NormalDistribution.mse",
                  "sempler/lganm.py:LGANM.sample"]
REQUIRED_COUNTERS = {"quick": {"judged:regress": 10000, "judged:mse": 10000, "S:empty": 300, "S:contains-y": 300, "S:int": 200, "S:range": 200,
                               "meta:monotone": 2000, "meta:order": 2000, "meta:mean-free": 2000, "lganm:variables-with-parents": 2000,
                               "lganm:intervened": 1000},
                     "thorough": {"judged:regress": 100000, "judged:mse": 100000, "S:empty": 3000, "S:contains-y": 3000, "S:int": 2000, "S:range": 2000,
                                  "meta:monotone": 20000, "meta:order": 20000, "meta:mean-free": 20000, "lganm:variables-with-parents": 20000,
                                  "lganm:intervened": 10000}}
N = {"quick": {"dist": 1600, "lganm": 2000}, "thorough": {"dist": 150000, "lganm": 250000}}
EPS = 2.0 ** -52


def gen(tier, seed, shard, nshards):
    for k in range(N[tier]["dist"]):
        if k % nshards != shard:
            continue
        rng = util.rng_for("C06", seed, "d", k)
        mean, cov = make_dist(rng, k)
        p = len(mean)
        pairs = []
        if p <= 5:
            allp = [(y, list(S)) for y in range(p) for r in range(p + 1) for S in itertools.combinations(range(p), r)]
            if len(allp) > 40:
                allp = [allp[int(i)] for i in rng.choice(len(allp), 40, replace=False)]
            pairs = allp
        else:
            for _ in range(16):
                y = int(rng.integers(p))
                S = [int(v) for v in np.where(rng.random(p) < rng.uniform(0.1, 0.8))[0]]
                pairs.append((y, S))
        qs = []
        for (y, S) in pairs:
            S = [int(v) for v in rng.permutation(S)] if len(S) > 1 and rng.random() < 0.5 else S
            qs.append({"y": y, "S": S, "form": int(rng.integers(0, 7))})
            if len(S) == 1 and S[0] != 0 and rng.random() < 0.5:
                # the same target next with the two-element set [a, 0] given as an array of half the width
                qs.append({"y": y, "S": [S[0], 0], "form": 4})
        yield "dist", {"mean": mean, "cov": cov, "queries": qs, "k": k}
    for k in range(N[tier]["lganm"]):
        if k % nshards != shard:
            continue
        rng = util.rng_for("C06", seed, "l", k)
        p = int(rng.integers(2, 9))
        out = gmat.random_dag_masks(rng, p)
        W = gmat.weighted(rng, out, "signed" if k % 2 else "int")
        if k % 10 == 0:
            W = W.astype((np.int8, np.int16, np.int32, np.float32)[(k // 10) % 4])      # narrow weight dtypes (values fit)
        elif k % 10 == 5:
            W = (W != 0)                                                             # 0/1 adjacency as bool: unit weights
        means = np.round(rng.uniform(-3, 3, p), 3)
        variances = np.round(rng.uniform(0.1, 4, p), 3)
        if k % 4 == 0:     # other units: noise variances down to 1e-18 / up to 1e12
            sc = float(10.0 ** rng.integers(-9, 7))
            means, variances = means * sc, variances * sc * sc
        else:
            sc = 1.0
        iv = {"do": {}, "noise": {}, "shift": {}}
        if k % 3:
            for j in (int(v) for v in rng.permutation(p)):
                r = rng.random()
                par = (float(np.round(rng.uniform(-3, 3), 2)) * sc, float(np.round(rng.uniform(0.1, 3), 2)) * sc * sc)
                if r < 0.15:
                    iv["do"][j] = par
                elif r < 0.3:
                    iv["noise"][j] = par
                elif r < 0.45:
                    iv["shift"][j] = par
                if r < 0.45 and rng.random() < 0.3:
                    # a second kind of intervention on the same target (do overrides noise overrides shift)
                    other = ["do", "noise", "shift"][int(rng.integers(3))]
                    if j not in iv[other]:
                        iv[other][j] = (float(np.round(rng.uniform(-3, 3), 2)) * sc, float(np.round(rng.uniform(0.1, 3), 2)) * sc * sc)
        yield "lganm", {"W": W, "means": means, "variances": variances, "iv": iv}


def _Sform(S, form):
    if form in (4, 5, 6):
        return np.array(S, dtype=(np.int32, np.int16, np.uint8)[form - 4])      # index arrays of a narrower integer type
    if form == 1:
        return np.array(S, dtype=int)
    if form == 2 and len(S) == 1:
        return int(S[0])
    if form == 3 and S and S == list(range(S[0], S[0] + len(S))):
        return range(S[0], S[0] + len(S))
    return list(S)


def _judge_pair(dist, Fm, Fc, mf, cf, y, S, form, rec, family, sub):
    p = len(mf)
    Sarg = _Sform(S, form)
    if isinstance(Sarg, int):
        rec.count("S:int")
    if isinstance(Sarg, range):
        rec.count("S:range")
    if not S:
        rec.count("S:empty")
    if y in S:
        rec.count("S:contains-y")
    # the response index as the numpy integers that np.arange / np.flatnonzero / topological orderings yield
    yarg = (y, np.int64(y), y, np.intp(y), y, np.int32(y))[(form + y + len(S)) % 6]
    if not isinstance(yarg, int):
        rec.count("y:numpy-integer")
    Su = sorted(set(S))
    if Su:
        Css = cf[np.ix_(Su, Su)]
        kappa2 = float(np.linalg.cond(Css))
        dd = np.sqrt(np.abs(np.diag(Css)))
        kappa_s = float(np.linalg.cond(Css / np.outer(dd, dd))) if (dd > 0).all() else float("inf")     # of the correlation matrix
    else:
        kappa2 = kappa_s = 1.0
    # sound regime: guaranteed normwise bound; badly scaled regime: gross errors only (see C05 and DESIGN.md section 8.3)
    if np.isfinite(kappa2) and 1e3 * EPS * kappa2 <= 1e-4:
        kappa, rel = kappa2, 1e3 * EPS * kappa2
    elif np.isfinite(kappa_s) and kappa_s <= 1e6:
        kappa, rel = kappa_s, 1e-3
        rec.count("regime:badly-scaled-gross-error-only")
    else:
        rec.count("too_ill_conditioned")
        return None
    ctx = {"y": y, "S": S, "cond": kappa}
    try:
        coefs, intercept = dist.regress(yarg, Sarg)
        coefs = np.asarray(coefs, dtype=float)
    except Exception as e:
        rec.exception_violation("C06:regress-exception", family, sub, "regress raised %s" % type(e).__name__, e)
        return None
    rec.count("judged:regress")
    if coefs.shape != (p,):
        rec.violation("C06:regress-shape", family, sub, "coefficient vector has shape %r" % (coefs.shape,), **ctx)
        return None
    outside = [j for j in range(p) if j not in Su and coefs[j] != 0]
    if outside:
        rec.violation("C06:coefficients-outside-S", family, sub, "non-zero coefficients at %s outside S" % outside, coefs=coefs, **ctx)
    # normal equations in exact arithmetic on the returned floats
    b = [X.F(float(v)) for v in coefs]
    if Su:
        res = max(abs(Fc[s][y] - sum((b[j] * Fc[j][s] for j in Su), X.F(0))) for s in Su)
        bn = float(np.max(np.abs(coefs)))
        scale = float(np.max(np.abs(cf[np.ix_(Su, Su)]))) * bn * len(Su) + float(np.max(np.abs(cf[Su, y])))
        rec.max("max-normal-eq-residual/(eps*scale)", float(res) / (EPS * max(scale, 1e-300)))
        # a backward-stable solve leaves a residual ~ eps * (|C||b| + |c|); allow 1e3
        if float(res) > 1e3 * EPS * scale + 1e-300:
            rec.violation("C06:residual-correlated-with-regressor", family, sub,
                          "cov(y - b.X, X_s) = %.3g for some s in S (tolerance %.3g)" % (float(res), 1e3 * EPS * scale), coefs=coefs, **ctx)
    ires = abs(Fm[y] - sum((b[j] * Fm[j] for j in range(p)), X.F(0)) - X.F(float(intercept)))
    iscale = abs(mf[y]) + float(np.sum(np.abs(coefs) * np.abs(mf)))
    if float(ires) > 1e3 * EPS * iscale + 1e-300:
        rec.violation("C06:intercept-wrong", family, sub, "E[y - b.X - c] = %.3g (tolerance %.3g)" % (float(ires), 1e3 * EPS * iscale),
                      coefs=coefs, intercept=float(intercept), **ctx)
    # mse against the exact conditional variance
    try:
        mse = float(dist.mse(yarg, Sarg))
    except Exception as e:
        rec.exception_violation("C06:mse-exception", family, sub, "mse raised %s" % type(e).__name__, e)
        return None
    rec.count("judged:mse")
    Sx = [s for s in Su if s != y]
    if y in Su:
        want = X.F(0)
    else:
        _, C = X.conditional(Fm, Fc, [y], Sx, [X.F(0)] * len(Sx))
        want = C[0][0]
    if Su:
        Cinv = np.abs(np.array([[float(v) for v in r] for r in X.inv(X.block(Fc, Su, Su))]))
        cys = np.abs(cf[y, Su])
        mscale = abs(cf[y, y]) + float(cys @ Cinv @ cys)
    else:
        mscale = abs(cf[y, y])
    tol = rel * mscale + 1e-300
    rec.max("max-mse-error/(eps*cond*scale)", abs(mse - float(want)) / (EPS * kappa * max(mscale, 1e-300)))
    if not np.isfinite(mse) or abs(mse - float(want)) > tol:
        rec.violation("C06:mse-wrong", family, sub, "mse = %.17g, conditional variance = %.17g (tolerance %.3g)" % (mse, float(want), tol), **ctx)
    if mse < -tol:
        rec.violation("C06:mse-negative", family, sub, "mse = %.3g < 0" % mse, **ctx)
    return coefs, float(intercept), mse, tol


def judge(family, case, rec):
    import sempler
    if family == "dist":
        mean, cov = case["mean"], case["cov"]
        p = len(mean)
        dist = sempler.NormalDistribution(mean, cov)
        Fm, Fc = X.fvec(mean), X.fmat(cov)
        mf, cf = np.asarray(mean, dtype=float), np.asarray(cov, dtype=float)
        rng = util.rng_for("C06j", case["k"])
        shifted = sempler.NormalDistribution(mf + np.round(rng.uniform(-50, 50, p), 2), cov)
        for q in case["queries"]:
            y, S = q["y"], q["S"]
            sub = {"mean": mean, "cov": cov, "y": y, "S": S, "form": q["form"]}
            rec.case(family, sub, bool(len(S) >= 1 and set(S) != {y}))
            r = _judge_pair(dist, Fm, Fc, mf, cf, y, S, q["form"], rec, family, sub)
            if r is None:
                continue
            coefs, intercept, mse, tol = r
            ctx = {"y": y, "S": S}
            # independence of the means (a twin with other means; now and then the very same object gets new means
            # assigned, as the library's own tests do, and is asked again)
            try:
                if (y + len(S)) % 4 == 0:
                    old_mean = dist.mean
                    dist.mean = np.asarray(shifted.mean).copy()
                    try:
                        c2, i2 = dist.regress(y, list(S))
                        m2 = float(dist.mse(y, list(S)))
                        b2 = [X.F(float(v)) for v in c2]
                        ires2 = abs(X.F(float(dist.mean[y])) - sum((b2[j] * X.F(float(dist.mean[j])) for j in range(p)), X.F(0)) - X.F(float(i2)))
                        isc2 = abs(float(dist.mean[y])) + float(np.sum(np.abs(np.asarray(c2, dtype=float)) * np.abs(np.asarray(dist.mean, dtype=float))))
                        rec.count("history:means-reassigned-on-same-object")
                        if float(ires2) > 1e3 * EPS * isc2 + 1e-300:
                            rec.violation("C06:stale-intercept-after-new-means", family, sub,
                                          "after assigning new means to the same distribution object the intercept no longer centres the residual (off by %.3g)" % float(ires2), **ctx)
                    finally:
                        dist.mean = old_mean
                else:
                    c2, _ = shifted.regress(y, list(S))
                    m2 = float(shifted.mse(y, list(S)))
                rec.count("meta:mean-free")
                kS_ = float(np.linalg.cond(cf[np.ix_(sorted(set(S)), sorted(set(S)))])) if S else 1.0
                if float(np.max(np.abs(np.asarray(c2, dtype=float) - coefs))) > 1e3 * EPS * kS_ * (float(np.max(np.abs(coefs))) + 1e-300) \
                        or abs(m2 - mse) > 2 * tol:
                    rec.violation("C06:depends-on-means", family, sub, "coefficients / mse change when only the means change", **ctx)
            except Exception as e:
                rec.exception_violation("C06:mean-free-exception", family, sub, "regress/mse on the mean-shifted twin raised", e)
            # order invariance
            if len(S) >= 2:
                Sp = [int(v) for v in rng.permutation(S)]
                try:
                    m3 = float(dist.mse(y, Sp))
                    c3, i3 = dist.regress(y, Sp)
                    rec.count("meta:order")
                    scale_b = float(np.max(np.abs(coefs))) + 1e-300
                    if abs(m3 - mse) > 2 * tol or float(np.max(np.abs(np.asarray(c3) - coefs))) > 1e3 * EPS * float(np.linalg.cond(cf[np.ix_(sorted(set(S)), sorted(set(S)))])) * scale_b * 4:
                        rec.violation("C06:depends-on-order-of-S", family, sub, "mse / coefficients change with the order of S (%s vs %s)" % (S, Sp), **ctx)
                except Exception as e:
                    rec.exception_violation("C06:order-exception", family, sub, "regress/mse with permuted S raised", e)
            # monotone in S
            rest = [v for v in range(p) if v not in S]
            if rest:
                T = sorted(set(S) | {int(rng.choice(rest))})
                CT = cf[np.ix_(T, T)]
                dT = np.sqrt(np.abs(np.diag(CT)))
                kT = float(np.linalg.cond(CT / np.outer(dT, dT))) if (dT > 0).all() else float("inf")
                # the same two regimes as for the judged value itself (sound: normwise bound; badly scaled: gross errors only) - a
                # stricter tolerance here would reject implementations that are merely normwise accurate
                k2T = float(np.linalg.cond(CT))
                relT = 1e3 * EPS * k2T if (np.isfinite(k2T) and 1e3 * EPS * k2T <= 1e-4) else (1e-3 if (np.isfinite(kT) and kT <= 1e6) else None)
                if relT is not None:
                    try:
                        m4 = float(dist.mse(y, T))
                        rec.count("meta:monotone")
                        cysT = np.abs(cf[y, T])
                        CinvT = np.abs(np.linalg.inv(cf[np.ix_(T, T)]))
                        tolT = 10 * relT * (abs(cf[y, y]) + float(cysT @ CinvT @ cysT))
                        if m4 > mse + tol + tolT:
                            rec.violation("C06:mse-increases-with-more-regressors", family, sub,
                                          "mse(y,%s) = %.17g > mse(y,%s) = %.17g" % (T, m4, S, mse), **ctx)
                    except Exception as e:
                        rec.exception_violation("C06:monotone-exception", family, sub, "mse with an added regressor raised", e)
        return

    # ---- LGANM causal link
    W, means, variances, iv = case["W"], case["means"], case["variances"], case["iv"]
    p = len(W)
    Wi, mui, vari = X.intervene(X.fmat(W), X.fvec(means), X.fvec(variances), iv["do"], iv["noise"], iv["shift"])
    Wf = np.array([[float(v) for v in r] for r in Wi]).reshape(p, p)
    kappa = float(np.linalg.cond(np.eye(p) - Wf.T))
    try:
        model = sempler.LGANM(W, means, variances)
        dist = model.sample(population=True, do_interventions=iv["do"], noise_interventions=iv["noise"], shift_interventions=iv["shift"])
    except Exception as e:
        rec.exception_violation("C06:lganm-exception", family, case, "LGANM population sampling raised", e)
        return
    cf = np.asarray(dist.covariance, dtype=float)
    absA = np.abs(np.linalg.inv(np.eye(p) - Wf.T))
    intervened = any(iv[k] for k in iv)
    for j in range(p):
        pa = [i for i in range(p) if Wi[i][j] != 0]
        sub = {"model": case, "variable": j}
        rec.case(family, sub, bool(pa))
        if pa:
            rec.count("lganm:variables-with-parents")
        if intervened:
            rec.count("lganm:intervened")
        vj = float(vari[j])
        if vj < 0.05 * float(np.max(np.diag(cf))) * 1e-9 or vj <= 0:
            rec.count("lganm:variance-too-small")
            continue
        kS = float(np.linalg.cond(cf[np.ix_(pa, pa)])) if pa else 1.0
        # the covariance itself carries an error eps*kappa(I-W^T)^2 relative; regression amplifies by cond(C_papa)
        rel = 1e3 * EPS * kS * max(kappa, 1.0) ** 2
        if not np.isfinite(rel) or rel > 1e-5:
            rec.count("too_ill_conditioned")
            continue
        try:
            jarg = np.int64(j) if (j + len(pa)) % 3 == 0 else j
            coefs, intercept = dist.regress(jarg, pa)
            mse = float(dist.mse(jarg, pa))
        except Exception as e:
            rec.exception_violation("C06:lganm-regress-exception", family, sub, "regress/mse on the LGANM population distribution raised", e)
            continue
        coefs = np.asarray(coefs, dtype=float)
        want = np.zeros(p)
        for i in pa:
            want[i] = float(Wi[i][j])
        wscale = float(np.max(np.abs(want))) if pa else 0.0
        # scale of the problem: weights, and sqrt(var_j / smallest parent variance) for how well weights are identified
        sc = max(wscale, 1.0) * max(1.0, float(np.max(np.diag(cf))) / vj)
        err = float(np.max(np.abs(coefs - want)))
        ctx = {"variable": j, "parents": pa, "cond_parents": kS, "cond_model": kappa}
        rec.max("lganm:max-weight-error/tolerance", err / (rel * sc))
        if err > rel * sc:
            rec.violation("C06:lganm-weights-not-recovered", family, sub,
                          "regressing X%d on its parents gives %s, incoming weights are %s (err %.3g, tol %.3g)"
                          % (j, coefs[pa].tolist(), want[pa].tolist(), err, rel * sc), **ctx)
        # natural magnitude of the intercept computation: absolute path sums of the means (the population means themselves
        # carry a rounding error relative to these sums, not to their possibly cancelled values)
        absmean = absA @ np.abs(np.array([float(x) for x in mui]))
        # (normwise: the computed inverse of I - W^T is accurate relative to its largest entries, not row by row)
        mu_scale = float(absmean.max()) * (1.0 + float(np.sum(np.abs(want)))) + 1e-300
        if abs(float(intercept) - float(mui[j])) > rel * sc * mu_scale:
            rec.violation("C06:lganm-intercept-not-noise-mean", family, sub,
                          "intercept %.17g, noise mean %.17g" % (float(intercept), float(mui[j])), **ctx)
        if abs(mse - vj) > rel * sc * float(cf[j, j]):
            rec.violation("C06:lganm-mse-not-noise-variance", family, sub, "mse %.17g, noise variance %.17g" % (mse, vj), **ctx)
