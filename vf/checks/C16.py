"""C16 - structural decompositions of a graph are exact and weight-preserving.

Monitors: icontract post-conditions on only_directed, only_undirected, skeleton,
undirected_edges, directed_edges, edge_weights, vstructures, moral_graph,
induced_subgraph, is_clique, is_complete, degrees (module attributes of
sempler.utils, so internal calls are observed too).  Oracles: set-based
definitions over python lists / bitmasks.
"""
import numpy as np

from ..core import util
from ..oracles import graphs as G
from ..workloads import gmat
from . import _gc

TECHNIQUE = "icontract post-conditions installed on sempler.utils' decomposition functions (direct and internal calls) vs. set-based definitions; exhaustive binary PDAGs p<=4 x all node subsets + random PDAGs and signed weighted DAGs"
LEVEL_TEXT = ("Every return value of the twelve decomposition functions observed in the run - all binary PDAG codes p<=4 with all "
              "node subsets S, random binary PDAGs to p=9, signed / integer / cancelling weighted DAGs (entries must be kept "
              "exactly), and internal calls made by the CPDAG and extension routines - is compared with the definition; the "
              "identity only_directed + only_undirected == input is asserted bit-for-bit.")
LEVEL_NOTE = "Trusted: icontract wrapping, python-list oracles. Weighted PDAGs with undirected edges are outside the stated quantifier."
RULE = ("cases: a graph on which all twelve functions are called (S ranging over all subsets for p<=4, 6 random subsets beyond); "
        "'internal' cases drive higher-level routines with the contracts armed.  distinct = distinct (family, graph, weights); "
        "non-trivial = has both a directed and an undirected edge, or a collider, or a negative / non-unit weight"
        ' Also: relabelled embeddings, named shapes, array presentations, graphs up to 14 nodes, minute and cancelling weights.')
ASSUMPTIONS = ["inputs outside the quantifier (weighted two-cycles, non-zero diagonal, cyclic directed part) are counted out_of_domain"]
EXHAUSTIVE = {"quick": True, "thorough": True}
SOFT_LIMIT = {"quick": 1200, "thorough": 5400}      # generous wall-clock watchdogs (a loaded machine must not cut a workload short); normal run times are in the evidence
_FUNCS = ("only_directed", "only_undirected", "skeleton", "undirected_edges", "directed_edges", "edge_weights", "vstructures",
          "moral_graph", "induced_subgraph", "is_clique", "is_complete", "degrees")
REQUIRED_FUNCS = ["sempler/utils.py:" + f for f in _FUNCS]
REQUIRED_COUNTERS = {t: dict([("contract:%s:evaluated-direct" % f, 200) for f in _FUNCS]
                             + [("shielded-by-undirected-collider", 20)])     # evaluations on the library's internal calls are evidence only
                     for t in ("quick", "thorough")}
N = {"quick": {"random": 2500, "weighted": 4000, "internal_rate": 3}, "thorough": {"random": 200000, "weighted": 300000, "internal_rate": 1}}


def gen(tier, seed, shard, nshards):
    if tier == "thorough":
        for m, module in enumerate(['test_utils.py', 'test_lganm.py', 'test_generators.py']):
            if m % nshards == shard:
                yield "repo-tests", {"module": module}
    for c in _gc.iter_pdag_cases((1, 2, 3, 4), shard, nshards):
        yield "pdag", c
    for k in range(N[tier]["random"]):
        if k % nshards == shard:
            rng = util.rng_for("C16", seed, "r", k)
            p = int(rng.integers(5, 14))
            yield "random-pdag", {"masks": gmat.random_pdag_masks(rng, p)}
    for k in range(N[tier]["weighted"]):
        if k % nshards == shard:
            rng = util.rng_for("C16", seed, "w", k)
            p = int(rng.integers(1, 15))
            out = gmat.random_dag_masks(rng, p)
            yield "weighted-dag", {"W": gmat.weighted(rng, out, dtype=int if k % 3 == 0 else float)}

    sidx = 0
    for pp in (6, 7, 8, 9, 10):
        for name in sorted(gmat.named_shapes(pp)):
            for rep in range(4 if name.startswith("chain-") else 2):      # label-dependent effects: several relabellings of the path shapes
                if sidx % nshards == shard:
                    yield "shape-dag", {"p": pp, "shape": name, "rep": rep}
                sidx += 1
    for c in _gc.iter_pdag_cases((3, 4), shard, nshards):
        yield "internal", c
    # relabelled copies of the small PDAGs inside 9..13 nodes (labels >= 8 included)
    for c in _gc.iter_pdag_cases((3, 4), shard, nshards):
        if c["code"] % 2 == 0:
            yield "embedded-pdag", dict(c, P=9 + c["code"] % 5)
    # two non-adjacent parents with m common children, m = 255 .. 512 (a count that wraps to 0 in 8-bit arithmetic at 256 and 512)
    for fk, m in enumerate((255, 256, 257, 512, 256, 512)):
        if fk % nshards == shard:
            yield "common-children", {"m": m, "dtype": ("int8", "uint8", "int8", "uint8", "bool", "int16")[fk], "k": fk}


def setup(rec):
    import sempler.utils as U
    from ..monitors import graph_contracts as GC
    rec.wrapped = GC.install(U, rec, which=("C16",))
    rec.add("contracts-installed-on", ",".join(rec.wrapped))


def _call(rec, family, case, name, fn, *args):
    try:
        return True, fn(*args)
    except Exception as e:
        rec.exception_violation("C16:%s-exception" % name, family, case, "%s raised %s on an in-domain input" % (name, type(e).__name__), e)
        return False, None


def judge(family, case, rec):
    if family == "repo-tests":
        from ..workloads import repotests
        repotests.run(rec, case["module"])
        return
    import sempler.utils as U
    from ..monitors import graph_contracts as GC
    tier = rec.tier
    if family == "common-children":
        m = case["m"]
        p = m + 2
        rng = util.rng_for("C16cc", case["k"])
        lab = [int(v) for v in rng.permutation(p)]
        a_, b_ = lab[0], lab[1]
        A = np.zeros((p, p), dtype=case["dtype"])
        for v in lab[2:]:
            A[a_, v] = 1
            A[b_, v] = 1
        rec.case(family, case, True, key=("cc", case["k"]))
        GC.State.rate = 99991        # the outermost results are judged here, by hand (the contract oracle is sized for small graphs)
        try:
            ok, M = _call(rec, family, case, "moral_graph", U.moral_graph, A)
            ok2, V = _call(rec, family, case, "vstructures", U.vstructures, A)
            ok3, D = _call(rec, family, case, "degrees", U.degrees, A)
        finally:
            GC.State.rate = 1
        if ok:
            M = np.asarray(M) != 0
            want = (A != 0) | (A != 0).T
            want[a_, b_] = want[b_, a_] = True
            if M.shape != (p, p) or not (M == want).all():
                rec.violation("C16:moral_graph", family, case, "two parents with %d common children (%s matrix): moral graph %s the edge between them"
                              % (m, case["dtype"], "lacks" if M.shape == (p, p) and not M[a_, b_] else "is wrong beyond"))
        if ok2:
            wantv = set((min(a_, b_), int(c_), max(a_, b_)) for c_ in lab[2:])
            if set(tuple(int(x) for x in t) for t in V) != wantv:
                rec.violation("C16:vstructures", family, case, "two parents with %d common children: %d v-structures returned, expected %d" % (m, len(V), m))
        if ok3:
            wantd = [m if v in (a_, b_) else 2 for v in range(p)]
            if [int(x) for x in np.asarray(D).ravel().tolist()] != wantd:
                rec.violation("C16:degrees", family, case, "degrees of a graph with %d common children are wrong (%s matrix)" % (m, case["dtype"]))
        rec.count("common-children:judged")
        return
    if family == "internal":
        out = G.pdag_from_code(case["p"], case["code"])
        if not G.directed_part_acyclic(out):
            return
        GC.State.tag = "internal"
        GC.State.rate = N[tier]["internal_rate"]
        try:
            P = gmat.to_np(out)
            rec.case(family, case, _gc.n_undirected(out) >= 1, key=(case["p"], case["code"]))
            for fn in (U.pdag_to_dag, U.maximally_orient, U.pdag_to_cpdag, U.all_dags, U.is_dag):
                try:
                    fn(P)
                except ValueError:
                    pass
            ext = G.extensions(out)
            if ext:
                D = gmat.to_np(ext[0])
                U.is_consistent_extension(D, P)
                U.mec(D)
                U.remove_edges(D, 0)
        finally:
            GC.State.tag = "direct"
            GC.State.rate = 1
        return

    if family == "pdag":
        out = G.pdag_from_code(case["p"], case["code"])
        if not G.directed_part_acyclic(out):
            rec.count("out_of_domain:cyclic-directed-part")
            return
        A = gmat.hostile_array(gmat.to_np(out, dtype=int if case["code"] % 2 else float), case["code"] // 2)
        key = (case["p"], case["code"])
    elif family == "embedded-pdag":
        small = G.pdag_from_code(case["p"], case["code"])
        if not G.directed_part_acyclic(small) or G.n_edges(small) < 2:
            return
        out = gmat.embed_any(small, case["P"], util.rng_for("%se" % rec.pid, case["p"], case["code"]), case.get("code", case.get("code3", 0)) // 2)
        A = gmat.reuse(gmat.to_np(out, dtype=int if case["code"] % 4 else float))
        key = ("e", case["p"], case["code"])
        rec.count("embedded:graphs")
    elif family == "shape-dag":
        out0 = gmat.named_shapes(case["p"])[case["shape"]]
        if False:
            return
        out = gmat.relabel(out0, util.rng_for("shape", case["p"], case["shape"], case["rep"])) if case["rep"] else list(out0)
        rec.count("shapes:" + case["shape"])
        if case["shape"] in ("complete", "bipartite", "layered", "ladder") and case["p"] > 8 and rec.pid == "C15":
            return      # the recursive relations enumerate every directed path: exponential on these
        # turn a random subset of the edges undirected for odd repetitions (a PDAG with that skeleton)
        rngs = util.rng_for("shape-u", case["p"], case["shape"], case["rep"])
        if case["rep"]:
            for i in range(len(out)):
                for j in G.bits(out[i]):
                    if rngs.random() < 0.3:
                        out[j] |= 1 << i
            if not G.directed_part_acyclic(out):
                return
        A = gmat.hostile_array(gmat.to_np(out), case["p"] + case["rep"])
        key = ("shape", case["p"], case["shape"], case["rep"])
    elif family == "random-pdag":
        out = list(case["masks"])
        A = gmat.reuse(gmat.to_np(out))      # the same caller-owned array object, overwritten in place between cases
        key = None
    else:
        A = case["W"]
        out = gmat.masks(A)
        key = None
    p = len(out)
    parts = G.Parts(out)
    n_dir = sum(G.popcount(m) for m in parts.ch)
    n_und = sum(G.popcount(m) for m in parts.nb) // 2
    colliders = any(G.popcount(parts.pa[c]) >= 2 for c in range(p))
    if any(G.popcount(parts.pa[c]) >= 2 and any((parts.nb[a] >> b) & 1 for a in G.bits(parts.pa[c]) for b in G.bits(parts.pa[c]))
           for c in range(p)):
        rec.count("shielded-by-undirected-collider")
    weighted = family == "weighted-dag" and bool(((A != 0) & (A != 1)).any())
    rec.case(family, case, bool((n_dir and n_und) or colliders or weighted), key=key)
    before = A.copy()
    res = {}
    for name in ("only_directed", "only_undirected", "skeleton", "undirected_edges", "directed_edges", "edge_weights",
                 "vstructures", "moral_graph", "is_complete", "degrees"):
        ok, r = _call(rec, family, case, name, getattr(U, name), A)
        if ok:
            res[name] = r
    if "only_directed" in res and "only_undirected" in res:
        try:
            s = res["only_directed"] + res["only_undirected"]
            same = s.dtype == A.dtype and s.shape == A.shape and (s == A).all()
        except Exception:
            same = False
        if not same:
            rec.violation("C16:split-does-not-sum-to-input", family, case,
                          "only_directed + only_undirected differs from the input (values or dtype)", matrix=A)
    rng = util.rng_for("C16j", rec.seed, family, tuple(out))
    if p <= 4:
        subsets = [set(G.bits(m)) for m in range(1 << p)]
    else:
        subsets = [set(int(v) for v in np.where(rng.random(p) < rng.uniform(0.1, 0.9))[0]) for _ in range(4)] + [set(), set(range(p))]
    for k, S in enumerate(subsets):
        S0 = set(S)
        form = (k + p) % 8       # the documented form is a set; any iterable of node indices works on the unchanged tree
        Sarg = (S, sorted(S), sorted(S, reverse=True), tuple(sorted(S, reverse=True)), frozenset(S),
                np.array(sorted(S, reverse=True), dtype=int), set(np.int64(v) for v in S), S)[form]
        rec.count("node-set-form:%d" % form)
        _call(rec, family, case, "induced_subgraph", U.induced_subgraph, Sarg, A)
        _call(rec, family, case, "is_clique", U.is_clique, Sarg, A)
        if set(int(v) for v in Sarg) != S0:
            rec.violation("C16:set-argument-mutated", family, case, "the node set argument was modified")
    if not (A == before).all():
        rec.violation("C16:input-mutated", family, case, "a decomposition function modified the matrix", matrix=before)
