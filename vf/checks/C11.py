"""C11 - random DAG generators return valid DAGs with a valid ordering.

Monitor: per-call post-conditions on generators.dag_avg_deg / dag_full, plus
frequency monitors over seeds (position occupancy of the ordering, edge counts
against the binomial law with Chernoff bounds at delta = 1e-12, dispersion).
"""
import math

import numpy as np

from ..core import util
from ..oracles import graphs as G
from ..oracles import stats as S
from ..workloads import gmat, callforms

TECHNIQUE = "runtime post-condition monitor on dag_avg_deg/dag_full (acyclicity by reference DFS, weight range, ordering validity, seed determinism) + frequency monitors over seeds with Chernoff-bounded binomial tests"
LEVEL_TEXT = ("Every generated matrix in a grid of (p, k, weight range) cells x hundreds of seeds is checked: shape, zero diagonal, "
              "acyclic by the reference detector, non-zero weights inside [w_min, w_max], ordering a permutation and a topological "
              "order of the returned graph, same seed => same matrix with and without the ordering, complete skeleton for dag_full. "
              "Over the seeds of a cell: every node occupies every position, total and per-pair edge frequencies match "
              "Binomial(., k/(p-1)) within exact Chernoff bounds, and the dispersion of the per-graph count matches the binomial "
              "variance (escalated z-score).")
LEVEL_NOTE = "Statistical part: false-alarm bound 1e-12 per test; 'independently' is tested through first and second moments of edge counts only."
RULE = ("cases: one generator call = (generator, p, k, weight range, seed, return_ordering).  distinct = distinct argument tuple; "
        "non-trivial = the returned graph has at least one edge"
        ' Also: numpy-scalar arguments, weight ranges 1e-12..1e9, debug=True with return_ordering, results of earlier calls re-checked after later calls and the seeded call repeated after the caller overwrote an earlier result.')
ASSUMPTIONS = ["Chernoff-KL bound for binomial tails; occupancy asserted only where the union bound for a missing (node, position) is < 1e-12"]
EXHAUSTIVE = {"quick": False, "thorough": False}
SOFT_LIMIT = {"quick": 1200, "thorough": 5400}      # generous wall-clock watchdogs (a loaded machine must not cut a workload short); normal run times are in the evidence
REQUIRED_FUNCS = ["sempler/generators.py:dag_avg_deg", "sempler/generators.py:dag_full"]
REQUIRED_COUNTERS = {"quick": {"calls:dag_avg_deg": 40000, "calls:dag_full": 8000, "freq:occupancy-asserted": 20, "freq:edge-law-asserted": 40,
                               "freq:pairs-asserted": 20, "corner:p0": 1, "corner:p1": 1},
                     "thorough": {"calls:dag_avg_deg": 400000, "calls:dag_full": 80000, "freq:occupancy-asserted": 20, "freq:edge-law-asserted": 40,
                                  "freq:pairs-asserted": 20, "corner:p0": 1, "corner:p1": 1}}
NSEEDS = {"quick": 1500, "thorough": 60000}
WRANGES = [(1, 1), (0.5, 2), (-2, -0.5), (-1, 1), (3, 3), (1e-12, 2e-12), (-3e-10, -1e-10), (1e9, 2e9)]


def cells(tier):
    out = []
    for p in range(2, 9):
        ks = sorted(set([0, 0.5, 1, (p - 1) / 2.0, p - 1.5 if p > 2 else 0.5, p - 1]))
        for k in ks:
            if 0 <= k <= p - 1:
                out.append(("dag_avg_deg", p, float(k)))
    for p in (30, 200):
        for k in (0.3, 2.0, 5.0):
            out.append(("dag_avg_deg", p, k))
    for p in (0, 1, 2, 3, 4, 5, 6, 7, 8, 20):
        out.append(("dag_full", p, None))
    return out


def gen(tier, seed, shard, nshards):
    # large sparse graphs (where a generator may switch to another way of drawing edges): pooled edge counts over seeds
    for b, (pb, kb) in enumerate(((500, 3.0), (600, 9.0), (1000, 15.0), (1000, 4.0), (2000, 39.0), (1500, 25.0), (800, 2.0), (2000, 10.0))):
        if b % nshards == shard:
            yield "big", {"p": pb, "k": kb, "n_seeds": 24 if tier == "quick" else 200, "base": int(seed)}
    for idx, (g, p, k) in enumerate(cells(tier)):
        if idx % nshards == shard:
            n = NSEEDS[tier] if p <= 30 else max(40, NSEEDS[tier] // 10)
            yield "cell", {"gen": g, "p": p, "k": k, "wrange": list(WRANGES[idx % len(WRANGES)]), "n_seeds": n, "base": int(seed)}


def _check_call(rec, family, case, gname, fn, p, k, wr, rs):
    """One seeded call with and without the ordering; returns (masks, ordering) or None."""
    args = (p, k) if gname == "dag_avg_deg" else (p,)
    if rs % 5 == 0:       # numpy scalars instead of python numbers
        args = (np.int64(p), np.float64(k)) if gname == "dag_avg_deg" else (np.int32(p),)
    kw = {"w_min": wr[0], "w_max": wr[1], "random_state": rs if rs % 7 else np.int64(rs)}
    sub = {"gen": gname, "p": p, "k": k, "wrange": wr, "random_state": rs}
    try:
        if rs % 3 == 1:       # every argument positionally, in the documented order
            W = fn(*callforms.positional(gname, *args, **kw))
            W2, order = fn(*callforms.positional(gname, *args, return_ordering=True, **kw))
            rec.count("call-form:positional")
        else:
            W = fn(*args, **kw)
            W2, order = fn(*args, return_ordering=True, **kw)
    except Exception as e:
        rec.exception_violation("C11:%s-exception" % gname, family, sub, "%s raised %s" % (gname, type(e).__name__), e)
        return None
    rec.count("calls:" + gname)
    if gname == "dag_avg_deg" and rs % 11 == 0:
        import io, contextlib
        try:
            with contextlib.redirect_stdout(io.StringIO()):
                Wd, od = fn(*args, debug=True, return_ordering=True, **kw)
            rec.count("keyword:debug=True")
            if not (isinstance(Wd, np.ndarray) and np.array_equal(Wd, W) and np.array_equal(od, order)):
                rec.violation("C11:dag_avg_deg-debug-changes-result", family, sub, "dag_avg_deg(debug=True) returns a different graph for the same seed")
        except Exception as e:
            rec.exception_violation("C11:dag_avg_deg-debug-exception", family, sub, "dag_avg_deg(debug=True) raised", e)
    if not isinstance(W, np.ndarray) or W.shape != (p, p):
        rec.violation("C11:%s-shape" % gname, family, sub, "returned %r of shape %r" % (type(W).__name__, getattr(W, "shape", None)))
        return None
    if not isinstance(W2, np.ndarray) or W2.shape != (p, p) or not np.array_equal(W, W2):
        rec.violation("C11:%s-ordering-changes-matrix" % gname, family, sub, "same seed gives a different matrix with return_ordering=True")
        return None
    out = gmat.masks(W)
    rec.case("call", sub, G.n_edges(out) > 0, key=(gname, p, k, tuple(wr), rs))
    if p and np.diag(W).any():
        rec.violation("C11:%s-diagonal" % gname, family, sub, "non-zero diagonal", matrix=W)
    if G.has_cycle(out):
        rec.violation("C11:%s-cyclic" % gname, family, sub, "the returned matrix is not a DAG", matrix=W)
        return None
    nz = W[W != 0]
    if nz.size and (nz.min() < wr[0] or nz.max() > wr[1]):
        rec.violation("C11:%s-weights-out-of-range" % gname, family, sub,
                      "non-zero weights in [%r, %r], requested [%r, %r]" % (float(nz.min()), float(nz.max()), wr[0], wr[1]))
    order = np.asarray(order)
    if order.shape != (p,) or not G.is_topological_order(order.tolist(), out):
        rec.violation("C11:%s-ordering-invalid" % gname, family, sub,
                      "returned ordering %s is not a permutation that is a topological order of the returned graph" % (order.tolist(),), matrix=W)
        return None
    return out, [int(v) for v in order]


def _judge_big(gens, case, rec, family):
    """Large sparse graphs: validity by numpy (the ordering makes the matrix strictly upper triangular), edge law by the pooled count."""
    p, k, ns = case["p"], case["k"], case["n_seeds"]
    rec.case(family, case, True, key=("big", p, k, case["base"]))
    prob = k / (p - 1.0)
    m = p * (p - 1) // 2
    total = 0
    for t in range(ns):
        rs = util.derive_seed("C11big", case["base"], p, k, t) % (2**32)
        try:
            W, order = gens.dag_avg_deg(p, k, 0.5, 2.0, return_ordering=True, random_state=rs)
        except Exception as e:
            rec.exception_violation("C11:dag_avg_deg-exception", family, case, "dag_avg_deg(p=%d, k=%g) raised" % (p, k), e)
            return
        W = np.asarray(W)
        order = np.asarray(order)
        nz = W != 0
        ok = W.shape == (p, p) and sorted(order.tolist()) == list(range(p))
        if ok:
            T = nz[np.ix_(order, order)]
            ok = not np.tril(T).any()
        if not ok:
            rec.violation("C11:dag_avg_deg-ordering-invalid", family, case, "p=%d, random_state=%d: the returned ordering is not a topological order of the returned graph" % (p, rs))
            return
        vals = W[nz]
        if vals.size and (vals.min() < 0.5 or vals.max() > 2.0):
            rec.violation("C11:dag_avg_deg-weights-out-of-range", family, case, "p=%d: weights outside [0.5, 2]" % p)
            return
        total += int(nz.sum())
        rec.count("calls:dag_avg_deg")
    N_ = ns * m
    b = S.binom_tail_bound(total, N_, prob)
    rec.count("freq:edge-law-asserted")
    rec.count("big:graphs", ns)
    rec.max("big:|relative deviation of the edge count|", abs(total / (N_ * prob) - 1.0))
    if b < S.DELTA:
        rec.violation("C11:dag_avg_deg-edge-probability", family, case,
                      "p=%d, k=%g over %d seeds: %d edges among %d pairs, expected %.0f (relative deviation %.3g; bound %.3g)"
                      % (p, k, ns, total, N_, N_ * prob, total / (N_ * prob) - 1.0, b))


def judge(family, case, rec):
    import sempler.generators as gens
    if family == "big":
        _judge_big(gens, case, rec, family)
        return
    gname, p, k, wr, n_seeds = case["gen"], case["p"], case["k"], tuple(case["wrange"]), case["n_seeds"]
    fn = getattr(gens, gname)
    seeds = [0, 42, 2**32 - 1] + [util.derive_seed("C11", case["base"], gname, p, k, i) % (2**32) for i in range(n_seeds - 3)]
    if p == 0:
        rec.count("corner:p0")
    if p == 1:
        rec.count("corner:p1")
    m = p * (p - 1) // 2
    occ = np.zeros((p, p), dtype=int)          # occ[node, position]
    pair = {}
    counts = []
    done = 0
    zero_in_range = wr[0] <= 0 <= wr[1]
    held = []          # (seed, W object, ordering object, copies) of earlier calls: they belong to the caller
    for rs in seeds:
        r = _check_call(rec, family, case, gname, fn, p, k, wr, rs)
        if r is None:
            continue
        out, order = r
        if done < 40 or done % 50 == 0:
            try:
                Wk, ok_ = fn(*((p, k) if gname == "dag_avg_deg" else (p,)), w_min=wr[0], w_max=wr[1], return_ordering=True, random_state=rs)
                held.append((rs, Wk, ok_, Wk.copy(), np.array(ok_, copy=True)))
            except Exception:
                pass
            if len(held) >= 3:
                rs0, W0, o0, Wc, oc = held.pop(0)
                rec.count("earlier-results-rechecked")
                if not (np.array_equal(W0, Wc) and np.array_equal(o0, oc)):
                    rec.violation("C11:%s-earlier-result-changed-by-later-call" % gname, family, case,
                                  "the matrix / ordering returned for random_state=%r changed after later calls (p=%d)" % (rs0, p))
                # the caller overwrites what he was given; the same seeded call must still return the same graph
                if isinstance(W0, np.ndarray) and W0.flags.writeable:
                    W0[...] = 123.0
                if isinstance(o0, np.ndarray) and o0.flags.writeable:
                    o0[...] = 0
                elif isinstance(o0, list):          # an ordering returned as a list is as good as an array
                    o0[:] = [0] * len(o0)
                try:
                    W1, o1 = fn(*((p, k) if gname == "dag_avg_deg" else (p,)), w_min=wr[0], w_max=wr[1], return_ordering=True, random_state=rs0)
                    if not (np.array_equal(W1, Wc) and np.array_equal(o1, oc)):
                        rec.violation("C11:%s-result-depends-on-overwritten-earlier-result" % gname, family, case,
                                      "after the caller overwrote an earlier result, the same seeded call (random_state=%r) returns something else" % (rs0,))
                except Exception as e:
                    rec.exception_violation("C11:%s-exception" % gname, family, case, "repeated seeded call raised", e)
        done += 1
        for pos, node in enumerate(order):
            occ[node, pos] += 1
        e = G.n_edges(out)
        counts.append(e)
        if p <= 8:
            inn = G.transpose(out)
            for (i, j) in G.pairs(p):
                if ((out[i] | inn[i]) >> j) & 1:
                    pair[(i, j)] = pair.get((i, j), 0) + 1
        if gname == "dag_full" and not zero_in_range and e != m:
            rec.violation("C11:dag_full-not-complete", family, case, "dag_full(p=%d) has %d of %d edges" % (p, e, m), random_state=rs)
    if done < len(seeds) or p < 2:
        return
    N = done
    ctx = {"gen": gname, "p": p, "k": k, "seeds": N}
    # every node takes every position
    if p * p * (1 - 1.0 / p) ** N < S.DELTA:
        rec.count("freq:occupancy-asserted")
        missing = [(int(a), int(b)) for a, b in zip(*np.where(occ == 0))]
        if missing:
            rec.violation("C11:%s-ordering-not-random" % gname, family, case,
                          "over %d seeds node/position pairs %s never occur" % (N, missing[:6]), **ctx)
        # uniformity of occupancy: each cell ~ Bin(N, 1/p)
        worst = min(S.binom_tail_bound(int(c), N, 1.0 / p) for c in occ.ravel())
        if worst * p * p < S.DELTA:
            rec.violation("C11:%s-ordering-not-uniform" % gname, family, case,
                          "position occupancy counts incompatible with a uniform random order (bound %.3g)" % (worst * p * p),
                          occupancy=occ, **ctx)
    if gname != "dag_avg_deg" or zero_in_range and wr[0] != wr[1]:
        pass
    if gname == "dag_avg_deg":
        q = k / (p - 1)
        total = int(sum(counts))
        rec.count("freq:edge-law-asserted")
        b = S.binom_tail_bound(total, N * m, q)
        rec.max("edge-law:-log10(bound)", -math.log10(max(b, 1e-300)))
        if b < S.DELTA:
            rec.violation("C11:dag_avg_deg-edge-probability", family, case,
                          "total %d edges in %d graphs (%.4f per possible edge), expected probability k/(p-1) = %.4f (Chernoff bound %.3g)"
                          % (total, N, total / float(N * m), q, b), **ctx)
        if p <= 8 and 0 < q < 1:
            rec.count("freq:pairs-asserted")
            worst, wp = 1.0, None
            for (i, j) in G.pairs(p):
                bb = S.binom_tail_bound(pair.get((i, j), 0), N, q)
                if bb < worst:
                    worst, wp = bb, (i, j)
            if worst * m < S.DELTA:
                rec.violation("C11:dag_avg_deg-pair-frequency", family, case,
                              "pair %s adjacent in %d of %d graphs, expected fraction %.4f" % (wp, pair.get(wp, 0), N, q), **ctx)
        # dispersion of the per-graph count (independence proxy)
        if 0 < q < 1 and m >= 3:
            var = m * q * (1 - q)
            mu4 = var * (1 + 3 * (m - 2) * q * (1 - q))

            def zdisp(cs):
                cs = np.asarray(cs, dtype=float)
                n = len(cs)
                m2 = float(np.mean((cs - m * q) ** 2))
                return (m2 - var) / math.sqrt(max(mu4 - var * var, 1e-300) / n)
            z = zdisp(counts)
            rec.max("max|z|-dispersion", abs(z))
            if abs(z) > S.Z_SUSPECT:
                rec.count("escalations")

                def rerun(r, n):
                    cs = []
                    for i in range(min(n, 20000)):
                        W = fn(p, k, random_state=util.derive_seed("C11esc", gname, p, k, r, i) % (2**32))
                        cs.append(int((W != 0).sum()))
                    return zdisp(cs)
                bad, zs = S.confirm(rerun, N)
                if bad:
                    rec.violation("C11:dag_avg_deg-edges-not-independent", family, case,
                                  "variance of the per-graph edge count incompatible with independent edges: z = %s" % (["%.1f" % v for v in zs],), **ctx)
