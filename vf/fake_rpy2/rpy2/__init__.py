"""Stand-in for the rpy2 package (the R bridge is absent in this sandbox).

It implements only what ``drf/code.py`` of juangamella/sempler uses, replaces the
R distributional random forest by a deterministic nearest-neighbour weighting,
and logs every fit and every query so that a monitor can check *what the Python
side asked the backend* (see vf/checks/C19.py).  Nothing here is the code under
check.
"""
__version__ = "0.0-standin"
