ACTIVATED = [0]


def activate():
    ACTIVATED[0] += 1
