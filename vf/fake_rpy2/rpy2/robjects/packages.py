"""importr('base') and importr('drf') stand-ins with an event log."""
import numpy as np


class PackageNotInstalledError(Exception):
    pass


LOG = []          # events, in order: dicts with 'op' in {'fit', 'predict'}
FITS = []         # fit objects by id
K_NEAREST = 3


class Fit:
    variable_importance = None

    def __init__(self, fid, X, Y, params):
        self.fid = fid
        self.X = X
        self.Y = Y
        self.params = params


class _Base:
    @staticmethod
    def as_matrix(x):
        return np.asarray(x)


class _Drf:
    @staticmethod
    def drf(X_r, Y_r, **params):
        fid = len(FITS)
        fit = Fit(fid, X_r.values.copy(), Y_r.values.copy(), dict(params))
        FITS.append(fit)
        LOG.append({"op": "fit", "fit": fid, "X": fit.X.copy(), "Y": fit.Y.copy(), "params": dict(params)})
        return fit

    @staticmethod
    def predict_drf(fit, newdata_r):
        new = newdata_r.values
        if new.ndim == 1:
            new = new.reshape(1, -1)
        n_train = fit.X.shape[0]
        k = min(K_NEAREST, n_train)
        W = np.zeros((new.shape[0], n_train))
        for r in range(new.shape[0]):
            d = ((fit.X - new[r]) ** 2).sum(axis=1)
            idx = np.argsort(d, kind="stable")[:k]
            W[r, idx] = 1.0 / k
        LOG.append({"op": "predict", "fit": fit.fid, "newdata": new.copy(), "weights": W.copy()})
        return [W, fit.Y.copy()]

    @staticmethod
    def print_drf(fit):
        return None

    @staticmethod
    def variableImportance(fit):
        return None


def importr(name):
    if name == "base":
        return _Base
    if name == "drf":
        return _Drf
    raise PackageNotInstalledError(name)


def reset():
    del LOG[:]
    del FITS[:]
