import numpy as np


class RData:
    """What py2rpy hands to the backend: a frozen copy of the frame's values."""
    def __init__(self, frame):
        self.values = np.array(frame.to_numpy() if hasattr(frame, "to_numpy") else frame, dtype=float, copy=True)
        self.columns = list(getattr(frame, "columns", range(self.values.shape[1] if self.values.ndim == 2 else 0)))


def py2rpy(obj):
    return RData(obj)
