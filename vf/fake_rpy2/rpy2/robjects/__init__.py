from . import conversion  # noqa
from . import numpy2ri, pandas2ri, packages  # noqa

R_CALLS = []


def r(code):
    R_CALLS.append(code)
    return None
