"""Process bootstrap: where the code under check comes from, third-party deps.

Every check (and every shard subprocess) calls :func:`bootstrap` before it
imports anything from the repository.  The repository is always imported from
its *working tree* (``/repo`` or ``$SEMPLER_SRC`` for the self-test), never from
an installed copy or a stale byte-code cache.
"""
import io
import os
import subprocess
import sys
import contextlib

VERIF_ROOT = os.path.dirname(os.path.dirname(os.path.dirname(os.path.abspath(__file__))))
DEPS_DIR = os.path.join(VERIF_ROOT, ".deps")
WHEELS = "/opt/veriftools/wheels"
FAKE_RPY2 = os.path.join(VERIF_ROOT, "vf", "fake_rpy2")


def repo_root():
    return os.path.abspath(os.environ.get("SEMPLER_SRC", "/repo"))


def ensure_deps():
    """Install icontract (pure python) from the offline wheelhouse into .deps.

    Idempotent; ~2 s.  Returns True when icontract is importable afterwards.
    """
    marker = os.path.join(DEPS_DIR, "icontract", "__init__.py")
    if not os.path.exists(marker):
        os.makedirs(DEPS_DIR, exist_ok=True)
        cmd = [sys.executable, "-m", "pip", "install", "--quiet", "--no-index",
               "--find-links", WHEELS, "--target", DEPS_DIR, "--upgrade",
               "icontract", "asttokens", "six", "typing_extensions"]
        env = dict(os.environ, PIP_NO_INDEX="1", PIP_DISABLE_PIP_VERSION_CHECK="1")
        try:
            subprocess.run(cmd, check=False, env=env, stdout=subprocess.DEVNULL,
                           stderr=subprocess.DEVNULL, timeout=300)
        except Exception:
            pass
    return os.path.exists(marker)


def bootstrap(fake_rpy2=False):
    """Put the repository working tree first on sys.path and import sempler.

    Returns the imported ``sempler`` package.  Raises RuntimeError if the import
    does not come from the requested tree.
    """
    root = repo_root()
    # deps after the repo so nothing can shadow the code under check
    if DEPS_DIR not in sys.path:
        sys.path.append(DEPS_DIR)
    if fake_rpy2 and FAKE_RPY2 not in sys.path:
        sys.path.insert(0, FAKE_RPY2)
    if sys.path[0] != root:
        if root in sys.path:
            sys.path.remove(root)
        sys.path.insert(0, root)
    sys.dont_write_bytecode = True
    import numpy  # noqa  (third-party code may use its byte-code caches)
    try:
        import pandas  # noqa
    except Exception:
        pass
    # the code under check is always compiled from the sources of the working
    # tree: point the byte-code cache somewhere that does not exist while it is
    # imported, so no stale __pycache__ of an earlier tree can be picked up
    old_prefix = sys.pycache_prefix
    sys.pycache_prefix = "/nonexistent/vf-pycache"
    buf = io.StringIO()
    try:
        with contextlib.redirect_stdout(buf):
            import sempler  # noqa
            import sempler.utils  # noqa
            import sempler.generators  # noqa
            import sempler.noise  # noqa
            import sempler.functions  # noqa
            if fake_rpy2:
                import drf  # noqa
                import sempler.semi  # noqa
    finally:
        sys.pycache_prefix = old_prefix
    src = os.path.abspath(sempler.__file__)
    if not src.startswith(root + os.sep):
        raise RuntimeError("sempler imported from %s, expected under %s" % (src, root))
    return sempler


def child_env(extra=None):
    """Environment for shard subprocesses."""
    env = dict(os.environ)
    # str / bytes hashing (and with it the iteration order of sets and dicts of strings) varies with the run's seed
    env["PYTHONHASHSEED"] = str(int(os.environ.get("VERIF_SEED", "0") or 0) % 4096)
    env["PYTHONDONTWRITEBYTECODE"] = "1"
    env["OMP_NUM_THREADS"] = "1"
    env["OPENBLAS_NUM_THREADS"] = "1"
    env["MKL_NUM_THREADS"] = "1"
    env["PYTHONPATH"] = VERIF_ROOT
    env["PYTHONWARNINGS"] = "ignore"
    if extra:
        env.update(extra)
    return env
