"""Entry point of one shard subprocess:

    python -m vf.core.shard <Cxx> <tier> <seed> <shard> <nshards> <outfile> <soft_limit>
"""
import faulthandler
import importlib
import pickle
import sys
import traceback
import warnings


def main(argv):
    pid, tier, seed, shard, nshards, outfile, soft = argv[:7]
    seed, shard, nshards, soft = int(seed), int(shard), int(nshards), float(soft)
    faulthandler.enable()
    warnings.simplefilter("ignore")
    from . import env, recorder
    mod = importlib.import_module("vf.checks." + pid)
    env.bootstrap(fake_rpy2=getattr(mod, "FAKE_RPY2", False))
    import numpy as np
    np.seterr(all="ignore")
    if shard % 2 == 1:
        # a user may configure how numpy *prints* arrays; results must not depend on it (half of the shards run with terse
        # print options, under which str()/repr() of different arrays coincide)
        np.set_printoptions(precision=2, threshold=5, edgeitems=1, suppress=True)
    rec = recorder.Recorder(pid, tier, seed, shard, nshards, soft_limit=soft)
    recorder.start_function_tracker(rec, env.repo_root())
    status = "ok"
    err = None
    try:
        if hasattr(mod, "setup"):
            mod.setup(rec)
        for family, case in mod.gen(tier, seed, shard, nshards):
            if rec.out_of_time():
                break
            rec.current = (family, case)
            mod.judge(family, case, rec)
        if hasattr(mod, "shard_end"):
            mod.shard_end(rec)
    except BaseException as e:  # harness failure: never a verdict on the code
        status = "harness-error"
        err = "".join(traceback.format_exception(type(e), e, e.__traceback__))
    out = rec.dump()
    out["status"] = status
    out["error"] = err
    with open(outfile, "wb") as f:
        pickle.dump(out, f, protocol=pickle.HIGHEST_PROTOCOL)
    return 0


if __name__ == "__main__":
    sys.exit(main(sys.argv[1:]))
