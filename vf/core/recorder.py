"""Per-shard recorder of what the monitors observed, and the merge of shards."""
import collections
import os
import sys
import time
import traceback

from . import util

MAX_VIOLATIONS_PER_SHARD = 12
MAX_SAMPLES_PER_FAMILY = 2


class Recorder:
    def __init__(self, pid, tier, seed, shard=0, nshards=1, soft_limit=None):
        self.pid = pid
        self.tier = tier
        self.seed = seed
        self.shard = shard
        self.nshards = nshards
        self.t0 = time.time()
        self.soft_limit = soft_limit
        self.evaluations = 0
        self.digests = set()
        self.counters = collections.Counter()
        self.maxes = {}
        self.sets = collections.defaultdict(set)
        self.lists = collections.defaultdict(list)
        self.samples = collections.defaultdict(list)
        self.violations = []
        self.n_violations = 0
        self.funcs_entered = set()
        self.cut_short = False
        self.notes = []
        self.current = None      # (family, case) being judged, for monitors that fire deep inside

    # -- bookkeeping -------------------------------------------------------
    def out_of_time(self):
        if self.soft_limit is not None and time.time() - self.t0 > self.soft_limit:
            self.cut_short = True
            return True
        return False

    def case(self, family, case, nontrivial, key=None, n=1):
        """Count one judged case (evaluation of the verdict-bearing monitor)."""
        self.evaluations += n
        self.counters["cases:" + family] += n
        if nontrivial:
            if key is not None:
                d = hash((family, key))
            else:
                d = util.digest([family, case])
            self.digests.add(d)
        s = self.samples[family]
        if len(s) < MAX_SAMPLES_PER_FAMILY and (nontrivial or not s):
            s.append(util.enc(case))

    def count(self, name, k=1):
        self.counters[name] += k

    def max(self, name, value):
        try:
            value = float(value)
        except Exception:
            return
        if value != value:
            return
        if name not in self.maxes or value > self.maxes[name]:
            self.maxes[name] = value

    def add(self, name, item):
        self.sets[name].add(item)

    def append(self, name, item):
        self.lists[name].append(item)

    def violation(self, key, family, case, what, **detail):
        """Record a violation.  ``key`` is the mechanism key used to match known findings."""
        self.n_violations += 1
        self.counters["violations:" + key] += 1
        if len(self.violations) < MAX_VIOLATIONS_PER_SHARD:
            self.violations.append({
                "key": key, "family": family, "case": util.enc(case), "what": what,
                "detail": util.enc(detail), "shard": self.shard,
            })

    def exception_violation(self, key, family, case, what, exc):
        tb = "".join(traceback.format_exception(type(exc), exc, exc.__traceback__))[-3000:]
        self.violation(key, family, case, what, exception=type(exc).__name__, message=str(exc)[:500], traceback=tb)

    # -- serialisation -----------------------------------------------------
    def dump(self):
        return {
            "evaluations": self.evaluations,
            "digests": self.digests,
            "counters": dict(self.counters),
            "maxes": dict(self.maxes),
            "sets": {k: set(v) for k, v in self.sets.items()},
            "lists": {k: list(v) for k, v in self.lists.items()},
            "samples": {k: list(v) for k, v in self.samples.items()},
            "violations": self.violations,
            "n_violations": self.n_violations,
            "funcs_entered": set(self.funcs_entered),
            "cut_short": self.cut_short,
            "notes": self.notes,
            "wall_s": time.time() - self.t0,
        }


def merge(dumps):
    out = {
        "evaluations": 0, "digests": set(), "counters": collections.Counter(), "maxes": {},
        "sets": collections.defaultdict(set), "lists": collections.defaultdict(list),
        "samples": collections.defaultdict(list), "violations": [], "n_violations": 0,
        "funcs_entered": set(), "cut_short": False, "notes": [], "shard_wall_s": [],
    }
    for d in dumps:
        out["evaluations"] += d["evaluations"]
        out["digests"] |= d["digests"]
        out["counters"].update(d["counters"])
        for k, v in d["maxes"].items():
            if k not in out["maxes"] or v > out["maxes"][k]:
                out["maxes"][k] = v
        for k, v in d["sets"].items():
            out["sets"][k] |= v
        for k, v in d["lists"].items():
            out["lists"][k].extend(v)
        for k, v in d["samples"].items():
            if len(out["samples"][k]) < MAX_SAMPLES_PER_FAMILY:
                out["samples"][k].extend(v[:MAX_SAMPLES_PER_FAMILY - len(out["samples"][k])])
        out["violations"].extend(d["violations"])
        out["n_violations"] += d["n_violations"]
        out["funcs_entered"] |= d["funcs_entered"]
        out["cut_short"] = out["cut_short"] or d["cut_short"]
        out["notes"].extend(d["notes"])
        out["shard_wall_s"].append(round(d["wall_s"], 2))
    return out


# ---------------------------------------------------------------------------
# which functions of the repository were entered (sys.monitoring, python 3.12)

_TOOL = None


def start_function_tracker(rec, root):
    """Record (once per code object, then DISABLE) every function of the
    repository that is entered.  Evidence that the anchored mechanism ran."""
    global _TOOL
    mon = getattr(sys, "monitoring", None)
    if mon is None:
        return False
    root = os.path.abspath(root) + os.sep
    tool = mon.PROFILER_ID
    try:
        mon.use_tool_id(tool, "vf-anchors")
    except ValueError:
        return False
    _TOOL = tool

    def on_start(code, offset):
        fn = code.co_filename
        if fn.startswith(root):
            rec.funcs_entered.add(fn[len(root):] + ":" + code.co_qualname)
        return mon.DISABLE

    mon.register_callback(tool, mon.events.PY_START, on_start)
    mon.set_events(tool, mon.events.PY_START)
    return True
