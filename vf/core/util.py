"""Small helpers: canonical digests, JSON encoding of cases, seed derivation."""
import hashlib
import json
import struct

import numpy as np


# ---------------------------------------------------------------------------
# seeds

def derive_seed(*parts):
    """Deterministic 63-bit seed from arbitrary printable parts."""
    h = hashlib.sha256(("|".join(str(p) for p in parts)).encode()).digest()
    return struct.unpack(">Q", h[:8])[0] >> 1


def rng_for(*parts):
    return np.random.default_rng(derive_seed(*parts))


# ---------------------------------------------------------------------------
# canonical encoding (JSON friendly, loss-free for what the checks use)

def enc(o):
    if isinstance(o, np.ndarray):
        return {"__nd__": o.tolist(), "dtype": str(o.dtype), "shape": list(o.shape)}
    if isinstance(o, (np.bool_,)):
        return bool(o)
    if isinstance(o, np.integer):
        return int(o)
    if isinstance(o, np.floating):
        return float(o)
    if isinstance(o, tuple):
        return {"__tuple__": [enc(x) for x in o]}
    if isinstance(o, (set, frozenset)):
        return {"__set__": sorted((enc(x) for x in o), key=repr)}
    if isinstance(o, dict):
        if all(isinstance(k, str) for k in o):
            return {k: enc(v) for k, v in o.items()}
        return {"__dict__": [[enc(k), enc(v)] for k, v in o.items()]}
    if isinstance(o, (list,)):
        return [enc(x) for x in o]
    if isinstance(o, range):
        return {"__range__": [o.start, o.stop, o.step]}
    if isinstance(o, float):
        if o != o:
            return {"__float__": "nan"}
        if o in (float("inf"), float("-inf")):
            return {"__float__": "inf" if o > 0 else "-inf"}
        return o
    if o is None or isinstance(o, (bool, int, str)):
        return o
    return {"__repr__": repr(o)}


def dec(o):
    if isinstance(o, list):
        return [dec(x) for x in o]
    if isinstance(o, dict):
        if "__nd__" in o:
            a = np.array(o["__nd__"], dtype=o["dtype"])
            return a.reshape(o["shape"])
        if "__tuple__" in o:
            return tuple(dec(x) for x in o["__tuple__"])
        if "__set__" in o:
            return set(dec(x) for x in o["__set__"])
        if "__dict__" in o:
            return {dec(k): dec(v) for k, v in o["__dict__"]}
        if "__range__" in o:
            return range(*o["__range__"])
        if "__float__" in o:
            return float(o["__float__"])
        if "__repr__" in o:
            return o["__repr__"]
        return {k: dec(v) for k, v in o.items()}
    return o


def canon(o):
    return json.dumps(enc(o), sort_keys=True, separators=(",", ":"))


def digest(o):
    """64-bit digest of the canonical form of a case."""
    h = hashlib.sha1(canon(o).encode()).digest()
    return struct.unpack(">Q", h[:8])[0]


def digest_bytes(*chunks):
    h = hashlib.sha256()
    for c in chunks:
        if isinstance(c, str):
            c = c.encode()
        h.update(c)
        h.update(b"\x00")
    return h.hexdigest()


def array_digest(a):
    """Bit-level digest of an ndarray (dtype, shape, bytes)."""
    a = np.asarray(a)
    return digest_bytes(str(a.dtype), str(a.shape), np.ascontiguousarray(a).tobytes())


def fingerprint(o, _depth=0):
    """Deep, bit-exact fingerprint of arguments (arrays, containers, scalars).

    Callables and foreign objects are fingerprinted by identity + public array
    attributes (enough for the model classes of the library).
    """
    if _depth > 6:
        return "deep"
    if isinstance(o, np.ndarray):
        if o.dtype == object:
            return ("ndobj", o.shape, tuple(fingerprint(x, _depth + 1) for x in o.ravel().tolist()))
        return ("nd", str(o.dtype), o.shape, hashlib.sha1(np.ascontiguousarray(o).tobytes()).hexdigest())
    if isinstance(o, (list, tuple)):
        return (type(o).__name__, tuple(fingerprint(x, _depth + 1) for x in o))
    if isinstance(o, (set, frozenset)):
        return (type(o).__name__, tuple(sorted((repr(fingerprint(x, _depth + 1)) for x in o))))
    if isinstance(o, dict):
        return ("dict", tuple((repr(fingerprint(k, _depth + 1)), fingerprint(v, _depth + 1)) for k, v in o.items()))
    if isinstance(o, np.generic):
        return (type(o).__name__, o.dtype.str, o.tobytes())       # bit-exact, independent of numpy's print options
    if isinstance(o, (bool, int, float, str, bytes, type(None), complex)):
        return (type(o).__name__, repr(o))
    if isinstance(o, range):
        return ("range", repr(o))
    if callable(o) and not hasattr(o, "__dict__"):
        return ("callable", id(o))
    d = getattr(o, "__dict__", None)
    if isinstance(d, dict) and not callable(o):
        return ("obj", type(o).__name__,
                tuple((k, fingerprint(v, _depth + 1)) for k, v in sorted(d.items()) if not k.startswith("_")))       # public attributes
    return ("id", type(o).__name__, id(o))
