"""Catalogue of deliberate property-breaking changes ("mutants") used to validate
the monitors.  Each is a textual replacement in a scratch copy of /repo.

  name, props (checks expected to fire), file, old, new [, count]
"""
M = []


def m(name, props, file, old, new, count=1, note=""):
    M.append(dict(name=name, props=props if isinstance(props, (list, tuple)) else [props], file=file, old=old, new=new,
                  count=count, note=note))


U = "sempler/utils.py"

# ---- C03
m("c03-sum-sinks", ["C03"], U, "sinks = list(np.where((A != 0).sum(axis=0) == 0)[0])", "sinks = list(np.where(A.sum(axis=0) == 0)[0])")
m("c03-sum-leftover", ["C03"], U, "    if (A != 0).sum() > 0:\n        raise ValueError(\"The given graph is not a DAG\")\n    else:",
  "    if A.sum() > 0:\n        raise ValueError(\"The given graph is not a DAG\")\n    else:")
# (equivalent, not used: summing in the undirected-edge pre-check alone is harmless, Kahn's leftover test still rejects)
m("c03-kahn-seeds-from-rows", ["C03"], U, "sinks = list(np.where((A != 0).sum(axis=0) == 0)[0])", "sinks = list(np.where((A != 0).sum(axis=1) == 0)[0])")
m("c03-lganm-skips-check", ["C03"], "sempler/lganm.py", "        if not utils.is_dag(W):", "        if len(W) < 7 and not utils.is_dag(W):")

# ---- C07
m("c07-ice-no-vstruct", ["C07"], U, "    return same_vstructures and same_orientation and same_skeleton", "    return same_orientation and same_skeleton")
m("c07-chain-mec-offbyone", ["C07"], U, "    MEC = []\n    for i in range(p):", "    MEC = []\n    for i in range(max(1, p - 1) if p > 6 else p):")
m("c07-mec-skip-cpdag-small", ["C07"], U, "        cpdag = dag_to_cpdag(A)\n        return all_dags(cpdag)",
  "        cpdag = dag_to_cpdag(A) if (A != 0).sum() > 3 else skeleton(A)\n        return all_dags(cpdag)")
m("c07-all_dags-no-dag-filter", ["C07"], U, "dags = [A for A in dags if is_dag(A) and is_consistent_extension(A, pdag)]",
  "dags = [A for A in dags if is_dag(A) and (len(A) > 4 or is_consistent_extension(A, pdag))]", note="needs p >= 5")

# ---- C08
m("c08-label-z-ignores-pa-x", ["C08", "C07", "C10"], U, "z_exists = len(pa(y, labelled) - {x} - pa(x, labelled)) > 0", "z_exists = len(pa(y, labelled) - {x}) > 0")
m("c08-order-edges-lowest-parent", ["C08"], U, "        x = sort(unlabelled_parents_y, order)[0]", "        x = sort(unlabelled_parents_y, order)[-1]")
m("c08-reversible-one-directional", ["C08"], U, "        cpdag[x, y], cpdag[y, x] = 1, 1", "        cpdag[x, y], cpdag[y, x] = 1, (0 if len(cpdag) == 5 and x == 4 else 1)", note="needs p = 5")

# ---- C09
m("c09-chickering-clique", ["C09"], U, "            adj_neighbors = np.all([adj_i - {y} <= adj(y, P) for y in n_i])",
  "            adj_neighbors = is_clique(n_i | pa(i, P), P)")
m("c09-drop-rule3", ["C09"], U, "rule_1(i, j, P) or rule_2(i, j, P) or rule_3(i, j, P) or rule_4(i, j, P):\n                # orient i -> j",
  "rule_1(i, j, P) or rule_2(i, j, P) or rule_4(i, j, P):\n                # orient i -> j")
m("c09-drop-rule4-reverse", ["C09"], U, "elif rule_1(j, i, P) or rule_2(j, i, P) or rule_3(j, i, P) or rule_4(j, i, P):",
  "elif rule_1(j, i, P) or rule_2(j, i, P) or rule_3(j, i, P):")
m("c09-rule1-no-adjacency", ["C09"], U, "    if len(pa(i, A)) > 0 and not pa(i, A) <= adj(j, A):", "    if len(pa(i, A)) > 0:")

# ---- C10
m("c10-icpdag-only-children", ["C10"], U, "        directed_edges += [(j, i) for j in pa(i, G)]\n", "")
# (equivalent on chains, not used: comparing the targets' rows instead of columns selects the same members)
m("c10-chain-imec-any", ["C10"], U, "        if (me[:, I] == A[:, I]).all():", "        if len(I) == 0 or (me[:, I] == A[:, I]).all(axis=0).any():")
m("c10-imec-ignores-I-without-vstructs", ["C10"], U, "        icpdag = dag_to_icpdag(A, I)\n        return all_dags(icpdag)",
  "        icpdag = dag_to_icpdag(A, I if len(vstructures(A)) or len(I) != 1 else set())\n        return all_dags(icpdag)")
m("c10-picpdag-precondition-first-only", ["C10"], U, "    for i in I:\n        if len(neighbors(i, P)) > 0:", "    for i in sorted(I)[:2]:\n        if len(neighbors(i, P)) > 0:")

# ---- C15
m("c15-pa-ignores-undirected", ["C15"], U, "    return set(np.where(np.logical_and(A[:, i] != 0, A[i, :] == 0))[0])", "    return set(np.where(A[:, i] != 0)[0])")
m("c15-desc-excludes-self", ["C15"], U, "    descendants = {i}\n", "    descendants = set(ch(i, A))\n")
m("c15-paths-ignore-undirected-at-start", ["C15"], U, "    stack = [(fro, [], list(ch(fro, A) | neighbors(fro, A)))]", "    stack = [(fro, [], list(ch(fro, A)))]")
m("c15-separates-first-path", ["C15"], U, "                if set(path) & S == set():\n                    return False\n    return True",
  "                if set(path) & S == set():\n                    return False\n                else:\n                    return True\n    return True")
m("c15-chain-component-directed", ["C15"], U, "    A = only_undirected(G)\n    visited = set()", "    A = skeleton(G)\n    visited = set()")
m("c15-closure-from-ancestors", ["C15"], U, "        desc = list(descendants(i, A) - {i})", "        desc = list(ancestors(i, A) - {i})")

# ---- C16
m("c16-vstruct-shielded-by-undirected", ["C16"], U, "            if A[i, j] == 0 and A[j, i] == 0:\n                # Ordering might be defensive",
  "            if dir_A[i, j] == 0 and dir_A[j, i] == 0:\n                # Ordering might be defensive")
m("c16-only-directed-mask", ["C16"], U, "    mask = np.logical_and(P != 0, P.T == 0)\n    G = np.zeros_like(P)\n    # set to the same values in case P is a weight matrix and there is\n    # interest in maintaining the weights\n    G[mask] = P[mask]",
  "    mask = np.logical_and(P != 0, P.T == 0)\n    G = np.zeros_like(P)\n    G[mask] = 1")
m("c16-undirected-edges-both-orders", ["C16"], U, "    undirected_edges = filter(lambda e: e[0] > e[1], zip(fro, to))\n    return list(undirected_edges)",
  "    undirected_edges = filter(lambda e: e[0] != e[1], zip(fro, to))\n    return list(undirected_edges)")
m("c16-is-clique-directed-part", ["C16"], U, "    subgraph = skeleton(subgraph)  # drop edge orientations", "    subgraph = skeleton(only_directed(subgraph))  # drop edge orientations")
m("c16-moral-first-two-parents", ["C16"], U, "    for (i, _, j) in vstructures(A):\n        moral[i, j] = 1\n        moral[j, i] = 1",
  "    seen = set()\n    for (i, c, j) in sorted(vstructures(A)):\n        if c in seen:\n            continue\n        seen.add(c)\n        moral[i, j] = 1\n        moral[j, i] = 1")
m("c16-induced-subgraph-rows-only", ["C16"], U, "    mask = np.logical_and(mask, mask.T)\n    subgraph = np.zeros_like(G)", "    mask = np.logical_or(mask, mask.T) if len(S) == 1 else np.logical_and(mask, mask.T)\n    subgraph = np.zeros_like(G)")
m("c16-degrees-out-only", ["C16"], U, "    return np.sum(skeleton(A), axis=0)", "    return np.sum(A != 0, axis=0) + np.sum(only_directed(A) != 0, axis=0)")
m("c16-edge-weights-abs", ["C16"], U, "    weights = [W[i, j] for i, j in edges]", "    weights = [abs(W[i, j]) for i, j in edges]")

# ---- C18
m("c18-remove-off-by-one", ["C18"], U, "    if len(edges) < no_edges:\n        raise ValueError(\"There are not enough edges to remove.\")", "    if len(edges) <= no_edges:\n        raise ValueError(\"There are not enough edges to remove.\")")
m("c18-remove-with-replacement", ["C18"], U, "    for (fro, to) in rng.choice(edges, no_edges, replace=False):", "    for (fro, to) in rng.choice(edges, no_edges, replace=no_edges > 2):")
m("c18-add-no-dag-guard", ["C18"], U, "        if is_dag(next_supergraph):\n            supergraph = next_supergraph", "        if len(A) < 4 or is_dag(next_supergraph):\n            supergraph = next_supergraph")
m("c18-add-upper-triangle-only", ["C18"], U, "    fro, to = np.where((A + A.T + np.eye(len(A))) == 0)\n    rng = np.random.default_rng(random_state)\n    edges = list(zip(fro, to))",
  "    fro, to = np.where((A + A.T + np.eye(len(A))) == 0)\n    rng = np.random.default_rng(random_state)\n    edges = [e for e in zip(fro, to) if e[0] < e[1]]")
m("c18-add-ignores-seed", ["C18", "C13"], U, "    fro, to = np.where((A + A.T + np.eye(len(A))) == 0)\n    rng = np.random.default_rng(random_state)", "    fro, to = np.where((A + A.T + np.eye(len(A))) == 0)\n    rng = np.random.default_rng(random_state if random_state else None)")

# ---- C01
L = "sempler/lganm.py"
m("c01-int-dtype-copy", ["C01"], L, "        variances = self.variances.astype(float)\n        means = self.means.astype(float)", "        variances = self.variances.copy()\n        means = self.means.copy()", note="the pinned tree's behaviour")
m("c01-do-keeps-incoming-edges", ["C01"], L, "            W[:, targets] = 0\n", "            W[:, targets[:1]] = 0\n", note="needs >= 2 do targets, the second with parents")
m("c01-noise-adds-variance", ["C01"], L, "            means[targets] = noise_interventions[:, 1]\n            variances[targets] = noise_interventions[:, 2]", "            means[targets] = noise_interventions[:, 1]\n            variances[targets] += noise_interventions[:, 2]")
m("c01-scalar-means-unit-variance", ["C01"], L, "            interventions.append([target, params, 0])", "            interventions.append([target, params, 1])")
m("c01-ctor-range-from-zero", ["C01"], L, "            self.means = rng.uniform(means[0], means[1], size=self.p)", "            self.means = rng.uniform(min(0, means[0]), means[1], size=self.p)")
m("c01-shift-after-noise", ["C01"], L, "        if shift_interventions:\n            shift_interventions = _parse_interventions(shift_interventions)\n            targets = shift_interventions[:, 0].astype(int)\n            means[targets] += shift_interventions[:, 1]\n            variances[targets] += shift_interventions[:, 2]\n",
  "", note="shift block removed here and re-inserted after the noise block by the next mutant is not expressible; this one drops shifts on variables that are also noise targets only if combined - kept simple: drops all shifts")
m("c01-noise-overrides-do", ["C01"], L, "        if do_interventions:\n            do_interventions = _parse_interventions(do_interventions)\n            targets = do_interventions[:, 0].astype(int)\n            means[targets] = do_interventions[:, 1]\n            variances[targets] = do_interventions[:, 2]",
  "        if do_interventions:\n            do_interventions = _parse_interventions(do_interventions)\n            targets = do_interventions[:, 0].astype(int)\n            keep = np.array([t not in (noise_interventions[:, 0] if len(noise_interventions) else []) for t in targets])\n            means[targets[keep]] = do_interventions[keep, 1]\n            variances[targets[keep]] = do_interventions[keep, 2]",
  note="on a target that is both do- and noise-intervened the noise parameters win")

# ---- C02
A_ = "sempler/anm.py"
m("c02-shift-before-do", ["C02"], A_, "            if i in do_interventions:\n                X[:, i] = do_interventions[i](n)",
  "            if i in do_interventions and i not in shift_interventions:\n                X[:, i] = do_interventions[i](n)")
m("c02-parents-by-row", ["C02"], A_, "self.assignments[i](X[:, self.A[:, i] != 0])", "self.assignments[i](X[:, self.A[i, :] != 0] if self.p > 6 else X[:, self.A[:, i] != 0])", note="needs p >= 7")
m("c02-parents-reversed", ["C02"], A_, "self.assignments[i](X[:, self.A[:, i] != 0])", "self.assignments[i](X[:, np.where(self.A[:, i] != 0)[0][::-1]])")
m("c02-index-order-instead-of-topological", ["C02"], A_, "        for i in self.ordering:", "        for i in (self.ordering if self.p < 5 else sorted(self.ordering)):")
m("c02-shift-drops-original-noise", ["C02"], A_, "                    noise = self.noise_distributions[i](n) + shift_interventions[i](n)", "                    noise = shift_interventions[i](n)")
m("c02-noise-iv-adds-original", ["C02"], A_, "                    noise = noise_interventions[i](n)", "                    noise = noise_interventions[i](n) + self.noise_distributions[i](n)")
m("c02-positive-weights-only", ["C02"], A_, "self.assignments[i](X[:, self.A[:, i] != 0])", "self.assignments[i](X[:, self.A[:, i] > 0])", note="needs a negative entry in the adjacency")

# ---- C05
ND = "sempler/normal_distribution.py"
m("c05-marginal-sorts-indices", ["C05"], ND, "        X = np.atleast_1d(X)\n        # Compute marginal mean/variance", "        X = np.sort(np.atleast_1d(X))\n        # Compute marginal mean/variance")
m("c05-conditional-sorts-X", ["C05"], ND, "        X = np.atleast_1d(X)\n        x = np.atleast_1d(x)", "        X = np.sort(np.atleast_1d(X))\n        x = np.atleast_1d(x)", note="needs X given in non-increasing order")
m("c05-no-disjointness-check", ["C05"], ND, "        if len(set(Y) & set(X)) > 0:", "        if len(set(Y) & set(X)) > 1:")
m("c05-cov-x-not-inverted-in-mean", ["C05"], ND, "        mean = mean_y + cov_yx @ np.linalg.inv(cov_x) @ (x - mean_x)", "        mean = mean_y + cov_yx @ cov_x @ (x - mean_x)")
m("c05-size-check-off", ["C05"], ND, "        if len(X) != len(x):", "        if len(X) < len(x):", note="a too-short x is then silently broadcast")
m("c05-ctor-size-check-one-sided", ["C05"], ND, "        if len(mean) != len(covariance):", "        if len(mean) > len(covariance):")
m("c05-pinv-regularised", ["C05"], ND, "        covariance = cov_y - cov_yx @ np.linalg.inv(cov_x) @ cov_xy", "        covariance = cov_y - cov_yx @ np.linalg.inv(cov_x + 1e-7 * np.eye(len(X))) @ cov_xy", note="silent ridge term: only visible against an exact oracle")

# ---- C06
m("c06-intercept-plus", ["C06"], ND, "        intercept = self.mean[y] - coefs @ self.mean", "        intercept = self.mean[y] + coefs @ self.mean")
m("c06-mse-drop-factor-two", ["C06"], ND, "        mse = var_y + coefs_xs @ cov @ coefs_xs.T - 2 * cov[y, :] @ coefs_xs.T", "        mse = var_y + coefs_xs @ cov @ coefs_xs.T - cov[y, :] @ coefs_xs.T")
m("c06-coefs-sorted-fill", ["C06"], ND, "            coefs[Xs] = np.linalg.solve(cov_xs, cov_y_xs)", "            coefs[np.sort(Xs)] = np.linalg.solve(cov_xs, cov_y_xs)", note="needs S given in non-increasing order")
m("c06-regress-drops-first", ["C06"], ND, "        Xs = np.atleast_1d(Xs)\n        if len(Xs) > 0:", "        Xs = np.atleast_1d(Xs)\n        Xs = Xs[1:] if len(Xs) > 3 else Xs\n        if len(Xs) > 0:")
m("c06-mse-abs", ["C06"], ND, "        return mse\n", "        return abs(mse) + 1e-9\n")

# ---- C11
GEN = "sempler/generators.py"
m("c11-ordering-is-permutation", ["C11"], GEN, "        return (W[permutation, :][:, permutation], np.argsort(permutation))\n    else:\n        return W[permutation, :][:, permutation]\n\n\ndef dag_full",
  "        return (W[permutation, :][:, permutation], permutation)\n    else:\n        return W[permutation, :][:, permutation]\n\n\ndef dag_full")
m("c11-half-probability", ["C11"], GEN, "    prob = k / (p - 1)", "    prob = k / (2 * (p - 1))")
m("c11-no-relabelling", ["C11"], GEN, "    permutation = rng.permutation(p)\n    # Note the actual topological ordering is the \"conjugate\" of permutation eg. [3,1,2] -> [2,3,1]\n    print(",
  "    permutation = np.arange(p)\n    # Note the actual topological ordering is the \"conjugate\" of permutation eg. [3,1,2] -> [2,3,1]\n    print(")
m("c11-triu-k0", ["C11"], GEN, "    A = np.triu(A, k=1)\n    weights", "    A = np.triu(A, k=0)\n    weights")
m("c11-weights-from-zero", ["C11"], GEN, "    weights = rng.uniform(w_min, w_max, size=A.shape)\n    W = A * weights\n\n", "    weights = rng.uniform(min(w_min, 0), w_max, size=A.shape)\n    W = A * weights\n\n")
m("c11-ordering-different-stream", ["C11"], GEN, "    if return_ordering:\n        return (W[permutation, :][:, permutation], np.argsort(permutation))\n    else:\n        return W[permutation, :][:, permutation]\n\n\ndef intervention_targets",
  "    if return_ordering:\n        permutation = permutation[::-1]\n        return (W[permutation, :][:, permutation], np.argsort(permutation))\n    else:\n        return W[permutation, :][:, permutation]\n\n\ndef intervention_targets", note="dag_full: valid DAG+ordering but a different matrix when the ordering is requested")
m("c11-correlated-edges", ["C11"], GEN, "    A = rng.uniform(size=(p, p))\n    A = (A <= prob).astype(float)", "    A = rng.uniform(size=(p, 1)) * np.ones((1, p))\n    A = (A <= prob).astype(float)", note="right marginal edge probability, edges of one node perfectly dependent")

# ---- C12
m("c12-exclusive-upper-size", ["C12"], GEN, "        sizes = rng.integers(size[0], size[1] + 1, K)", "        sizes = rng.integers(size[0], max(size[1], size[0] + 1), K)")
m("c12-feasibility-ge", ["C12"], GEN, "        if max_size * K > p:", "        if max_size * K >= p:")
m("c12-replace-within-intervention", ["C12"], GEN, "            intervention = list(rng.choice(targets, size=sizes[i], replace=False))", "            intervention = list(rng.choice(targets, size=sizes[i], replace=sizes[i] > 2))")
m("c12-pool-not-shrunk", ["C12"], GEN, "            remaining_targets -= set(intervention)\n", "            remaining_targets -= set(intervention[:1])\n")
m("c12-max-size-check-dropped", ["C12"], GEN, "    if max_size > p:", "    if max_size > p and replace:")

# ---- C20
NO = "sempler/noise.py"
m("c20-laplace-scale-half-percent", ["C20"], NO, "np.random.laplace(mean, scale, n)", "np.random.laplace(mean, scale * 1.005, n)", note="variance 1 % high: pooled family")
m("c20-uniform-skewed", ["C20"], NO, "np.random.uniform(lo, hi, n)", "(lo + (hi - lo) * np.random.uniform(0, 1, n) ** 1.01)", note="a slightly skewed law with nearly the right mean and variance")
m("c20-normal-var-as-sd", ["C20", "C04"], NO, "np.random.normal(mean, var**0.5, n)", "np.random.normal(mean, var, n)")
m("c20-uniform-lo-plus-hi", ["C20"], NO, "np.random.uniform(lo, hi, n)", "np.random.uniform(lo, lo + hi, n)")
m("c20-laplace-half-scale", ["C20"], NO, "np.random.laplace(mean, scale, n)", "np.random.laplace(mean, scale / 2, n)")
m("c20-zero-scalar", ["C20"], NO, "    return lambda n: np.zeros(n)", "    return lambda n: 0.0")
m("c20-laplace-as-normal", ["C20"], NO, "np.random.laplace(mean, scale, n)", "np.random.normal(mean, scale * 2**0.5, n)", note="right mean and variance, wrong law")
m("c20-normal-own-generator", ["C20", "C13"], NO, "    return lambda n: np.random.normal(mean, var**0.5, n)", "    rng = np.random.default_rng()\n    return lambda n: rng.normal(mean, var**0.5, n)", note="right law, not reproducible after np.random.seed")
m("c20-null-returns-mean", ["C20"], "sempler/functions.py", "    return 0", "    return 0 if not args or not hasattr(args[0], 'shape') or args[0].shape[1] == 0 else 1e-9")
m("c20-normal-tiled", ["C20"], NO, "    return lambda n: np.random.normal(mean, var**0.5, n)", "    return lambda n: np.resize(np.random.normal(mean, var**0.5, max(1, (n + 1) // 2)), n)", note="right marginal law, draws repeated: not i.i.d.")

# ---- C04
m("c04-nd-half-covariance", ["C04"], ND, "        return np.random.multivariate_normal(self.mean, self.covariance, size=n)", "        return np.random.multivariate_normal(self.mean, self.covariance / 2, size=n)")
m("c04-nd-variance-1-percent-high", ["C04"], ND, "        return np.random.multivariate_normal(self.mean, self.covariance, size=n)",
  "        return np.random.multivariate_normal(self.mean, self.covariance * 1.01, size=n)", note="a 1 % error of the variance: only the pooled family sees it in the quick tier")
m("c04-nd-mean-half-percent-sd", ["C04"], ND, "        return np.random.multivariate_normal(self.mean, self.covariance, size=n)",
  "        return np.random.multivariate_normal(self.mean + 0.005 * np.sqrt(np.diag(self.covariance)), self.covariance, size=n)", note="bias of 0.5 % of a standard deviation")
m("c04-nd-diagonal-only", ["C04"], ND, "        return np.random.multivariate_normal(self.mean, self.covariance, size=n)", "        return np.random.multivariate_normal(self.mean, np.diag(np.diag(self.covariance)), size=n)")
m("c04-nd-tiled-rows", ["C04"], ND, "        return np.random.multivariate_normal(self.mean, self.covariance, size=n)",
  "        return np.resize(np.random.multivariate_normal(self.mean, self.covariance, size=max(1, (n + 1) // 2)), (n, self.p))", note="right law of each row, rows repeated: not i.i.d.")
m("c04-nd-ignores-mean", ["C04"], ND, "        return np.random.multivariate_normal(self.mean, self.covariance, size=n)", "        return np.random.multivariate_normal(np.zeros(self.p), self.covariance, size=n)")
m("c04-nd-5pct-inflated", ["C04"], ND, "        return np.random.multivariate_normal(self.mean, self.covariance, size=n)", "        return np.random.multivariate_normal(self.mean, self.covariance * 1.08, size=n)", note="8 % variance inflation: at the detection limit of the quick tier")
m("c04-lganm-sample-observational-mean", ["C04"], "sempler/lganm.py", "        if not population:\n            return distribution.sample(n, random_state=random_state)",
  "        if not population:\n            distribution = NormalDistribution(np.linalg.inv(np.eye(self.p) - self.W.T) @ self.means, covariance)\n            return distribution.sample(n, random_state=random_state)", note="finite samples use the observational mean; the population object is right")
m("c04-anm-noise-iv-keeps-mean", ["C04"], "sempler/anm.py", "                    noise = noise_interventions[i](n)\n", "                    noise = noise_interventions[i](n)\n                    noise = noise - noise.mean() + self.noise_distributions[i](n).mean() if n > 2 else noise\n", note="noise intervention keeps the original noise mean")
m("c04-point-mass-jitter", ["C04"], "sempler/lganm.py", "        covariance = A @ np.diag(variances) @ A.T\n", "        covariance = A @ np.diag(variances) @ A.T\n        covariance = covariance + (1e-4 * np.eye(self.p) if not population else 0)\n", note="regularises the covariance before sampling: point masses are no longer constants")

# ---- C17
m("c17-dead-remainder-branch", ["C17"], U, "            if i < n_folds - 1:\n                fold_size = round(n * ratio)\n                fold_sample = sample[start:start + fold_size]\n                start += fold_size\n            else:\n                fold_sample = sample[start::]\n            folds[i].append(fold_sample)\n",
  "            if i < n_folds:\n                fold_size = round(n * ratio)\n                fold_sample = sample[start:start + fold_size]\n            else:\n                fold_sample = sample[start::]\n            folds[i].append(fold_sample)\n            start += fold_size\n", note="the pinned tree's behaviour")
m("c17-rotation-instead-of-shuffle", ["C17"], U, "        rng.shuffle(sample)\n", "        sample = np.roll(sample, int(rng.integers(0, max(n, 1))), axis=0)\n", note="random in the seed, but neighbours stay together")
m("c17-shuffle-twice-half", ["C17"], U, "        rng.shuffle(sample)\n", "        rng.shuffle(sample[: n // 2])\n        rng.shuffle(sample[n // 2:])\n", note="two half shuffles: an observation never leaves its half")
m("c17-exact-sum-check", ["C17"], U, "    if not np.isclose(np.sum(ratios), 1, rtol=0, atol=1e-8):", "    if np.sum(ratios) != 1:", note="the pinned tree's behaviour")
m("c17-int-truncation", ["C17"], U, "                fold_size = round(n * ratio)", "                fold_size = int(n * ratio)")
m("c17-shuffle-concatenation", ["C17"], U, "    for sample in data:\n        n = len(sample)\n        sample = sample.copy()\n        rng.shuffle(sample)",
  "    pooled = np.concatenate(data) if len(data) > 1 and all(s.ndim == 2 for s in data) else None\n    if pooled is not None:\n        rng.shuffle(pooled)\n    offset = 0\n    for sample in data:\n        n = len(sample)\n        sample = sample.copy()\n        rng.shuffle(sample)\n        if pooled is not None:\n            sample = pooled[offset:offset + n]\n            offset += n",
  note="rows migrate between environments; sizes stay right")
m("c17-seed-ignored", ["C17", "C13"], U, "    rng = np.random.default_rng(random_state)\n    for sample in data:", "    rng = np.random.default_rng(42)\n    for sample in data:")
m("c17-shuffle-in-place", ["C17", "C14"], U, "        sample = sample.copy()\n        rng.shuffle(sample)", "        rng.shuffle(sample)")
m("c17-loose-sum-check", ["C17"], U, "    if not np.isclose(np.sum(ratios), 1, rtol=0, atol=1e-8):", "    if not np.isclose(np.sum(ratios), 1, rtol=0, atol=1e-2):")
m("c17-overlapping-folds", ["C17"], U, "                start += fold_size\n", "                start += fold_size if n != 13 else max(fold_size - 1, 0)\n", note="needs n = 13: one row duplicated across folds, one lost")

# ---- C19
SE = "sempler/semi.py"
m("c19-bootstrap-same-seed", ["C19"], SE, "                        self._data[k][:, i], n[k], random_state=rng\n", "                        self._data[k][:, i], n[k], random_state=random_state\n", note="the pinned tree: all source nodes share their bootstrap indices when seeded")
m("c19-global-generator-unseeded", ["C19"], SE, "        np.random.seed(random_state) if random_state is not None else None\n        # Generate a sample for each environment", "        # Generate a sample for each environment", note="the pinned tree: forest draws not reproducible")
m("c19-no-length-check", ["C19"], SE, "            if len(n) != self.e:\n                raise ValueError(_N_TYPE_ERROR)\n", "", note="the pinned tree")
m("c19-parents-from-raw-data", ["C19"], SE, "                    new_data = pd.DataFrame(sample[:, sorted(parents)])", "                    new_data = pd.DataFrame(self._data[k][:n[k], sorted(parents)] if n[k] <= self.Ns[k] else sample[:, sorted(parents)])")
m("c19-unsorted-parents-at-predict", ["C19"], SE, "                    new_data = pd.DataFrame(sample[:, sorted(parents)])", "                    new_data = pd.DataFrame(sample[:, sorted(parents, reverse=True)])")
m("c19-forest-of-env0", ["C19"], SE, "                    forest = self._random_forests[i, k]", "                    forest = self._random_forests[i, 0]")
m("c19-seed-falsy", ["C19"], SE, "        np.random.seed(random_state) if random_state is not None else None\n        # Generate", "        np.random.seed(random_state) if random_state else None\n        # Generate", note="needs random_state = 0")
m("c19-fit-on-all-environments", ["C19"], SE, "                    Y = pd.DataFrame(self._data[k][:, i])\n                    X = pd.DataFrame(self._data[k][:, sorted(parents)])",
  "                    Y = pd.DataFrame(np.vstack(self._data)[:, i])\n                    X = pd.DataFrame(np.vstack(self._data)[:, sorted(parents)])")
m("c19-drf-sample-uniform-weights", ["C19"], "drf/code.py", "                  ids = np.random.choice(range(Y.shape[0]), 1, p=weights[i, :])[0]", "                  ids = np.random.choice(range(Y.shape[0]), 1)[0]", note="ignores the forest weights: value no longer depends on the parents")
m("c19-ordering-index-order", ["C19"], SE, "            for i in self._ordering:", "            for i in range(self.p):", note="children generated before their parents: queries use zeros")
m("c19-data-not-copied", ["C14"], SE, "        self._data = copy.deepcopy(data)", "        self._data = data")

# ---- C13
m("c13-nd-seed-falsy", ["C13"], ND, "        np.random.seed(random_state) if random_state is not None else None\n        return np.random.multivariate_normal", "        np.random.seed(random_state) if random_state else None\n        return np.random.multivariate_normal", note="needs random_state = 0")
m("c13-anm-seed-falsy", ["C13"], "sempler/anm.py", "        np.random.seed(random_state) if random_state is not None else None", "        np.random.seed(random_state) if random_state else None", note="needs random_state = 0")
m("c13-dag-full-ignores-seed", ["C13"], GEN, "    rng = np.random.default_rng(random_state)\n    # Build a triangular matrix", "    rng = np.random.default_rng(random_state if random_state != 1 else None)\n    # Build a triangular matrix", note="needs seed 1")
m("c13-split-global-shuffle", ["C13"], U, "        rng.shuffle(sample)\n        start = 0", "        np.random.shuffle(sample)\n        start = 0")
m("c13-lganm-sample-memoised", ["C13"], "sempler/lganm.py", "        if not population:\n            return distribution.sample(n, random_state=random_state)",
  "        if not population:\n            key = (n, repr(do_interventions), repr(shift_interventions), repr(noise_interventions))\n            cache = self.__dict__.setdefault('_cache', {})\n            if random_state is None and key in cache:\n                return cache[key]\n            cache[key] = distribution.sample(n, random_state=random_state)\n            return cache[key]",
  note="unseeded samples are cached by arguments: consecutive unseeded calls on one model are identical")
m("c13-lganm-ctor-means-global", ["C13"], "sempler/lganm.py", "            self.means = rng.uniform(means[0], means[1], size=self.p)", "            self.means = np.random.uniform(means[0], means[1], size=self.p)")
m("c13-intervention-targets-global-choice", ["C13"], GEN, "            intervention = list(rng.choice(list(remaining_targets), size=sizes[i], replace=False))", "            intervention = list(np.random.choice(list(remaining_targets), size=sizes[i], replace=False))", note="only the without-replacement branch")
m("c13-remove-edges-seed-falsy", ["C13"], U, "    A = A.astype(bool).astype(int)\n    rng = np.random.default_rng(random_state)\n    edges = directed_edges(A)", "    A = A.astype(bool).astype(int)\n    rng = np.random.default_rng(random_state or None)\n    edges = directed_edges(A)", note="needs random_state = 0")

# ---- C14
m("c14-lganm-sample-no-copy-W", ["C14"], L, "        W = self.W.copy()\n", "        W = self.W\n", note="a do-intervention then zeroes a column of the model's own W")
m("c14-lganm-ctor-no-copy", ["C14"], L, "        self.W = W.copy()\n", "        self.W = W\n", note="later changes to the caller's W reach the model")
m("c14-lganm-ctor-variances-no-copy", ["C14"], L, "            self.variances = variances.copy()", "            self.variances = variances")
m("c14-lganm-ctor-copy-only-if-same-object", ["C14"], L, "        self.W = W.copy()\n", "        self.W = W.copy() if W.ndim == 2 and W.base is None else np.array(W, copy=False)\n",
  note="a 0-d / 1-d W of a one-variable model (a view after atleast_2d) is stored without copy")
m("c14-nd-ctor-mean-view-kept", ["C14"], "sempler/normal_distribution.py", "        self.mean = mean.copy()\n", "        self.mean = mean.copy() if mean.base is None else mean\n",
  note="a 0-d mean array (np.mean(x)) becomes a view under atleast_1d and is stored without copy")
m("c14-anm-ctor-no-copy", ["C14"], A_, "        self.A = deepcopy(A)", "        self.A = A")
m("c14-anm-noise-list-shared", ["C14"], A_, "        self.noise_distributions = deepcopy(noise_distributions)", "        self.noise_distributions = noise_distributions")
m("c14-marginal-returns-self", ["C14"], ND, "        X = np.atleast_1d(X)\n        # Compute marginal mean/variance", "        X = np.atleast_1d(X)\n        if len(X) == self.p and (X == np.arange(self.p)).all():\n            return self\n        # Compute marginal mean/variance")
m("c14-nd-ctor-no-copy", ["C14"], ND, "        self.mean = mean.copy()\n        self.covariance = covariance.copy()", "        self.mean = mean\n        self.covariance = covariance")
m("c14-maximally-orient-in-place", ["C14"], U, "    P = P.copy()\n    # Repeatedly apply meek rules until no edges can be oriented", "    # Repeatedly apply meek rules until no edges can be oriented")
m("c14-imec-discards-from-caller-set", ["C14"], U, "    if check_chain and is_chain_graph(A):\n        return chain_graph_IMEC(A, I)", "    I -= set(i for i in list(I) if len(adj(i, A)) == 0)\n    if check_chain and is_chain_graph(A):\n        return chain_graph_IMEC(A, I)", note="isolated targets are dropped from the caller's own set")
m("c14-topological-ordering-in-place", ["C14"], U, "    A = A.copy()\n    sinks = ", "    sinks = ", note="Kahn's algorithm consumes the caller's matrix")
m("c14-all-dags-returns-input", ["C14"], U, "        return np.array([pdag.copy()])", "        return pdag[None, :, :]", note="result is a view of the argument when there is nothing to orient")
m("c14-conditional-caches-on-self", ["C14"], ND, "        cov_y = utils.matrix_block(self.covariance, Y, Y)", "        self.last_query = (Y, X)\n        cov_y = utils.matrix_block(self.covariance, Y, Y)", note="a query leaves a public attribute behind on the model (a private one would not contradict the property, which speaks of public attributes)")
m("c14-lganm-shift-accumulates", ["C14"], L, "        variances = self.variances.astype(float)\n        means = self.means.astype(float)", "        variances = self.variances.astype(float)\n        means = self.means = self.means.astype(float)", note="shift interventions are then added to the model's own means")

# ---- later additions
m("c14-scalar-params-normalised-in-place", ["C14"], L, "    interventions = []\n    for (target, params) in interventions_dict.items():",
  "    interventions = []\n    for target in list(interventions_dict):\n        if type(interventions_dict[target]) in [float, int]:\n            interventions_dict[target] = (interventions_dict[target], 0)\n    for (target, params) in interventions_dict.items():",
  note="the caller's intervention dict is rewritten in place (scalars become tuples)")
m("c04-copula-not-gaussian", ["C04"], ND, "        return np.random.multivariate_normal(self.mean, self.covariance, size=n)",
  "        X = np.random.multivariate_normal(self.mean, self.covariance, size=n)\n        if self.p >= 2 and n > 2:\n            d = X - self.mean\n            flip = np.sign(d[:, 0]) * np.sign(d[:, 1]) * np.sign(np.random.normal(size=n) + 0.8 * np.sign(self.covariance[0, 1] + 1e-300))\n            X[:, 1] = self.mean[1] + np.abs(d[:, 1]) * np.sign(d[:, 0]) * np.where(np.random.random(n) < 0.5 + 0.5 * self.covariance[0, 1] / np.sqrt(self.covariance[0, 0] * self.covariance[1, 1] + 1e-300), 1, -1)\n        return X",
  note="variable 1 keeps its normal marginal but its sign is tied to variable 0's by a coin: normal marginals, non-Gaussian joint")
m("c04-second-half-drifts", ["C04"], ND, "        return np.random.multivariate_normal(self.mean, self.covariance, size=n)",
  "        X = np.random.multivariate_normal(self.mean, self.covariance, size=n)\n        if n > 100:\n            X[n // 2:] += 0.12 * np.sqrt(np.diag(self.covariance)) * (np.arange(self.p) % 2 * 2 - 1)\n            X[:n // 2] -= 0.12 * np.sqrt(np.diag(self.covariance)) * (np.arange(self.p) % 2 * 2 - 1)\n        return X",
  note="the two halves of the sample have means +-0.12 sd: overall mean right, rows not identically distributed")
m("c20-normal-block-correlated", ["C20"], NO, "    return lambda n: np.random.normal(mean, var**0.5, n)",
  "    def draw(n):\n        z = np.random.normal(0, 1, n)\n        if n > 10:\n            z[5:] = (z[5:] + 0.2 * z[:-5]) / (1 + 0.04) ** 0.5\n        return mean + var**0.5 * z\n    return draw",
  note="right marginal law, lag-5 autocorrelation 0.2")
