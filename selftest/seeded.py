#!/usr/bin/env python3
"""Run the registered checks against the sub-agent-written breaking changes kept under /verif/seeded/<id>/.

  selftest/seeded.py [--tests] [--all-checks] [--tier quick] [--dir seeded|preserving] [id ...]

For each seeded change: copy /repo to a scratch directory, run the demonstration on the clean copy (must exit 0),
apply patch.diff, run the demonstration again (must exit non-zero), optionally run the repository's test-suite, then run
the check of the property named in meta.json (or all checks) with SEMPLER_SRC pointing at the copy.  Nothing under /repo
is touched.  Results go to seeded/<id>/result.json and a summary table to stdout.
"""
import glob
import json
import os
import shutil
import subprocess
import sys
import time

HERE = os.path.dirname(os.path.abspath(__file__))
ROOT = os.path.dirname(HERE)
SCRATCH = os.environ.get("VF_SCRATCH", "/tmp/vf-scratch")
PY = "/venv/bin/python"


def make_copy(name):
    d = os.path.join(SCRATCH, "seed-" + name)
    shutil.rmtree(d, ignore_errors=True)
    os.makedirs(d)
    for sub in ("sempler", "drf"):
        shutil.copytree(os.path.join("/repo", sub), os.path.join(d, sub), ignore=shutil.ignore_patterns("__pycache__"))
    shutil.copy("/repo/setup.py", d)
    return d


def run_demo(sdir, d):
    demo = os.path.join(sdir, "demo.py")
    env = dict(os.environ, PYTHONPATH=d + (":" + os.path.join(sdir, "stubs") if os.path.isdir(os.path.join(sdir, "stubs")) else ""),
               PYTHONDONTWRITEBYTECODE="1")
    cp = subprocess.run([PY, demo], env=env, capture_output=True, text=True, timeout=1800, cwd=sdir)
    return cp.returncode, (cp.stdout + cp.stderr)[-600:]


def main(argv):
    run_tests = "--tests" in argv
    all_checks = "--all-checks" in argv
    tier = argv[argv.index("--tier") + 1] if "--tier" in argv else "quick"
    base = argv[argv.index("--dir") + 1] if "--dir" in argv else "seeded"      # "preserving": rewrites that keep the property (checks must stay silent)
    sel = [a for a in argv if not a.startswith("--") and a not in ("quick", "thorough", base)]
    manifest = json.load(open(os.path.join(ROOT, "MANIFEST.json")))
    all_ids = [c["property_id"] for c in manifest["checks"]]
    rows = []
    for sdir in sorted(glob.glob(os.path.join(ROOT, base, "*"))):
        name = os.path.basename(sdir)
        if not os.path.isdir(sdir) or (sel and name not in sel and not any(name.startswith(s) for s in sel)):
            continue
        meta = json.load(open(os.path.join(sdir, "meta.json")))
        d = make_copy(name)
        res = {"name": name, "property": meta["property"], "tier": tier}
        try:
            rc0, out0 = run_demo(sdir, d)
            res["demo_clean_exit"] = rc0
            ap = subprocess.run(["patch", "-p1", "-s", "-i", os.path.join(sdir, "patch.diff")], cwd=d, capture_output=True, text=True)
            res["patch_applies"] = ap.returncode == 0
            if ap.returncode != 0:
                res["patch_error"] = (ap.stdout + ap.stderr)[-400:]
                rows.append(res)
                continue
            rc1, out1 = run_demo(sdir, d)
            res["demo_patched_exit"] = rc1
            res["demo_patched_tail"] = out1[-300:]
            if run_tests:
                tp = subprocess.run([PY, "-m", "pytest", "-q", "-p", "no:cacheprovider", "-n", "8", "--timeout=900", "sempler/test",
                                     "--ignore=sempler/test/test_semi.py"], cwd=d, capture_output=True, text=True)
                res["tests_tail"] = tp.stdout.strip().splitlines()[-1:] if tp.stdout else []
                res["tests_pass"] = tp.returncode == 0
            res["checks"] = {}
            for pid in (all_ids if all_checks else [meta["property"]] + ([] if "--owner-only" in argv else [p for p in meta.get("also_run", []) if p != meta["property"]])):
                env = dict(os.environ, SEMPLER_SRC=d, VERIF_OUT=os.path.join(d, "out"))
                t0 = time.time()
                cp = subprocess.run([os.path.join(ROOT, "check"), pid, tier], env=env, capture_output=True, text=True)
                keys = sorted(set(l.strip().split("]")[0].lstrip("[") for l in cp.stdout.splitlines() if l.strip().startswith("[")))
                res["checks"][pid] = {"exit": cp.returncode, "caught": cp.returncode == 1 and ("VIOLATION property=%s" % pid) in cp.stdout,
                                      "keys": keys[:6], "s": round(time.time() - t0, 1)}
            res["caught_by_owner"] = res["checks"][meta["property"]]["caught"]
            res["caught_by"] = [p for p, c in res["checks"].items() if c["caught"]]
        finally:
            shutil.rmtree(d, ignore_errors=True)
        json.dump(res, open(os.path.join(sdir, "result.json"), "w"), indent=1, sort_keys=True)
        rows.append(res)
        print("%-8s %-10s demo clean/patched exit %s/%s  %s  caught_by=%s %s" % (
            ("CAUGHT" if res.get("caught_by_owner") else "MISSED") if base == "seeded" else ("ALARM" if res.get("caught_by") else "SILENT"), name, res.get("demo_clean_exit"), res.get("demo_patched_exit"),
            ("tests_pass=%s" % res.get("tests_pass")) if run_tests else "", res.get("caught_by"),
            res["checks"][meta["property"]]["keys"][:3] if "checks" in res else res.get("patch_error")))
        sys.stdout.flush()
    missed = [r["name"] for r in rows if not r.get("caught_by_owner")]
    print("%d seeded changes, %d missed by the owning check: %s" % (len(rows), len(missed), missed))
    return 0


if __name__ == "__main__":
    sys.exit(main(sys.argv[1:]))
