#!/usr/bin/env python3
"""Validate the monitors: apply each catalogued mutant to a scratch copy of /repo and
run the owning check's quick tier on it; the check must exit 1 with a VIOLATION line.

  selftest/run.py [--tests] [--tier quick] [name-or-prop ...]

--tests additionally runs the repository's own test-suite on the mutant (a mutant the
suite kills is reported as 'unrealistic' - it would not pass the existing tests).
Results are appended to selftest/results.json.
"""
import json
import os
import shutil
import subprocess
import sys
import time

HERE = os.path.dirname(os.path.abspath(__file__))
ROOT = os.path.dirname(HERE)
sys.path.insert(0, HERE)
import mutants  # noqa

SCRATCH = os.environ.get("VF_SCRATCH", "/tmp/vf-scratch")


def make_copy(name):
    d = os.path.join(SCRATCH, "mut-" + name)
    shutil.rmtree(d, ignore_errors=True)
    os.makedirs(d)
    for sub in ("sempler", "drf"):
        shutil.copytree(os.path.join("/repo", sub), os.path.join(d, sub), ignore=shutil.ignore_patterns("__pycache__"))
    shutil.copy("/repo/setup.py", d)
    return d


def main(argv):
    run_tests = "--tests" in argv
    tier = "quick"
    if "--tier" in argv:
        tier = argv[argv.index("--tier") + 1]
    sel = [a for a in argv if not a.startswith("--") and a not in ("quick", "thorough")]
    results = []
    for mu in mutants.M:
        if sel and not (mu["name"] in sel or any(p in sel for p in mu["props"])):
            continue
        d = make_copy(mu["name"])
        try:
            path = os.path.join(d, mu["file"])
            src = open(path).read()
            if src.count(mu["old"]) != mu["count"]:
                print("!! %s: pattern occurs %d times, expected %d" % (mu["name"], src.count(mu["old"]), mu["count"]))
                results.append({"name": mu["name"], "status": "pattern-mismatch"})
                continue
            open(path, "w").write(src.replace(mu["old"], mu["new"]))
            r = {"name": mu["name"], "props": mu["props"], "checks": {}}
            if run_tests:
                t0 = time.time()
                tp = subprocess.run(["/venv/bin/python", "-m", "pytest", "-q", "-x", "-p", "no:cacheprovider", "-n", "8",
                                     "--timeout=900", "sempler/test", "--ignore=sempler/test/test_semi.py"],
                                    cwd=d, capture_output=True, text=True)
                r["tests_pass"] = tp.returncode == 0
                r["tests_tail"] = tp.stdout.strip().splitlines()[-1:] if tp.stdout else []
                r["tests_s"] = round(time.time() - t0, 1)
            for prop in mu["props"]:
                env = dict(os.environ, SEMPLER_SRC=d, VERIF_OUT=os.path.join(d, "out"))
                t0 = time.time()
                cp = subprocess.run([os.path.join(ROOT, "check"), prop, tier], env=env, capture_output=True, text=True)
                keys = sorted(set(l.strip().split("]")[0].lstrip("[") for l in cp.stdout.splitlines() if l.strip().startswith("[")))
                r["checks"][prop] = {"exit": cp.returncode, "caught": cp.returncode == 1 and "VIOLATION property=%s" % prop in cp.stdout,
                                     "keys": keys[:6], "s": round(time.time() - t0, 1),
                                     "first": cp.stdout.splitlines()[0] if cp.stdout else cp.stderr[-300:]}
            r["caught_by_owner"] = r["checks"][mu["props"][0]]["caught"]
            results.append(r)
            flag = "CAUGHT" if r["caught_by_owner"] else "MISSED"
            extra = "" if not run_tests else (" tests_pass=%s" % r["tests_pass"])
            print("%-7s %-40s %s%s" % (flag, mu["name"], {p: (c["caught"], c["keys"][:2]) for p, c in r["checks"].items()}, extra))
            sys.stdout.flush()
        finally:
            shutil.rmtree(d, ignore_errors=True)
    out = os.path.join(HERE, "results.json")
    old = []
    if os.path.exists(out):
        try:
            old = json.load(open(out))
        except Exception:
            old = []
    names = set(r["name"] for r in results)
    old = [o for o in old if o.get("name") not in names] + results
    json.dump(sorted(old, key=lambda r: r["name"]), open(out, "w"), indent=1, sort_keys=True)
    missed = [r["name"] for r in results if not r.get("caught_by_owner")]
    print("%d mutants, %d missed: %s" % (len(results), len(missed), missed))
    return 1 if missed else 0


if __name__ == "__main__":
    sys.exit(main(sys.argv[1:]))
