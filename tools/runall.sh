#!/bin/sh
# tools/runall.sh [quick|thorough]  - run every registered check against /repo and validate the evidence files
tier="${1:-quick}"
cd "$(dirname "$0")/.." || exit 2
fail=0
for id in $(python3 -c "import json; print(' '.join(c['property_id'] for c in json.load(open('MANIFEST.json'))['checks']))"); do
  ./check "$id" "$tier" > ".scratch-$id.log" 2>&1
  rc=$?
  head -1 ".scratch-$id.log"
  if [ $rc -ne 0 ]; then echo "  !! exit $rc"; sed -n '2,6p' ".scratch-$id.log" | cut -c1-300; fail=1; fi
  rm -f ".scratch-$id.log"
done
python3-vt - <<'PY'
import json, jsonschema, glob
schema = json.load(open('/root/.vp/EVIDENCE.schema.json'))
for f in sorted(glob.glob('/verif/evidence/C*.json')):
    try:
        jsonschema.validate(json.load(open(f)), schema)
    except Exception as e:
        print("INVALID", f, str(e)[:200])
print("evidence files validated")
jsonschema.validate(json.load(open('/verif/MANIFEST.json')), json.load(open('/root/.vp/MANIFEST.schema.json')))
print("manifest valid")
PY
exit $fail
