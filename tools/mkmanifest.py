#!/usr/bin/env python3
"""Regenerate /verif/MANIFEST.json from the check modules' own metadata."""
import importlib
import json
import os
import subprocess
import sys

ROOT = os.path.dirname(os.path.dirname(os.path.abspath(__file__)))
sys.path.insert(0, ROOT)

props = [json.loads(l) for l in open(os.path.join(ROOT, "properties.jsonl")) if l.strip()]
checks, na = [], []
for p in props:
    pid = p["id"]
    path = os.path.join(ROOT, "vf", "checks", pid + ".py")
    if not os.path.exists(path):
        na.append({"property_id": pid, "reason": "check not built yet (planned in DESIGN.md section 3)"})
        continue
    mod = importlib.import_module("vf.checks." + pid)
    if getattr(mod, "NOT_APPLICABLE", None):
        na.append({"property_id": pid, "reason": mod.NOT_APPLICABLE})
        continue
    checks.append({
        "property_id": pid,
        "quick_cmd": "./check %s quick" % pid,
        "thorough_cmd": "./check %s thorough" % pid,
        "evidence_file": "/verif/evidence/%s.json" % pid,
        "replay_cmd_template": "./check %s --replay {path}" % pid,
        "engine": "vf-runtime-monitors",
        "level_claimed": {
            "category": "exploration",
            "text": mod.LEVEL_TEXT,
            "design_ref": "DESIGN.md section 3, " + pid,
        },
        "level_note": mod.LEVEL_NOTE,
        "technique": mod.TECHNIQUE,
    })

fixes = subprocess.run(["git", "-C", "/repo", "log", "--format=%h %s", "--grep=^fix:"], capture_output=True, text=True).stdout.strip().splitlines()
manifest = {
    "version": 1,
    "setup_cmd": "/venv/bin/python -c \"import sys; sys.path.insert(0, '/verif'); from vf.core import env; sys.exit(0 if env.ensure_deps() else 1)\"",
    "hooks": {
        "guard": "SEMPLER_VERIF",
        "enable": "none needed: all observation points are call boundaries wrapped from the harness "
                  "(module/class attributes, instrumented callables passed as arguments, a stand-in rpy2 package on "
                  "sys.path); the repository never reads the guard and contains no hook code",
        "baseline_off_cmd": "cd /repo && /venv/bin/python -m pytest -ra -q -p no:cacheprovider --timeout=900 --continue-on-collection-errors",
        "source_commits": [],
        "add_only": True,
    },
    "engines": [{
        "name": "vf-runtime-monitors",
        "path": "/verif/vf",
        "serves_properties": [c["property_id"] for c in checks],
        "kind_free_text": "runtime monitoring: contracts / boundary monitors on the real sempler functions, reference-model "
                          "oracles (bitmask graphs, exact rational linear algebra, finite-sample statistical bounds), "
                          "exhaustive small-space and seeded adversarial workloads run in 16 shard subprocesses with watchdogs",
    }],
    "checks": checks,
    "not_applicable": na,
    "notes": "Every check imports sempler from /repo's working tree (compiled from source in each run). "
             "Exit 0 held / 1 VIOLATION / 2 INCONCLUSIVE. VERIF_SEED, VERIF_JOBS honoured. "
             "Genuine defects repaired in /repo by 'fix:' commits: " + "; ".join(fixes),
}
with open(os.path.join(ROOT, "MANIFEST.json"), "w") as f:
    json.dump(manifest, f, indent=1)
print("checks:", [c["property_id"] for c in checks])
print("not_applicable:", [c["property_id"] for c in na])
