#!/usr/bin/env python3
"""Import a round of sub-agent seeded changes: tools/import_round.py <outdir> <letter> <written_by-note>

<outdir>/<Cxx>/{patch.diff,demo.py,notes.json} -> seeded/<Cxx><letter>/{patch.diff,demo.py,meta.json}
"""
import json, os, shutil, sys
out, letter, note = sys.argv[1:4]
root = os.path.dirname(os.path.dirname(os.path.abspath(__file__)))
for c in sorted(os.listdir(out)):
    s = os.path.join(out, c)
    if not all(os.path.exists(os.path.join(s, f)) for f in ("patch.diff", "demo.py", "notes.json")):
        print("incomplete", c); continue
    d = os.path.join(root, "seeded", c + letter)
    if os.path.exists(d):
        print("exists", d); continue
    os.makedirs(d)
    shutil.copy(os.path.join(s, "patch.diff"), d); shutil.copy(os.path.join(s, "demo.py"), d)
    n = json.load(open(os.path.join(s, "notes.json")))
    meta = {"property": c, "summary": n.get("summary"), "needs_to_manifest": n.get("needs_to_manifest"),
            "files": n.get("files"), "tests_passed": n.get("tests_passed"), "written_by": note}
    json.dump(meta, open(os.path.join(d, "meta.json"), "w"), indent=1)
    print("imported", d)
