#!/usr/bin/env python3
"""tools/import_seed.py Cxx  - copy a sub-agent's deliverables from /tmp/seed/Cxx-out into /verif/seeded/CxxA, CxxB"""
import json, os, shutil, sys
pid = sys.argv[1]
src = "/tmp/seed/%s-out" % pid
for v in "AB":
    if not os.path.exists(os.path.join(src, "%s.diff" % v)):
        continue
    dst = "/verif/seeded/%s%s" % (pid, v)
    os.makedirs(dst, exist_ok=True)
    shutil.copy(os.path.join(src, "%s.diff" % v), os.path.join(dst, "patch.diff"))
    shutil.copy(os.path.join(src, "demo_%s.py" % v), os.path.join(dst, "demo.py"))
    meta = json.load(open(os.path.join(src, "meta_%s.json" % v)))
    meta["property"] = pid
    meta["written_by"] = "independent sub-agent given only the property text and a scratch worktree"
    json.dump(meta, open(os.path.join(dst, "meta.json"), "w"), indent=1)
    for extra in os.listdir(src):
        if extra.startswith("stub") or extra in ("rpy2", "stubs"):
            p = os.path.join(src, extra)
            if os.path.isdir(p):
                shutil.copytree(p, os.path.join(dst, "stubs") if extra in ("stubs",) else os.path.join(dst, "stubs", extra), dirs_exist_ok=True)
    print("imported", dst)
