#!/usr/bin/env python3
"""tools/import_seed.py Cxx [srcbase] [letters-in] [letters-out]
Copy a sub-agent's deliverables (X.diff, demo_X.py, meta_X.json) from <srcbase>/Cxx-out into /verif/seeded/Cxx<letter>."""
import json, os, shutil, sys
pid = sys.argv[1]
base = sys.argv[2] if len(sys.argv) > 2 else "/tmp/seed"
lin = sys.argv[3] if len(sys.argv) > 3 else "AB"
lout = sys.argv[4] if len(sys.argv) > 4 else lin
src = "%s/%s-out" % (base, pid)
for v, w in zip(lin, lout):
    if not (os.path.exists(os.path.join(src, "%s.diff" % v)) and os.path.exists(os.path.join(src, "demo_%s.py" % v))):
        print("missing", pid, v)
        continue
    dst = "/verif/%s/%s%s" % (os.environ.get("VF_SEED_DIR", "seeded"), pid, w)
    os.makedirs(dst, exist_ok=True)
    shutil.copy(os.path.join(src, "%s.diff" % v), os.path.join(dst, "patch.diff"))
    shutil.copy(os.path.join(src, "demo_%s.py" % v), os.path.join(dst, "demo.py"))
    try:
        meta = json.load(open(os.path.join(src, "meta_%s.json" % v)))
    except Exception:
        meta = {}
    meta["property"] = pid
    meta["written_by"] = "independent sub-agent given only the property text and a scratch worktree (%s)" % base
    json.dump(meta, open(os.path.join(dst, "meta.json"), "w"), indent=1)
    if os.path.isdir(os.path.join(src, "stubs")):
        shutil.copytree(os.path.join(src, "stubs"), os.path.join(dst, "stubs"), dirs_exist_ok=True)
    print("imported", dst)
