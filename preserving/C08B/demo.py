"""C08 demo: dag_to_cpdag / pdag_to_cpdag return the essential graph (brute-force reference).

Run as: PYTHONPATH=<checkout> /venv/bin/python demo_B.py ; exits 0 iff the property holds.
"""
import itertools
import sys
import numpy as np
import sempler.utils as utils

rng = np.random.default_rng(88)


def all_dags(p):
    """All labelled DAGs on p nodes as boolean matrices (permuted upper-triangular patterns)."""
    pairs = [(i, j) for i in range(p) for j in range(i + 1, p)]
    seen = {}
    for perm in itertools.permutations(range(p)):
        for bits in itertools.product([0, 1], repeat=len(pairs)):
            A = np.zeros((p, p), dtype=bool)
            for b, (i, j) in zip(bits, pairs):
                if b:
                    A[perm[i], perm[j]] = True
            seen.setdefault(A.tobytes(), A)
    return list(seen.values())


def key(A):
    """(skeleton, v-structures) of a graph given by boolean matrix A; v-structures over directed edges."""
    p = len(A)
    skel = A | A.T
    D = A & ~A.T
    vs = set()
    for k in range(p):
        for i in range(p):
            for j in range(i + 1, p):
                if D[i, k] and D[j, k] and not skel[i, j]:
                    vs.add((i, k, j))
    return skel.tobytes(), frozenset(vs)


def pattern(M):
    M = np.asarray(M)
    assert M.ndim == 2 and M.shape[0] == M.shape[1]
    return M != 0


failures = 0


def check(cond, msg):
    global failures
    if not cond:
        failures += 1
        if failures <= 10:
            print("FAIL:", msg)


classes = {}   # p -> {key: [dags]}
essential = {}  # p -> {key: bool matrix}
for p in range(1, 6):
    classes[p] = {}
    for A in all_dags(p):
        classes[p].setdefault(key(A), []).append(A)
    essential[p] = {k: np.any(v, axis=0) for k, v in classes[p].items()}
expected_counts = {1: (1, 1), 2: (3, 2), 3: (25, 11), 4: (543, 185), 5: (29281, 8782)}
for p, (nd, nc) in expected_counts.items():
    assert sum(len(v) for v in classes[p].values()) == nd and len(classes[p]) == nc


def weights(A, kind):
    if kind == 0:
        return A.astype(int)
    if kind == 1:
        return A.astype(float)
    W = rng.uniform(0.1, 3, size=A.shape) * rng.choice([-1, 1], size=A.shape)
    return A * W


# ---- dag_to_cpdag: exhaustive p <= 4, 400 sampled DAGs at p = 5
n_dag = 0
for p in range(1, 6):
    items = [(k, A) for k, v in classes[p].items() for A in v]
    if p == 5:
        items = [items[i] for i in rng.choice(len(items), 400, replace=False)]
    for n, (k, A) in enumerate(items):
        E = essential[p][k]
        G = weights(A, n % 3)
        G0 = G.copy()
        C = pattern(utils.dag_to_cpdag(G))
        n_dag += 1
        check((C == E).all(), "dag_to_cpdag wrong for\n%s" % A.astype(int))
        check(((C | C.T) == (A | A.T)).all(), "skeleton differs")
        # the CPDAG's consistent extensions are exactly the class
        if p <= 4 and n % 5 == 0:
            sk, _ = k
            ext = [B for kk, v in classes[p].items() if kk[0] == sk for B in v
                   if key(B)[1] == key(E)[1] and not ((E & ~E.T) & ~B).any()]
            check(sorted(b.tobytes() for b in ext) == sorted(b.tobytes() for b in classes[p][k]),
                  "extensions of CPDAG are not the class")

# ---- not a DAG -> ValueError
for bad in [np.array([[0, 1], [1, 0]]), np.array([[0, 1, 0], [0, 0, 1], [1, 0, 0]])]:
    try:
        utils.dag_to_cpdag(bad)
        check(False, "no ValueError for non-DAG")
    except ValueError:
        pass


# ---- pdag_to_cpdag: all PDAGs p <= 3, 500 sampled at p = 4, 150 at p = 5 (acyclic directed part)
def all_pdags(p):
    pairs = [(i, j) for i in range(p) for j in range(i + 1, p)]
    for states in itertools.product(range(4), repeat=len(pairs)):
        P = np.zeros((p, p), dtype=bool)
        for s, (i, j) in zip(states, pairs):
            P[i, j] = s in (1, 3)
            P[j, i] = s in (2, 3)
        yield P


def random_pdag(p):
    P = np.zeros((p, p), dtype=bool)
    for i in range(p):
        for j in range(i + 1, p):
            s = rng.integers(4)
            P[i, j] = s in (1, 3)
            P[j, i] = s in (2, 3)
    return P


def directed_part_acyclic(P):
    D = (P & ~P.T).astype(int)
    R = np.eye(len(P), dtype=int)
    for _ in range(len(P)):
        R = R @ D
    return not R.any()


def reference(P):
    """Essential graph of the class of the consistent extensions of P, or None."""
    p = len(P)
    sk, vs = key(P)
    D = P & ~P.T
    for k, v in classes[p].items():
        if k[0] == sk and k[1] == vs:
            if any(not (D & ~B).any() for B in v):
                return essential[p][k]
    return None


pdags = [P for p in (1, 2, 3) for P in all_pdags(p)]
pdags += [random_pdag(4) for _ in range(500)] + [random_pdag(5) for _ in range(150)]
n_pdag = n_none = 0
for n, P in enumerate(pdags):
    if not directed_part_acyclic(P):
        continue
    n_pdag += 1
    E = reference(P)
    Pin = weights(P, n % 3)
    try:
        C = pattern(utils.pdag_to_cpdag(Pin))
        check(E is not None, "no ValueError for PDAG without extension\n%s" % P.astype(int))
        if E is not None:
            check((C == E).all(), "pdag_to_cpdag wrong for\n%s" % P.astype(int))
    except ValueError:
        n_none += 1
        check(E is None, "ValueError for PDAG with extension\n%s" % P.astype(int))

# ---- idempotence / class invariance through pdag_to_cpdag: a DAG and an essential graph are PDAGs too
n_extra = 0
for p in (3, 4):
    for k, v in classes[p].items():
        E = essential[p][k]
        for n, Q in enumerate([E] + v[:3]):
            n_extra += 1
            check((pattern(utils.pdag_to_cpdag(weights(Q, n % 3))) == E).all(),
                  "pdag_to_cpdag not invariant on class of\n%s" % E.astype(int))
n_pdag += n_extra

print("checked %d DAGs, %d PDAGs (%d without extension); failures: %d" % (n_dag, n_pdag, n_none, failures))
sys.exit(1 if failures else 0)
