"""C19 demo: semi-synthetic samples of a fitted DRFNet factorise according to the graph.

Run as  PYTHONPATH=<checkout> /venv/bin/python demo_X.py ; exits 0 when the property holds.
The R forest is the deterministic k-nearest-neighbour stand-in in ./stubs/rpy2; all
checks go through the DATA (not through the call log), so lazy / batched / cached
implementations are accepted.
"""
import os
import sys

sys.path.insert(0, os.path.join(os.path.dirname(os.path.abspath(__file__)), "stubs"))

import numpy as np  # noqa: E402
import rpy2.robjects.packages as backend  # noqa: E402
import sempler.semi as semi  # noqa: E402

K = backend.K
FAIL = []


def check(cond, msg):
    if not cond:
        FAIL.append(msg)
        if len(FAIL) <= 20:
            print("FAIL:", msg)


def random_dag(rng, p):
    perm = rng.permutation(p)
    A = np.zeros((p, p))
    dens = rng.choice([0.0, 0.3, 0.6, 1.0])
    for a in range(p):
        for b in range(a + 1, p):
            if rng.random() < dens:
                A[perm[a], perm[b]] = rng.choice([1.0, -2.5, 0.3, 7.0])
    kind = rng.integers(3)
    if kind == 1:
        A = (A != 0).astype(int)
    elif kind == 2:
        A = A != 0
    return A


def allowed_rows(X_train, x):
    """Reference: training rows that may get weight (generous w.r.t. distance ties)."""
    d = ((X_train - x) ** 2).sum(axis=1)
    k = min(K, len(X_train))
    kth = np.sort(d)[k - 1]
    return np.flatnonzero(d <= kth * (1 + 1e-9) + 1e-300)


def check_sample(tag, A, data, out, sizes):
    p = A.shape[0]
    check(isinstance(out, (list, tuple)) and len(out) == len(data), tag + " one array per environment")
    for k, (S, D) in enumerate(zip(out, data)):
        S = np.asarray(S)
        check(S.shape == (sizes[k], p), tag + " shape env %d: %s" % (k, S.shape))
        if S.shape != (sizes[k], p):
            return
        for i in range(p):
            check(np.isin(S[:, i], D[:, i]).all(), tag + " values of var %d env %d not observed" % (i, k))
            pa = [j for j in range(p) if A[j, i] != 0]
            if not pa:
                continue
            Xtr, Y = D[:, pa], D[:, i]
            ok = True
            for r in range(len(S)):
                rows = allowed_rows(Xtr, S[r, pa])
                if S[r, i] not in Y[rows]:
                    ok = False
                    break
            check(ok, tag + " var %d env %d not generated from its synthetic parents" % (i, k))


def same(a, b):
    return len(a) == len(b) and all(np.array_equal(np.asarray(x), np.asarray(y)) for x, y in zip(a, b))


def structural(n_cases=220):
    rng = np.random.default_rng(2024)
    differ_seed = differ_free = total = 0
    for c in range(n_cases):
        p = int(rng.integers(1, 7))
        e = int(rng.integers(1, 4))
        A = random_dag(rng, p)
        Ns = [int(rng.integers(4, 40)) for _ in range(e)]
        data = [rng.normal(size=(N, p)) * rng.choice([1e-3, 1.0, 1e3]) + k for k, N in enumerate(Ns)]
        if c % 4 == 0:  # repeated values / ties
            data = [np.round(D, 0) for D in data]
        if c % 7 == 0:
            data = [np.asfortranarray(D) for D in data]
        backup = [D.copy() for D in data]
        mode = c % 3
        n = None if mode == 0 else (int(rng.integers(1, 50)) if mode == 1 else [int(rng.integers(1, 50)) for _ in range(e)])
        sizes = Ns if n is None else ([n] * e if isinstance(n, int) else n)
        seed = int(rng.integers(0, 2**31))
        tag = "case %d" % c
        net = semi.DRFNet(A, data)
        np.random.seed(1)
        s1 = net.sample(n, random_state=seed)
        free1 = net.sample(n)
        np.random.seed(2)
        s2 = net.sample(n, random_state=seed)
        free2 = net.sample(n)
        s3 = semi.DRFNet(A.copy(), [D.copy() for D in data]).sample(n, random_state=seed)
        other = net.sample(n, random_state=seed + 1)
        check(same(s1, s2), tag + " seeded sample not reproducible on the same object")
        check(same(s1, s3), tag + " seeded sample not reproducible on a fresh object")
        check(same(data, backup), tag + " data modified")
        for name, s in [("seeded", s1), ("free", free1), ("free2", free2), ("other", other)]:
            check_sample(tag + " " + name, A, data, s, sizes)
        if sum(sizes) * p >= 40 and min(Ns) >= 10 and c % 4 != 0:
            total += 1
            differ_seed += not same(s1, other)
            differ_free += not same(free1, free2)
    check(differ_seed >= 0.95 * total, "samples do not depend on the seed (%d/%d)" % (differ_seed, total))
    check(differ_free >= 0.95 * total, "unseeded samples repeat (%d/%d)" % (differ_free, total))


def chi2(table):
    table = np.asarray(table, dtype=float)
    exp = np.outer(table.sum(1), table.sum(0)) / table.sum()
    return ((table - exp) ** 2 / exp).sum()


def statistical():
    # 0 -> 2 <- 1, 2 -> 3, 4 isolated
    A = np.zeros((5, 5))
    A[0, 2] = A[1, 2] = A[2, 3] = 1
    rng = np.random.default_rng(7)
    N, n = 30, 20000
    data = [rng.normal(size=(N, 5)) + k for k in range(2)]
    net = semi.DRFNet(A, data)
    for seed in (11, 12):
        out = net.sample(n, random_state=seed)
        for k, (S, D) in enumerate(zip(out, data)):
            S = np.asarray(S)
            tag = "stat seed %d env %d: " % (seed, k)
            idx = {i: np.array([np.flatnonzero(D[:, i] == v)[0] for v in S[:, i]]) for i in range(5)}
            for i in (0, 1, 4):  # uniform bootstrap of the sources
                cnt = np.bincount(idx[i], minlength=N)
                stat = ((cnt - n / N) ** 2 / (n / N)).sum()
                check(stat < 29 + 6 * np.sqrt(58), tag + "source %d not uniform (%.1f)" % (i, stat))
                r = np.corrcoef(idx[i][:-1], idx[i][1:])[0, 1]
                check(abs(r) < 6 / np.sqrt(n), tag + "rows of source %d dependent (%.3f)" % (i, r))
            for i, j in [(0, 1), (0, 4), (1, 4)]:  # sources independent of one another
                T = np.zeros((5, 5))
                np.add.at(T, (idx[i] // 6, idx[j] // 6), 1)
                check(chi2(T) < 16 + 6 * np.sqrt(32), tag + "sources %d,%d dependent (%.1f)" % (i, j, chi2(T)))
            # conditional law: uniform over the K neighbours, independent of the non-parents
            for i, pa in [(2, [0, 1]), (3, [2])]:
                rank = np.empty(n, dtype=int)
                for r in range(n):
                    rows = allowed_rows(D[:, pa], S[r, pa])
                    rank[r] = list(rows).index(idx[i][r])
                cnt = np.bincount(rank, minlength=K)
                stat = ((cnt - n / K) ** 2 / (n / K)).sum()
                check(stat < (K - 1) + 6 * np.sqrt(2 * (K - 1)) + 10, tag + "var %d not uniform over neighbours (%.1f)" % (i, stat))
                for j in ([4] if i == 2 else [0, 1, 4]):  # Markov: no dependence on non-descendants given parents
                    T = np.zeros((K, 5))
                    np.add.at(T, (rank, idx[j] // 6), 1)
                    check(chi2(T) < 8 + 6 * np.sqrt(16) + 10, tag + "var %d depends on var %d given parents (%.1f)" % (i, j, chi2(T)))


def raises(exc, f, msg):
    try:
        f()
    except exc:
        return
    except Exception as err:  # noqa: BLE001
        check(False, msg + " raised %r" % err)
        return
    check(False, msg + " did not raise")


def errors():
    A = np.array([[0, 1, 1], [0, 0, 1], [0, 0, 0]])
    data = [np.random.default_rng(k).normal(size=(12, 3)) for k in range(2)]
    raises(TypeError, lambda: semi.DRFNet(A.tolist(), data), "graph as list")
    raises(TypeError, lambda: semi.DRFNet(None, data), "graph None")
    raises(ValueError, lambda: semi.DRFNet(A[0], data), "1-d graph")
    raises(ValueError, lambda: semi.DRFNet(A[None], data), "3-d graph")
    raises(ValueError, lambda: semi.DRFNet(A + A.T, data), "cyclic graph")
    raises(ValueError, lambda: semi.DRFNet(np.eye(3), data), "self loops")
    raises(TypeError, lambda: semi.DRFNet(A, data[0]), "data as array")
    raises(TypeError, lambda: semi.DRFNet(A, tuple(data)), "data as tuple")
    raises(TypeError, lambda: semi.DRFNet(A, [data[0], data[1].tolist()]), "sample as list")
    raises(ValueError, lambda: semi.DRFNet(A, [data[0], data[1][:, 0]]), "1-d sample")
    raises(ValueError, lambda: semi.DRFNet(A, [data[0], data[1][:, :2]]), "wrong number of variables")
    net = semi.DRFNet(A, data)
    for bad in (2.0, "3", [2, 3.0], [2, "3"]):
        raises(TypeError, lambda: net.sample(bad), "n=%r" % (bad,))
    for bad in (0, -1, [2, 0], [1, -3], [2], [1, 2, 3], []):
        raises(ValueError, lambda: net.sample(bad), "n=%r" % (bad,))
    check_sample("after errors", A, data, net.sample([3, 4], random_state=0), [3, 4])


if __name__ == "__main__":
    structural()
    statistical()
    errors()
    print("failures:", len(FAIL))
    sys.exit(1 if FAIL else 0)
