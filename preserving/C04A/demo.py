"""C04 demo: finite samples of NormalDistribution / LGANM / linear ANM follow the
population law computed independently (path series, exact for DAGs)."""
import sys
import numpy as np
import sempler
import sempler.noise as noise

N = 20000
K = 7.5  # number of standard errors allowed
rng = np.random.default_rng(2024)
fails = []


def check_sample(X, mean, cov, n, tag):
    if X.shape != (n, len(mean)):
        fails.append((tag, "shape", X.shape)); return
    if not np.all(np.isfinite(X)):
        fails.append((tag, "non-finite")); return
    scale = max(1.0, np.abs(cov).max(), np.abs(mean).max())
    var = np.diag(cov)
    m = X.mean(axis=0)
    if np.any(np.abs(m - mean) > K * np.sqrt(var / n) + 1e-8 * scale):
        fails.append((tag, "mean"))
    C = np.cov(X, rowvar=False, bias=True).reshape(len(mean), len(mean))
    se = np.sqrt((np.outer(var, var) + cov**2) / n)
    if np.any(np.abs(C - cov) > K * se + 1e-8 * scale**2):
        fails.append((tag, "cov"))
    # point masses are constants
    for j in np.where(var <= 1e-12 * scale)[0]:
        if np.abs(X[:, j] - mean[j]).max() > 1e-6 * scale:
            fails.append((tag, "point mass", j))
    # rows are independent (lag-1) and Gaussian (kurtosis) along a random direction
    d = rng.normal(size=len(mean))
    v = d @ cov @ d
    if v > 1e-6 * scale and n >= 5000:
        z = ((X - mean) @ d) / np.sqrt(v)
        if abs(np.mean(z[1:] * z[:-1])) > K / np.sqrt(n):
            fails.append((tag, "lag-1 dependence"))
        if abs(np.mean(z**4) - 3) > K * np.sqrt(96 / n):
            fails.append((tag, "kurtosis"))


def random_dag(p):
    perm = rng.permutation(p)
    W = np.triu(rng.uniform(0.5, 2, (p, p)) * rng.choice([-1, 1], (p, p)) * (rng.random((p, p)) < 0.5), 1)
    P = np.eye(p)[perm]
    return P.T @ W @ P


def reference(W, means, variances, do, shift, noi):
    """Population law by the documented rules, via the finite series sum_k (W^T)^k."""
    p = len(W)
    W = W.astype(float).copy(); m = means.astype(float).copy(); v = variances.astype(float).copy()
    for t, (a, b) in shift.items():
        m[t] += a; v[t] += b
    for t, (a, b) in noi.items():
        m[t] = a; v[t] = b
    for t, (a, b) in do.items():
        m[t] = a; v[t] = b; W[:, t] = 0
    A = np.eye(p); T = np.eye(p)
    for _ in range(p):
        T = T @ W.T; A = A + T
    return A @ m, A @ np.diag(v) @ A.T


def random_interventions(p):
    def draw(targets, point):
        return dict((int(t), (float(rng.uniform(-3, 3)), 0.0 if (point and rng.random() < 0.5) else float(rng.uniform(0.2, 3))))
                    for t in targets)
    t = rng.permutation(p)
    k = rng.integers(0, 3, size=3)
    do = draw(t[:k[0]], True)
    shift_t = t[k[0]:k[0] + k[1]]
    noise_t = t[k[0] + k[1]:k[0] + k[1] + k[2]]   # disjoint from the shift targets
    if rng.random() < 0.3 and k[0] > 0:              # overlap with do: do wins in both classes
        shift_t = np.append(shift_t, t[0])
    return do, draw(shift_t, False), draw(noise_t, True)


# 1. LGANM and the equivalent ANM
for it in range(150):
    p = int(rng.integers(1, 7))
    W = random_dag(p)
    means = rng.uniform(-2, 2, p); variances = rng.uniform(0.1, 4, p)
    do, shift, noi = random_interventions(p)
    mean, cov = reference(W, means, variances, do, shift, noi)
    n = N if it % 10 else int(rng.integers(1, 50))
    seed = int(rng.integers(0, 2**31)) if it % 3 else None
    lganm = sempler.LGANM(W, means, variances)
    X = lganm.sample(n, do_interventions=do, shift_interventions=shift, noise_interventions=noi, random_state=seed)
    check_sample(np.asarray(X), mean, cov, n, ("lganm", it))
    if it % 2 == 0:
        assignments = [None if not np.any(W[:, i]) else (lambda x, w=W[W[:, i] != 0, i]: x @ w) for i in range(p)]
        anm = sempler.ANM(W, assignments, [noise.normal(means[i], variances[i]) for i in range(p)])
        as_fun = lambda d: dict((t, noise.normal(a, b)) for t, (a, b) in d.items())
        Y = anm.sample(n, do_interventions=as_fun(do), shift_interventions=as_fun(shift),
                       noise_interventions=as_fun(noi), random_state=seed)
        check_sample(np.asarray(Y), mean, cov, n, ("anm", it))

# 2. NormalDistribution, incl. singular covariances
for it in range(150):
    p = int(rng.integers(1, 7))
    r = p if it % 2 else int(rng.integers(0, p + 1))
    B = rng.normal(size=(p, r)) * rng.uniform(0.1, 5)
    cov = B @ B.T
    mean = rng.uniform(-5, 5, p)
    n = N if it % 10 else int(rng.integers(1, 50))
    seed = int(rng.integers(0, 2**31)) if it % 3 else None
    X = sempler.NormalDistribution(mean, cov).sample(n, random_state=seed)
    check_sample(np.asarray(X), mean, cov, n, ("normal", it))

print("failures:", len(fails))
for f in fails[:20]:
    print(f)
sys.exit(1 if fails else 0)
