"""Check of property C19 (DRFNet samples factorise according to the graph).

Run as: PYTHONPATH=<checkout> /venv/bin/python demo_B.py ; exits 0 when the property holds.
"""
import os
import sys

sys.path.insert(0, os.path.join(os.path.dirname(os.path.abspath(__file__)), "stubs"))

import numpy as np
import rpy2.robjects.packages as backend
import sempler.semi as semi

K = backend.K
failures = []


def check(cond, msg):
    if not cond:
        failures.append(msg)


def random_dag(rng, p):
    perm = rng.permutation(p)
    A = np.zeros((p, p))
    for a in range(p):
        for b in range(a + 1, p):
            if rng.random() < 0.4:
                A[perm[a], perm[b]] = rng.choice([1, 2.5, -1])
    return A


def parents(A, i):
    return [j for j in range(len(A)) if A[j, i] != 0]


def allowed_values(Xtr, Ytr, x):
    # values of the training rows that may be among the K nearest (ties accepted)
    d = ((Xtr - x) ** 2).sum(axis=1)
    kth = np.sort(d)[min(K, len(d)) - 1]
    return Ytr[d <= kth * (1 + 1e-9) + 1e-300]


def check_sample(A, data, out, n_expected, predicts, tag):
    p, e = A.shape[0], len(data)
    check(isinstance(out, list) and len(out) == e, tag + ": one array per environment")
    for k in range(e):
        S = np.asarray(out[k])
        check(S.shape == (n_expected[k], p), tag + ": shape env %d" % k)
        if S.shape != (n_expected[k], p):
            continue
        for i in range(p):
            check(np.isin(S[:, i], data[k][:, i]).all(), tag + ": support var %d env %d" % (i, k))
            pa = parents(A, i)
            if not pa:
                continue
            Xtr, Ytr = data[k][:, pa], data[k][:, i]
            # the model queried with the synthetic parents must be the one fitted to (i, k)
            hits = [
                (f, nd) for f, nd in predicts
                if nd.shape == (S.shape[0], len(pa)) and np.array_equal(nd, S[:, pa])
                and f.X.shape == Xtr.shape and np.array_equal(f.X, Xtr)
                and np.array_equal(f.Y.ravel(), Ytr)
            ]
            check(len(hits) >= 1, tag + ": var %d env %d queried with synthetic parents" % (i, k))
            # independent reference: value comes from a nearest training row of the parents
            for r in range(S.shape[0]):
                ok = S[r, i] in allowed_values(Xtr, Ytr, S[r, pa])
                check(ok, tag + ": var %d env %d row %d not from the neighbours of its parents" % (i, k, r))
                if not ok:
                    break
    # every query concerns some (variable, environment) of the right width
    for f, nd in predicts:
        ok = any(
            parents(A, i) and f.X.shape[1] == len(parents(A, i))
            and np.array_equal(f.X, data[k][:, parents(A, i)]) and np.array_equal(f.Y.ravel(), data[k][:, i])
            and np.array_equal(nd, np.asarray(out[k])[:, parents(A, i)])
            for k in range(e) for i in range(p)
        )
        check(ok, tag + ": a model was queried with something else than its synthetic parents")


def structural_checks(n_cases=120):
    rng = np.random.default_rng(2024)
    for c in range(n_cases):
        p = int(rng.integers(1, 7))
        e = int(rng.integers(1, 4))
        A = random_dag(rng, p)
        Ns = [int(rng.integers(4, 25)) for _ in range(e)]
        data = [np.round(rng.normal(size=(N, p)) * (k + 1) + 10 * k, 3) for k, N in enumerate(Ns)]
        if c % 3 == 0:  # discrete data with many ties
            data = [rng.integers(0, 3, size=d.shape).astype(float) + 5 * k for k, d in enumerate(data)]
        originals = [d.copy() for d in data]
        net = semi.DRFNet(A.copy(), data)
        mode = c % 3
        if mode == 0:
            n, n_exp = None, Ns
        elif mode == 1:
            n = int(rng.integers(1, 30))
            n_exp = [n] * e
        else:
            n = [int(rng.integers(1, 30)) for _ in range(e)]
            n_exp = list(n)
        seed = int(rng.integers(0, 1000)) if c % 4 else None
        start = len(backend.PREDICTS)
        out = net.sample(n, random_state=seed)
        predicts = backend.PREDICTS[start:]
        check_sample(A, originals, out, n_exp, predicts, "case %d" % c)
        check(all(np.array_equal(a, b) for a, b in zip(data, originals)), "case %d: data modified" % c)
        if seed is not None:
            np.random.seed(int(rng.integers(0, 99)))  # unrelated global state in between
            out2 = net.sample(n, random_state=seed)
            check(all(np.array_equal(a, b) for a, b in zip(out, out2)), "case %d: not reproducible" % c)
            out3 = semi.DRFNet(A.copy(), originals).sample(n, random_state=seed)
            check(all(np.array_equal(a, b) for a, b in zip(out, out3)), "case %d: refit not reproducible" % c)


def statistical_checks():
    # two sources with IDENTICAL columns + one isolated-from-them child chain: 0 and 1 sources, 2 <- 3
    N = 40
    col = np.arange(N, dtype=float)
    data = [np.column_stack([col, col, col, col]), np.column_stack([col, col, col[::-1], col]) + 100]
    A = np.zeros((4, 4))
    A[3, 2] = 1
    net = semi.DRFNet(A, data)
    n = 6000
    outs = net.sample(n, random_state=7)
    for k, S in enumerate(outs):
        base = 100 * k
        # independence of the sources: equal values would be the rule if they shared their rows
        for a, b in [(0, 1), (0, 3), (1, 3)]:
            frac = np.mean(S[:, a] == S[:, b])
            check(frac < 0.08, "sources %d,%d share rows in env %d (%.3f)" % (a, b, k, frac))
            cells = np.zeros((2, 2))
            for u, v in zip(S[:, a] - base >= N / 2, S[:, b] - base >= N / 2):
                cells[int(u), int(v)] += 1
            exp = np.outer(cells.sum(1), cells.sum(0)) / n
            check(((cells - exp) ** 2 / exp).sum() < 30, "sources %d,%d dependent in env %d" % (a, b, k))
        # bootstrap marginal: uniform over the observed values
        for a in (0, 1, 3):
            counts = np.array([(S[:, a] == v + base).sum() for v in col])
            chi = ((counts - n / N) ** 2 / (n / N)).sum()
            check(chi < 120, "source %d marginal not uniform in env %d (chi2 %.1f)" % (a, k, chi))
        # child 2 is within the neighbours of parent 3 -> close to the fitted relation
        target = S[:, 3] if k == 0 else 2 * base + (N - 1) - S[:, 3]
        check(np.all(np.abs(S[:, 2] - target) <= K), "child does not follow its parent in env %d" % k)
        # and uses all neighbours, not a fixed one
        check(len(np.unique(S[:, 2] - target)) >= 2, "child sampling degenerate in env %d" % k)
    # seeds matter
    other = net.sample(200, random_state=8)
    same = net.sample(200, random_state=7)
    check(not np.array_equal(other[0], same[0]), "different seeds give the same sample")
    check(not np.array_equal(other[0][:, 2] - other[0][:, 3], same[0][:, 2] - same[0][:, 3]),
          "forest draws do not depend on the seed")


def raises(exc, fn):
    try:
        fn()
    except exc:
        return True
    except Exception:
        return False
    return False


def error_checks():
    rng = np.random.default_rng(0)
    data = [rng.normal(size=(10, 3)), rng.normal(size=(8, 3))]
    A = np.array([[0, 1, 1], [0, 0, 1], [0, 0, 0.0]])
    D = semi.DRFNet
    check(raises(TypeError, lambda: D(A.tolist(), data)), "graph list -> TypeError")
    check(raises(ValueError, lambda: D(A[0], data)), "graph 1-dim -> ValueError")
    check(raises(ValueError, lambda: D(A + A.T, data)), "cyclic graph -> ValueError")
    cyc = np.array([[0, 1, 0], [0, 0, 1], [1, 0, 0.0]])
    check(raises(ValueError, lambda: D(cyc, data)), "3-cycle -> ValueError")
    check(raises(TypeError, lambda: D(A, tuple(data))), "data tuple -> TypeError")
    check(raises(TypeError, lambda: D(A, [data[0], data[1].tolist()])), "data element list -> TypeError")
    check(raises(ValueError, lambda: D(A, [data[0], data[1][:, 0]])), "data 1-dim -> ValueError")
    check(raises(ValueError, lambda: D(A, [data[0], data[1][:, :2]])), "wrong nr of variables -> ValueError")
    net = D(A, data)
    for bad in (1.5, "3", (2, 2), np.int64(3), [1, 2.0], [1, "a"]):
        check(raises(TypeError, lambda: net.sample(bad)), "n=%r -> TypeError" % (bad,))
    for bad in (0, -2, [1, 0], [1, -1], [1], [1, 2, 3], []):
        check(raises(ValueError, lambda: net.sample(bad)), "n=%r -> ValueError" % (bad,))
    out = net.sample([2, 5], random_state=1)
    check([len(s) for s in out] == [2, 5], "per-environment n")


if __name__ == "__main__":
    structural_checks()
    statistical_checks()
    error_checks()
    for f in failures[:20]:
        print("FAIL:", f)
    print("%d failures" % len(failures))
    sys.exit(1 if failures else 0)
