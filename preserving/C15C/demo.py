"""C15 demo: graph relations agree with their definitions on every PDAG.

Independent references are pure-Python loops / Warshall closures / brute-force
enumeration of node permutations. Exits 0 when the property holds.
"""
import itertools
import sys

import numpy as np

from sempler import utils

rng = np.random.default_rng(20261005)
failures = []


def check(cond, msg):
    if not cond:
        failures.append(msg)
        if len(failures) > 10:
            print("\n".join(failures))
            sys.exit(1)


def random_pdag(p, kind):
    """Directed part acyclic (along a random order) + arbitrary undirected edges."""
    order = rng.permutation(p)
    E = np.zeros((p, p), dtype=int)
    dens_d, dens_u = rng.uniform(0, 0.7), rng.uniform(0, 0.5)
    if kind == "dag":
        dens_u = 0
    for a in range(p):
        for b in range(a + 1, p):
            u = rng.uniform()
            i, j = order[a], order[b]
            if u < dens_d:
                E[i, j] = 1
            elif u < dens_d + dens_u:
                E[i, j] = E[j, i] = 1
    return E


def present(E):
    """Different admissible presentations of the same graph."""
    p = len(E)
    c = rng.integers(6)
    if c == 0:
        return E.copy()
    if c == 1:
        return E.astype(bool)
    if c == 2:
        W = rng.uniform(0.3, 2, size=(p, p)) * rng.choice([-1, 1], size=(p, p))
        return W * E
    if c == 3:
        return np.asfortranarray(E.astype(float))
    if c == 4:
        big = np.zeros((2 * p, 2 * p), dtype=int)
        big[::2, ::2] = E
        return big[::2, ::2]
    return E.astype(np.int8)


def closure(rel, p):
    """Warshall: reach[i][j] <=> non-empty walk from i to j."""
    reach = [[bool(rel[i][j]) for j in range(p)] for i in range(p)]
    for k in range(p):
        for i in range(p):
            if reach[i][k]:
                for j in range(p):
                    if reach[k][j]:
                        reach[i][j] = True
    return reach


def brute_paths(fro, to, step, p):
    if fro == to:
        return [(fro,)]
    others = [k for k in range(p) if k not in (fro, to)]
    out = []
    for r in range(len(others) + 1):
        for mid in itertools.permutations(others, r):
            path = (fro,) + mid + (to,)
            if all(step[a][b] for a, b in zip(path, path[1:])):
                out.append(path)
    return out


def as_int_set(s):
    return set(int(x) for x in s)


n_graphs = 0
for trial in range(400):
    p = int(rng.integers(1, 8))
    kind = "dag" if trial % 3 == 0 else "pdag"
    E = random_pdag(p, kind)
    G = present(E)
    G0 = G.copy()
    n_graphs += 1
    nz = [[E[i, j] != 0 for j in range(p)] for i in range(p)]
    directed = [[nz[i][j] and not nz[j][i] for j in range(p)] for i in range(p)]
    undirected = [[nz[i][j] and nz[j][i] for j in range(p)] for i in range(p)]
    dreach = closure(directed, p)
    ureach = closure(undirected, p)
    tag = "trial %d p=%d dtype=%s" % (trial, p, G.dtype)
    for i in range(p):
        idx = i if trial % 2 else np.int64(i)
        check(as_int_set(utils.pa(idx, G)) == {j for j in range(p) if directed[j][i]}, tag + " pa")
        check(as_int_set(utils.ch(idx, G)) == {j for j in range(p) if directed[i][j]}, tag + " ch")
        check(as_int_set(utils.neighbors(idx, G)) == {j for j in range(p) if undirected[i][j]}, tag + " neighbors")
        check(as_int_set(utils.adj(idx, G)) == {j for j in range(p) if nz[i][j] or nz[j][i]}, tag + " adj")
        anc = {j for j in range(p) if dreach[j][i]}
        des = {j for j in range(p) if dreach[i][j]} | {i}
        check(as_int_set(utils.an(idx, G)) == anc, tag + " an")
        check(as_int_set(utils.ancestors(idx, G)) == anc, tag + " ancestors")
        check(as_int_set(utils.desc(idx, G)) == des, tag + " desc")
        check(as_int_set(utils.descendants(idx, G)) == des, tag + " descendants")
        check(as_int_set(utils.chain_component(idx, G)) == {j for j in range(p) if ureach[i][j]} | {i},
              tag + " chain_component")
    if kind == "dag":
        tc = np.asarray(utils.transitive_closure(G))
        check(tc.shape == (p, p), tag + " closure shape")
        check(all(bool(tc[i, j] != 0) == dreach[i][j] for i in range(p) for j in range(p)), tag + " closure")
    # paths
    all_paths = {}
    for fro in range(p):
        for to in range(p):
            if fro == to:
                continue
            got = [tuple(int(x) for x in path) for path in utils.semi_directed_paths(fro, to, G)]
            ref = brute_paths(fro, to, nz, p)
            check(len(got) == len(set(got)), tag + " duplicate paths")
            check(sorted(got) == sorted(ref), tag + " paths %d->%d" % (fro, to))
            all_paths[fro, to] = ref
    # separation
    for _ in range(6):
        lab = rng.integers(0, 4, size=p)
        S, A, B = ({int(k) for k in range(p) if lab[k] == c} for c in (0, 1, 2))
        ref = all(set(path) & S for a in A for b in B for path in all_paths[a, b])
        got = utils.separates(set(S), set(A), set(B), G)
        check(bool(got) == ref, tag + " separates S=%s A=%s B=%s" % (S, A, B))
        # overlapping sets -> ValueError
        if p >= 2:
            k = int(rng.integers(p))
            which = int(rng.integers(3))
            sets = [set(S), set(A), set(B)]
            sets[which] = sets[which] | {k}
            sets[(which + 1) % 3] = sets[(which + 1) % 3] | {k}
            try:
                utils.separates(sets[0], sets[1], sets[2], G)
                check(False, tag + " no ValueError on overlapping sets")
            except ValueError:
                pass
    check(np.array_equal(G, G0), tag + " input modified")

# long chains / deep graphs within the recursion-safe range
for p in (150, 300):
    order = rng.permutation(p)
    W = np.zeros((p, p))
    W[order[:-1], order[1:]] = rng.uniform(0.5, 1, p - 1) * rng.choice([-1, 1], p - 1)
    pos = {int(v): k for k, v in enumerate(order)}
    for i in (int(order[0]), int(order[p // 2]), int(order[-1])):
        check(as_int_set(utils.an(i, W)) == {int(v) for v in order[:pos[i]]}, "chain an")
        check(as_int_set(utils.desc(i, W)) == {int(v) for v in order[pos[i]:]}, "chain desc")
        check(as_int_set(utils.ancestors(i, W)) == {int(v) for v in order[:pos[i]]}, "chain ancestors")
        check(as_int_set(utils.descendants(i, W)) == {int(v) for v in order[pos[i]:]}, "chain descendants")
    tc = np.asarray(utils.transitive_closure(W))
    ref = np.zeros((p, p), dtype=bool)
    for k in range(p):
        ref[order[k], order[k + 1:]] = True
    check(np.array_equal(tc != 0, ref), "chain closure")
    U = W + W.T  # undirected chain: one chain component, exactly one path between any two nodes
    check(as_int_set(utils.chain_component(int(order[3]), U)) == set(range(p)), "chain component")
    a, b = int(order[5]), int(order[40])
    paths = utils.semi_directed_paths(a, b, U)
    check([[int(x) for x in path] for path in paths] == [[int(v) for v in order[5:41]]], "undirected chain path")
    check(utils.separates({int(order[20])}, {a}, {b}, U) is True or utils.separates({int(order[20])}, {a}, {b}, U) == True,
          "chain separates")
    check(not utils.separates({int(order[50])}, {a}, {b}, U), "chain not separated")

# results never depend on the call history: edit a matrix in place and ask again
H = np.zeros((4, 4), dtype=int)
H[0, 1] = H[1, 2] = H[2, 1] = 1
check(as_int_set(utils.ch(0, H)) == {1} and as_int_set(utils.chain_component(1, H)) == {1, 2}, "before edit")
first = utils.pa(1, H)
first.add(99)  # callers own the returned sets
H[2, 1] = 0
H[0, 3] = H[3, 0] = 1
check(as_int_set(utils.pa(1, H)) == {0} and as_int_set(utils.ch(1, H)) == {2}, "after edit pa/ch")
check(as_int_set(utils.neighbors(0, H)) == {3} and as_int_set(utils.adj(0, H)) == {1, 3}, "after edit ne/adj")
check(as_int_set(utils.chain_component(1, H)) == {1} and as_int_set(utils.chain_component(3, H)) == {0, 3}, "after edit cc")
check(as_int_set(utils.desc(0, H)) == {0, 1, 2} and as_int_set(utils.an(2, H)) == {1, 0}, "after edit an/desc")
check(sorted(map(list, utils.semi_directed_paths(3, 2, H))) == [[3, 0, 1, 2]], "after edit paths")
check(not utils.separates(set(), {3}, {2}, H) and utils.separates({0}, {3}, {2}, H), "after edit separates")

if failures:
    print("\n".join(failures))
    sys.exit(1)
print("C15 holds on %d graphs" % n_graphs)
sys.exit(0)
