"""C01: the population law of LGANM.sample equals the Gaussian law of the solution of the intervened
structural equations.  Reference: exact rational arithmetic (fractions), forward substitution along a
topological order.  Exit status 0 iff the property holds on all generated inputs."""
import sys
import random
from fractions import Fraction as F

import numpy as np
import sempler

N_MODELS = 400
rnd = random.Random(20261005)
failures = []


def dyadic(lo, hi):
    """A rational that is exactly representable as a float."""
    return F(rnd.randint(int(lo * 64), int(hi * 64)), 64)


def random_dag(p, big):
    perm = list(range(p))
    rnd.shuffle(perm)
    W = [[F(0)] * p for _ in range(p)]
    dens = rnd.choice([0.3, 0.6, 1.0])
    for a in range(p):
        for b in range(a + 1, p):
            if rnd.random() < dens:
                w = dyadic(-3, 3) if not big else F(rnd.choice([-1, 1]) * rnd.randint(1, 2000), rnd.choice([1, 1, 1024]))
                W[perm[a]][perm[b]] = w
    return W, perm


def reference(W, order, means, variances, do, noise, shift, absolute=False):
    """Exact mean vector and covariance of the solution of the intervened equations."""
    p = len(W)
    ab = (lambda x: abs(x)) if absolute else (lambda x: x)
    m, v, parents = [], [], []
    for j in range(p):
        if j in do:
            m.append(ab(do[j][0])), v.append(do[j][1]), parents.append([])
            continue
        parents.append([i for i in range(p) if W[i][j] != 0])
        if j in noise:
            m.append(ab(noise[j][0])), v.append(noise[j][1])
        elif j in shift:
            m.append(ab(means[j]) + ab(shift[j][0])), v.append(variances[j] + shift[j][1])
        else:
            m.append(ab(means[j])), v.append(variances[j])
    # X_j = sum_i W_ij X_i + eps_j   =>   X = T eps, rows of T built along the order
    T = [[F(0)] * p for _ in range(p)]
    for j in order:
        T[j][j] = F(1)
        for i in parents[j]:
            for k in range(p):
                T[j][k] += ab(W[i][j]) * T[i][k]
    mean = [sum(T[j][k] * m[k] for k in range(p)) for j in range(p)]
    cov = [[sum(ab(T[a][k]) * v[k] * ab(T[b][k]) for k in range(p)) for b in range(p)] for a in range(p)]
    return mean, cov


def as_param(pair, allow_scalar):
    """Present an exact (mean, variance) pair to the library: tuple, or scalar when variance is 0."""
    mean, var = pair
    if allow_scalar and var == 0 and rnd.random() < 0.7:
        return int(mean) if mean.denominator == 1 and rnd.random() < 0.6 else float(mean)
    conv = [(lambda x: int(x)) if x.denominator == 1 and rnd.random() < 0.5 else float for x in pair]
    return (conv[0](mean), conv[1](var))


def present(d):
    if d:
        items = list(d.items())
        rnd.shuffle(items)
        return {k: as_param(val, True) for k, val in items}
    return rnd.choice([{}, None, "omit"])


def check(tag, dist, mean, cov, amean, acov, normwise=False):
    """Entrywise comparison; the scale of an entry is the same quantity computed from absolute values
    (normwise: the largest such scale, for models with weights in the thousands)."""
    if normwise:
        top_m, top_c = max(amean), max(max(row) for row in acov)
        amean, acov = [top_m] * len(mean), [[top_c] * len(mean)] * len(mean)
    got_m = np.asarray(dist.mean, dtype=float)
    got_c = np.asarray(dist.covariance, dtype=float)
    p = len(mean)
    if got_m.shape != (p,) or got_c.shape != (p, p):
        failures.append((tag, "shape", got_m.shape, got_c.shape))
        return
    for a in range(p):
        tol = 1e-9 * float(amean[a]) + 1e-12
        if not abs(F(float(got_m[a])) - mean[a]) <= tol:
            failures.append((tag, "mean", a, float(got_m[a]), float(mean[a])))
        for b in range(p):
            tol = 1e-9 * float(acov[a][b]) + 1e-12
            if not abs(F(float(got_c[a, b])) - cov[a][b]) <= tol:
                failures.append((tag, "cov", a, b, float(got_c[a, b]), float(cov[a][b])))


for it in range(N_MODELS):
    p = rnd.choice([1, 1, 2, 3, 4, 5, 6, 7])
    big = it % 8 == 7
    integer = it % 3 == 0            # integer-typed weight / mean / variance arrays
    W, perm = random_dag(p, big)
    if integer:
        W = [[F(round(w)) for w in row] for row in W]
        means = [F(rnd.randint(-5, 5)) for _ in range(p)]
        variances = [F(rnd.randint(0, 4)) for _ in range(p)]
        dt = rnd.choice([int, np.int32, np.int64])
    else:
        means = [dyadic(-5, 5) for _ in range(p)]
        variances = [rnd.choice([F(0), dyadic(0, 4), dyadic(0, 4)]) for _ in range(p)]
        dt = rnd.choice([float, np.float64, np.float32]) if not big else float
    npW = np.array([[float(w) for w in row] for row in W]).astype(dt)
    npm = np.array([float(x) for x in means]).astype(dt)
    npv = np.array([float(x) for x in variances]).astype(dt)
    keep = (npW.copy(), npm.copy(), npv.copy())
    model = sempler.LGANM(npW, npm, npv)
    for rep in range(3):
        do, noise, shift = {}, {}, {}
        if rep > 0:
            for j in range(p):
                kind = rnd.choice(["", "", "d", "n", "s", "dn", "ds", "ns", "dns"])
                for c, d in (("d", do), ("n", noise), ("s", shift)):
                    if c in kind:
                        d[j] = (dyadic(-4, 4), rnd.choice([F(0), F(0), dyadic(0, 3), F(rnd.randint(0, 3))]))
        kwargs = {}
        for name, d in (("do_interventions", do), ("noise_interventions", noise), ("shift_interventions", shift)):
            val = present(d)
            if not (isinstance(val, str) and val == "omit"):
                kwargs[name] = val
        dist = model.sample(population=True, **kwargs)
        mean, cov = reference(W, perm, means, variances, do, noise, shift)
        amean, acov = reference(W, perm, means, variances, do, noise, shift, absolute=True)
        check((it, rep, sorted(do), sorted(noise), sorted(shift)), dist, mean, cov, amean, acov, big)
        # the model itself is left untouched and a second call answers the same
        again = model.sample(population=True, **kwargs)
        check((it, rep, "again"), again, mean, cov, amean, acov, big)
    if not ((np.asarray(model.W) == keep[0]).all() and (np.asarray(model.means) == keep[1]).all()
            and (np.asarray(model.variances) == keep[2]).all()):
        failures.append((it, "model parameters changed by sampling"))

# Ranges: one draw per variable, inside the range
for it in range(150):
    p = rnd.choice([1, 2, 3, 5, 8])
    W, perm = random_dag(p, False)
    npW = np.array([[float(w) for w in row] for row in W])
    lo_m, lo_v = rnd.uniform(-3, 3), rnd.uniform(0, 2)
    hi_m, hi_v = lo_m + rnd.choice([0, rnd.uniform(0, 2)]), lo_v + rnd.choice([0, rnd.uniform(0, 2)])
    seed = rnd.choice([None, it])
    model = sempler.LGANM(npW, (lo_m, hi_m), (lo_v, hi_v)) if seed is None else \
        sempler.LGANM(npW, (lo_m, hi_m), (lo_v, hi_v), random_state=seed)
    m, v = np.asarray(model.means, dtype=float), np.asarray(model.variances, dtype=float)
    if m.shape != (p,) or v.shape != (p,):
        failures.append((it, "range shapes", m.shape, v.shape))
        continue
    if not ((m >= lo_m).all() and (m <= hi_m).all() and (v >= lo_v).all() and (v <= hi_v).all()):
        failures.append((it, "range violated", m, v))
    if p >= 3 and hi_m > lo_m + 0.1 and len(set(m.tolist())) == 1:
        failures.append((it, "means not drawn per variable", m))
    if p >= 3 and hi_v > lo_v + 0.1 and len(set(v.tolist())) == 1:
        failures.append((it, "variances not drawn per variable", v))
    # the drawn parameters are the ones of the law
    dist = model.sample(population=True)
    Wq = [[F(float(x)) for x in row] for row in npW]
    mq, vq = [F(float(x)) for x in m], [F(float(x)) for x in v]
    mean, cov = reference(Wq, perm, mq, vq, {}, {}, {})
    amean, acov = reference(Wq, perm, mq, vq, {}, {}, {}, absolute=True)
    check((it, "range law"), dist, mean, cov, amean, acov)

if failures:
    print("C01 VIOLATED, %d failures; first:" % len(failures), failures[:3])
    sys.exit(1)
print("C01 holds on %d models x 3 intervention settings and 150 range draws" % N_MODELS)
sys.exit(0)
