"""C15: graph relations agree with their definitions on every PDAG.
Independent pure-python reference (edge lists + brute force)."""
import sys, itertools
import numpy as np
from sempler import utils

rng = np.random.default_rng(2024)

def random_pdag(p, binary):
    perm = rng.permutation(p)
    A = np.zeros((p, p))
    dens = rng.uniform(0.1, 0.7)
    for a in range(p):
        for b in range(a + 1, p):
            if rng.random() < dens:
                A[perm[a], perm[b]] = 1 if binary else rng.choice([-1, 1]) * rng.uniform(0.5, 2)
    dag = A.copy()
    und = rng.uniform(0, 0.6)
    for a in range(p):
        for b in range(p):
            if a < b and rng.random() < und * 0.5 and (A[a, b] != 0 or A[b, a] != 0 or rng.random() < 0.2):
                A[a, b] = 1 if binary else rng.choice([-1, 1]) * rng.uniform(0.5, 2)
                A[b, a] = 1 if binary else rng.choice([-1, 1]) * rng.uniform(0.5, 2)
    if binary:
        A, dag = A.astype(int), dag.astype(int)
    return A, dag

def edges(A):
    p = len(A)
    D = {(i, j) for i in range(p) for j in range(p) if A[i][j] != 0 and A[j][i] == 0}
    U = {(i, j) for i in range(p) for j in range(p) if i != j and A[i][j] != 0 and A[j][i] != 0}
    return D, U

def reach(i, E, p):
    seen, todo = {i}, [i]
    while todo:
        k = todo.pop()
        for (a, b) in E:
            if a == k and b not in seen:
                seen.add(b); todo.append(b)
    return seen

def all_paths(a, b, E, p):
    out = []
    def rec(path):
        if path[-1] == b:
            out.append(tuple(path)); return
        for (x, y) in E:
            if x == path[-1] and y not in path:
                rec(path + [y])
    rec([a])
    return out

def same(x, y):
    assert isinstance(x, set), type(x)
    assert {int(v) for v in x} == y and len(x) == len(y), (x, y)

n = 0
for trial in range(300):
    p = int(rng.integers(1, 8))
    A, dag = random_pdag(p, binary=trial % 2 == 0)
    L = A.tolist()
    D, U = edges(L)
    Dr = {(b, a) for (a, b) in D}
    S_ = D | U
    for i in range(p):
        same(utils.pa(i, A), {a for (a, b) in D if b == i})
        same(utils.ch(i, A), {b for (a, b) in D if a == i})
        same(utils.neighbors(i, A), {b for (a, b) in U if a == i})
        same(utils.adj(i, A), {b for (a, b) in S_ if a == i} | {a for (a, b) in S_ if b == i})
        for f in (utils.ancestors, utils.an):
            same(f(i, A), reach(i, Dr, p) - {i})
        for f in (utils.descendants, utils.desc):
            same(f(i, A), reach(i, D, p))
        same(utils.chain_component(i, A), reach(i, U, p))
    # transitive closure of the DAG
    Dd, _ = edges(dag.tolist())
    C = np.asarray(utils.transitive_closure(dag))
    assert C.shape == (p, p)
    for i in range(p):
        r = reach(i, Dd, p) - {i}
        for j in range(p):
            assert C[i, j] == (1 if j in r else 0), (dag, C)
    # paths
    paths = {}
    for a in range(p):
        for b in range(p):
            ref = all_paths(a, b, S_, p)
            got = utils.semi_directed_paths(a, b, A)
            got_t = [tuple(int(v) for v in q) for q in got]
            assert len(got_t) == len(set(got_t)) == len(ref), (a, b, got, ref)
            assert set(got_t) == set(ref), (a, b, got, ref)
            paths[a, b] = ref
    # separates on random pairwise-disjoint sets
    for _ in range(6):
        lab = rng.integers(0, 4, size=p)
        S, X, Y = ({int(v) for v in np.where(lab == k)[0]} for k in (0, 1, 2))
        ref = all(set(q) & S for a in X for b in Y for q in paths[a, b])
        got = utils.separates(set(S), set(X), set(Y), A)
        assert bool(got) == ref and got in (True, False), (S, X, Y, A)
    # overlapping sets -> ValueError
    if p >= 2:
        a, b = (int(v) for v in rng.choice(p, 2, replace=False))
        for args in [({a}, {a, b}, set()), ({a}, {b}, {a}), (set(), {a, b}, {b}), ({a}, {a}, {a})]:
            try:
                utils.separates(*args, A)
            except ValueError:
                pass
            else:
                raise AssertionError("no ValueError for overlapping sets %s" % (args,))
    n += 1

# a long chain (iterative or recursive, must be right within the recursion-safe range)
p = 200
A = np.zeros((p, p)); A[np.arange(p - 1), np.arange(1, p)] = -0.5
same(utils.descendants(0, A), set(range(p)))
same(utils.ancestors(p - 1, A), set(range(p - 1)))
assert (np.asarray(utils.transitive_closure(A)) == np.triu(np.ones((p, p)), 1)).all()
print("C15 holds on %d PDAGs" % n)
sys.exit(0)
