"""C20: noise factories draw n values from the documented law.

Independent reference: closed-form moments and CDFs (pure python math),
large samples with generous thresholds.  Exits 0 when the property holds.
"""
import math
import sys
from copy import deepcopy

import numpy as np
import sempler
import sempler.noise as noise
import sempler.functions as functions

N = 20000
fails = []


def check(cond, msg):
    if not cond:
        fails.append(msg)


def shape_ok(f, name):
    for n in (0, 1, 2, 7, 100):
        x = f(n)
        check(isinstance(x, np.ndarray) and x.ndim == 1 and x.shape == (n,), "%s: shape for n=%d" % (name, n))
        check(np.issubdtype(np.asarray(x).dtype, np.number), "%s: dtype" % name)


def repro_ok(f, name, seed, random=True):
    np.random.seed(seed)
    a, a2 = f(50), f(50)
    np.random.seed(seed)
    b, b2 = f(50), f(50)
    check(np.array_equal(a, b) and np.array_equal(a2, b2), "%s: not reproducible for seed %d" % (name, seed))
    if random:
        check(not np.array_equal(a, a2), "%s: consecutive calls identical" % name)
        np.random.seed(seed + 1)
        c = f(50)
        check(not np.array_equal(a, c), "%s: does not depend on the seed" % name)
        # a private generator must not be what is used: the global state advances
        np.random.seed(seed)
        s0 = np.random.get_state()[1].copy(), np.random.get_state()[2]
        f(50)
        s1 = np.random.get_state()[1].copy(), np.random.get_state()[2]
        check(not (np.array_equal(s0[0], s1[0]) and s0[1] == s1[1]), "%s: global generator untouched" % name)


def moments_ok(x, mean, var, kurt, name):
    """kurt = fourth standardised moment of the law; 7-sigma bands."""
    n = len(x)
    sd = math.sqrt(var)
    check(abs(x.mean() - mean) < 7 * sd / math.sqrt(n), "%s: mean %g vs %g" % (name, x.mean(), mean))
    check(abs(x.var() - var) < 7 * var * math.sqrt((kurt - 1) / n) + var / n * 10,
          "%s: variance %g vs %g" % (name, x.var(), var))


def ks_ok(x, cdf, name):
    xs = np.sort(x)
    n = len(xs)
    F = np.array([cdf(v) for v in xs])
    d = max(np.max(np.arange(1, n + 1) / n - F), np.max(F - np.arange(0, n) / n))
    check(d < 2.6 / math.sqrt(n), "%s: KS distance %g" % (name, d))  # p ~ 3e-6


def lag_ok(x, name):
    z = (x - x.mean()) / x.std()
    r = float(np.mean(z[1:] * z[:-1]))
    check(abs(r) < 6 / math.sqrt(len(x)), "%s: lag-1 correlation %g" % (name, r))


par = np.random.RandomState(20)
K = 70  # parameter settings per family

# ---------------------------------------------------------------- normal
for k in range(K):
    mean = float(par.choice([-1, 1]) * 10 ** par.uniform(-2, 2)) if k else 0.0
    var = float(10 ** par.uniform(-2, 2))
    if k == 1:
        mean, var = -3.0, 4.0  # var, not standard deviation
    if k == 2:
        mean, var = 5, 9  # integer parameters
    f = noise.normal(mean, var)
    name = "normal(%g,%g)" % (mean, var)
    shape_ok(f, name)
    repro_ok(f, name, 1000 + k)
    np.random.seed(k)
    x = f(N)
    moments_ok(x, mean, var, 3.0, name)
    lag_ok(x, name)
    if k < 12:
        ks_ok(x, lambda v: 0.5 * (1 + math.erf((v - mean) / math.sqrt(2 * var))), name)
f = noise.normal()
np.random.seed(0)
moments_ok(f(N), 0.0, 1.0, 3.0, "normal()")

# ---------------------------------------------------------------- uniform
for k in range(K):
    lo = float(par.choice([-1, 1]) * 10 ** par.uniform(-2, 2))
    hi = lo + float(10 ** par.uniform(-2, 2))
    if k == 1:
        lo, hi = -2, 5
    f = noise.uniform(lo, hi)
    name = "uniform(%g,%g)" % (lo, hi)
    shape_ok(f, name)
    repro_ok(f, name, 2000 + k)
    np.random.seed(k)
    x = f(N)
    check(x.min() >= lo and x.max() < hi, "%s: outside [lo,hi)" % name)
    moments_ok(x, (lo + hi) / 2, (hi - lo) ** 2 / 12, 1.8, name)
    lag_ok(x, name)
    if k < 12:
        ks_ok(x, lambda v: min(1.0, max(0.0, (v - lo) / (hi - lo))), name)
f = noise.uniform()
np.random.seed(0)
x = f(N)
check(x.min() >= 0 and x.max() < 1, "uniform(): outside [0,1)")
moments_ok(x, 0.5, 1 / 12, 1.8, "uniform()")

# ---------------------------------------------------------------- laplace
for k in range(K):
    mean = float(par.choice([-1, 1]) * 10 ** par.uniform(-2, 2)) if k else 0.0
    scale = float(10 ** par.uniform(-2, 2))
    if k == 1:
        mean, scale = -2, 3
    f = noise.laplace(mean, scale)
    name = "laplace(%g,%g)" % (mean, scale)
    shape_ok(f, name)
    repro_ok(f, name, 3000 + k)
    np.random.seed(k)
    x = f(N)
    moments_ok(x, mean, 2 * scale ** 2, 6.0, name)
    lag_ok(x, name)
    if k < 12:
        ks_ok(x, lambda v: 0.5 * math.exp((v - mean) / scale) if v < mean else 1 - 0.5 * math.exp(-(v - mean) / scale), name)
f = noise.laplace()
np.random.seed(0)
moments_ok(f(N), 0.0, 2.0, 6.0, "laplace()")

# ---------------------------------------------------------------- zero
f = noise.zero()
shape_ok(f, "zero()")
repro_ok(f, "zero()", 5, random=False)
for n in (0, 1, 5, 1000):
    x = f(n)
    check(x.shape == (n,) and not np.any(x != 0), "zero(): not identically 0")
x = f(4)
x[:] = 1
check(not np.any(f(4) != 0), "zero(): result shared between calls")

# ---------------------------------------------------------------- null assignment / use in an ANM
for arg in (np.zeros((5, 0)), par.normal(size=(5, 2)), par.normal(size=(1, 3))):
    r = functions.null(arg)
    check(np.all(np.asarray(r) == 0), "null: not 0")
    check(np.array_equal(np.transpose(r) + np.arange(len(arg), dtype=float), np.arange(len(arg), dtype=float)),
          "null: contributes something")

facs = [lambda: noise.normal(-1.5, 0.3), lambda: noise.uniform(-4, -1), lambda: noise.laplace(2, 0.7), lambda: noise.zero()]
for seed in range(40):
    mk = facs[seed % 4]
    n = [0, 1, 3, 50][(seed // 4) % 4]
    # one source variable without assignment: the sample is exactly the noise
    anm = sempler.ANM(np.zeros((1, 1)), [None], [mk()])
    np.random.seed(seed)
    X = anm.sample(n)
    np.random.seed(seed)
    ref = mk()(n)
    check(X.shape == (n, 1) and np.array_equal(X[:, 0], ref), "ANM source variable != its noise (seed %d)" % seed)
    X2 = anm.sample(n, random_state=seed)
    check(np.array_equal(X, X2), "ANM random_state not reproducible")
    # factories survive deepcopy (ANM copies them)
    g = deepcopy(mk())
    np.random.seed(seed)
    check(np.array_equal(g(n), ref), "deepcopy changes the factory")

# zero noise + linear assignment: child is an exact function of the parent
A = np.array([[0, 1], [0, 0]])
anm = sempler.ANM(A, [None, lambda x: 2 * x[:, 0]], [noise.uniform(1, 2), noise.zero()])
X = anm.sample(200, random_state=3)
check(np.array_equal(X[:, 1], 2 * X[:, 0]), "zero noise is not 0 inside an ANM")
check(X[:, 0].min() >= 1 and X[:, 0].max() < 2, "ANM uniform root outside range")

if fails:
    print("C20 VIOLATED (%d):" % len(fails))
    for m in fails[:20]:
        print("  ", m)
    sys.exit(1)
print("C20 holds")
sys.exit(0)
