"""C17 demo: split_data partitions every environment's observations.

Independent reference: every observation carries a unique id and the tag of its
environment, so the partition is checked by counting ids; expected fold sizes
are recomputed from exact fractions.
"""
import sys
import copy
import random
from fractions import Fraction
import numpy as np
from sempler import utils

VARIANT_SEED = 2802
py = random.Random(VARIANT_SEED)
fails = []


def check(cond, msg):
    if not cond:
        fails.append(msg)


def random_ratios():
    """Fractions summing to exactly 1 and their float images."""
    k = py.randint(1, 6)
    den = py.choice([2, 3, 4, 5, 7, 10, 20, 100])
    for _ in range(1000):
        cuts = sorted(py.randint(0, den) for _ in range(k - 1))
        parts = [b - a for a, b in zip([0] + cuts, cuts + [den])]
        fr = [Fraction(x, den) for x in parts]
        assert sum(fr) == 1
        return fr, [float(f) for f in fr]


def expected_sizes(n, ratios):
    sizes, left = [], n
    for r in ratios[:-1]:
        s = min(round(n * r), left)  # a fold cannot take more than what is left
        sizes.append(s)
        left -= s
    sizes.append(left)
    return sizes


def make_data():
    n_env = py.randint(1, 4)
    data, kind = [], py.choice(["2d", "1d"])
    for e in range(n_env):
        n = py.choice([0, 1, 2, 3, 5, 7, 10, 11, 13, 25, 40, 99])
        ids = np.arange(n, dtype=float) + 1000 * e
        if kind == "2d":
            sample = np.column_stack([ids, np.full(n, float(e)), -ids])
        else:
            sample = ids
        data.append(sample)
    return data, kind


def ids_of(arr, kind):
    arr = np.asarray(arr)
    if kind == "2d":
        arr = arr.reshape(-1, 3)
        assert (arr[:, 2] == -arr[:, 0]).all()  # rows stay intact
        return [float(x) for x in arr[:, 0]]
    return [float(x) for x in arr.reshape(-1)]


def membership(folds, kind):
    return [[tuple(sorted(ids_of(s, kind))) for s in fold] for fold in folds]


# 1. partition, sizes, untouched inputs, determinism
n_cases = 300
changed, eligible = 0, 0
for case in range(n_cases):
    data, kind = make_data()
    fr, ratios = random_ratios()
    seed = py.randint(0, 10**6)
    backup = copy.deepcopy(data)
    as_given = py.choice([list, tuple, np.array])(ratios)
    folds = utils.split_data(data, as_given, random_state=seed)
    check(len(folds) == len(ratios), "number of folds")
    for fold in folds:
        check(len(fold) == len(data), "one entry per environment in every fold")
    for e, sample in enumerate(data):
        check(np.array_equal(sample, backup[e]), "input modified")
        n = len(sample)
        got = [ids_of(fold[e], kind) for fold in folds]
        check([len(g) for g in got] == expected_sizes(n, ratios),
              "fold sizes %s vs %s (n=%d ratios=%s)" % ([len(g) for g in got], expected_sizes(n, ratios), n, fr))
        allids = sorted(x for g in got for x in g)
        check(allids == sorted(ids_of(sample, kind)), "not a partition of the environment (n=%d)" % n)
    # same seed -> same split
    again = utils.split_data(copy.deepcopy(backup), as_given, random_state=seed)
    check(membership(folds, kind) == membership(again, kind), "not reproducible for a fixed seed")
    for f1, f2 in zip(folds, again):
        for s1, s2 in zip(f1, f2):
            check(np.array_equal(np.asarray(s1), np.asarray(s2)), "not reproducible (content)")
    # other seed -> other split, when there is enough room for it
    sizes = expected_sizes(max(len(s) for s in data), ratios)
    if max(len(s) for s in data) >= 25 and sorted(sizes)[-2:][0] >= 5 if len(sizes) > 1 else False:
        eligible += 1
        other = utils.split_data(data, as_given, random_state=seed + 1)
        changed += membership(folds, kind) != membership(other, kind)
check(eligible > 20, "too few cases to test dependence on the seed")
check(changed == eligible, "split does not change with the seed (%d/%d)" % (changed, eligible))

# 2. the assignment is a uniform shuffle (large sample, generous thresholds)
n, reps = 6, 3000
sample = np.arange(n, dtype=float).reshape(n, 1)
first = np.zeros(n)
pairs = np.zeros((n, n))
for seed in range(reps):
    f = utils.split_data([sample, sample + 10], [0.5, 0.5], random_state=seed)
    a = [int(x) for x in np.asarray(f[0][0]).reshape(-1)]
    check(len(a) == 3, "size in uniformity test")
    for i in a:
        first[i] += 1
        for j in a:
            pairs[i, j] += 1
check((np.abs(first / reps - 0.5) < 0.05).all(), "marginal inclusion frequencies %s" % (first / reps))
off = pairs[~np.eye(n, dtype=bool)] / reps
check((np.abs(off - 0.2) < 0.04).all(), "pairwise inclusion frequencies %s" % off)

# 3. ratio vectors: rounding is tolerated, wrong sums are rejected
data = [np.arange(30.0).reshape(10, 3), np.arange(21.0).reshape(7, 3)]
for ratios in [[0.7, 0.2, 0.1], [0.1] * 10, [0.1, 0.2, 0.3, 0.4], [0.3, 0.3, 0.3, 0.1], [1 / 3] * 3,
               [1 / 7] * 7, [0.6, 0.3, 0.1], [0.05] * 20, [1.0], [1], [0.9, 0.1], [0.35, 0.35, 0.3]]:
    try:
        f = utils.split_data(data, ratios, random_state=3)
        check(sum(len(fold[0]) for fold in f) == 10, "sizes with ratios %s" % ratios)
    except ValueError:
        check(False, "ratios %s rejected" % ratios)
for ratios in [[0.7, 0.2, 0.1], [0.5, 0.5], [1.0], [0.25] * 4, [0.1] * 10]:
    for delta in [2e-6, -2e-6, 1e-4, -1e-3, 0.1, -0.1, 1.0, 5.0]:
        for pos in {0, len(ratios) - 1}:
            bad = list(ratios)
            bad[pos] += delta
            backup = copy.deepcopy(data)
            try:
                utils.split_data(data, bad, random_state=3)
                check(False, "ratios %s accepted" % bad)
            except ValueError:
                pass
            check(all(np.array_equal(x, y) for x, y in zip(data, backup)), "input modified on error")
for bad in [[0.5, 0.4], [0.5, 0.6], [0.3, 0.3, 0.3], [2], [0.0], [0.5]]:
    try:
        utils.split_data(data, bad)
        check(False, "ratios %s accepted" % bad)
    except ValueError:
        pass

if fails:
    print("C17 VIOLATED (%d)" % len(fails))
    for m in fails[:10]:
        print("  ", m)
    sys.exit(1)
print("C17 holds on %d splits, %d seed comparisons, %d uniformity draws" % (n_cases, eligible, reps))
