"""C02: every row of ANM.sample satisfies the structural assignments.

Independent reference: the recorded draws of per-variable noise / intervention
callables, and a row-by-row pure-Python (math module) evaluation of the
assignment functions on the returned parent values.
"""
import math
import sys
import numpy as np
import sempler
import sempler.functions

rng = np.random.default_rng(20261005)


class Draws:
    """Noise callable with its own generator; records every draw."""

    def __init__(self, seed, kind):
        self.g = np.random.default_rng(seed)
        self.kind = kind
        self.log = []

    def __call__(self, n):
        if self.kind == 0:
            x = self.g.normal(1.0, 2.0, n)
        elif self.kind == 1:
            x = self.g.uniform(-3, 5, n)
        else:
            x = self.g.standard_t(3, n) * 10
        self.log.append(np.array(x, copy=True))
        return x


class Assign:
    """Non-linear, non-symmetric assignment; form 0: (n,) result,
    form 1: (n,1) column (single parent only), form 2: scalar constant."""

    def __init__(self, coefs, form):
        self.c = np.array(coefs, dtype=float)
        self.form = form

    def __call__(self, x):
        if self.form == 2:
            return float(self.c[0])
        if self.form == 1:
            return self.c[0] * np.tanh(x) + 0.5 * x
        out = np.zeros(len(x))
        for k in range(x.shape[1]):
            out = out + self.c[k] * (k + 1) * np.sin(x[:, k] + k) + (k + 2) * 0.1 * x[:, k]
        return out

    def ref_row(self, row):
        if self.form == 2:
            return float(self.c[0])
        if self.form == 1:
            return float(self.c[0]) * math.tanh(row[0]) + 0.5 * row[0]
        s = 0.0
        for k, v in enumerate(row):
            s += float(self.c[k]) * (k + 1) * math.sin(v + k) + (k + 2) * 0.1 * v
        return s


def random_dag(p):
    perm = rng.permutation(p)
    A = np.zeros((p, p))
    dens = rng.uniform(0.1, 0.9)
    for a in range(p):
        for b in range(a + 1, p):
            if rng.uniform() < dens:
                A[perm[a], perm[b]] = rng.choice([-1, 1]) * rng.uniform(0.3, 2)
    if rng.uniform() < 0.3:
        A = (A != 0).astype(int)
    return A


def matches(col, target):
    return np.allclose(col, target, rtol=1e-9, atol=1e-9)


def one_case(case):
    p = int(rng.integers(1, 8))
    A = random_dag(p)
    n = int(rng.choice([0, 1, 2, 5, 17]))
    assignments, noises = [], []
    for i in range(p):
        k = int((A[:, i] != 0).sum())
        if k == 0:
            assignments.append(None if rng.uniform() < 0.5 else sempler.functions.null)
        else:
            forms = [0, 2] + ([1] if k == 1 else [])
            assignments.append(Assign(rng.uniform(-2, 2, max(k, 1)), int(rng.choice(forms))))
        noises.append(Draws(int(rng.integers(1 << 30)), int(rng.integers(3))))
    anm = sempler.ANM(A, assignments, noises)
    # interventions: shift / noise disjoint, do may overlap with both
    idx = list(rng.permutation(p))
    n_sh = int(rng.integers(0, p + 1))
    sh_t = idx[:n_sh]
    no_t = idx[n_sh:n_sh + int(rng.integers(0, p - n_sh + 1))]
    do_t = [i for i in range(p) if rng.uniform() < 0.3]
    mk = lambda: Draws(int(rng.integers(1 << 30)), int(rng.integers(3)))
    do = dict((int(i), mk()) for i in do_t)
    sh = dict((int(i), mk()) for i in sh_t)
    no = dict((int(i), mk()) for i in no_t)
    kwargs = {}
    if do or rng.uniform() < 0.5:
        kwargs['do_interventions'] = do
    if sh or rng.uniform() < 0.5:
        kwargs['shift_interventions'] = sh
    if no or rng.uniform() < 0.5:
        kwargs['noise_interventions'] = no
    if rng.uniform() < 0.3:
        kwargs['random_state'] = int(rng.integers(1000))
    X = np.asarray(anm.sample(n, **kwargs))
    assert X.shape == (n, p), (case, X.shape, n, p)
    for i in range(p):
        parents = [j for j in range(p) if A[j, i] != 0]
        if i in do:
            assert any(matches(X[:, i], d) for d in do[i].log), (case, i, 'do')
            continue
        f = anm.assignments[i]
        if parents:
            val = np.array([f.ref_row([float(X[r, j]) for j in parents]) for r in range(n)])
        else:
            val = np.zeros(n)
        if i in sh:
            cands = [val + e + s for e in anm.noise_distributions[i].log for s in sh[i].log]
        elif i in no:
            cands = [val + e for e in no[i].log]
        else:
            cands = [val + e for e in anm.noise_distributions[i].log]
        assert any(matches(X[:, i], c) for c in cands), (case, i, 'assignment')


def main():
    for case in range(400):
        one_case(case)
    print("C02 holds on 400 random models")
    return 0


if __name__ == '__main__':
    sys.exit(main())
