"""C18 demo: add_edges / remove_edges change exactly the requested number of edges.

Run as: PYTHONPATH=<checkout> /venv/bin/python demo_X.py ; exits 0 iff the property holds.
Independent reference: boolean matrix powers for acyclicity, plain counting for the rest.
"""
import sys
import numpy as np
from sempler import utils


def acyclic(B):
    """B boolean adjacency; acyclic iff no closed walk of length 1..p."""
    p = len(B)
    M = B.astype(np.int64)
    P = np.eye(p, dtype=np.int64)
    for _ in range(p):
        P = ((P @ M) > 0).astype(np.int64)
        if np.trace(P) > 0:
            return False
    return True


def random_dag(rng, p, density, weighted):
    perm = rng.permutation(p)
    U = np.triu(rng.uniform(size=(p, p)) < density, k=1)
    B = np.zeros((p, p), dtype=bool)
    B[np.ix_(perm, perm)] = U
    if weighted:
        W = rng.uniform(0.5, 2, size=(p, p)) * rng.choice([-1, 1], size=(p, p))
        return W * B
    return B.astype(int)


def structure(R, p):
    R = np.asarray(R)
    assert R.shape == (p, p), "wrong shape %s" % (R.shape,)
    return R != 0


def call(f, A, k, seed):
    """Return (result, raised ValueError?) and check the input stays untouched."""
    before = A.copy()
    try:
        out = f(A, k, random_state=seed)
        err = False
    except ValueError:
        out, err = None, True
    assert np.array_equal(before, A) and before.dtype == A.dtype, "input modified"
    return out, err


def main():
    rng = np.random.default_rng(2024)
    n_inputs = 0
    for trial in range(60):
        p = int(rng.integers(1, 8))
        density = rng.choice([0.0, 0.2, 0.5, 0.8, 1.0])
        weighted = bool(trial % 2)
        A = random_dag(rng, p, density, weighted)
        S = A != 0
        m = int(S.sum())
        full = p * (p - 1) // 2
        seed = int(rng.integers(0, 1000))
        # ---- remove_edges: 0 .. m+1
        for k in range(m + 2):
            kk = k if k % 2 else np.int64(k)
            out, err = call(utils.remove_edges, A, kk, seed)
            n_inputs += 1
            assert err == (k > m), "remove: ValueError iff infeasible (k=%d, m=%d)" % (k, m)
            if err:
                continue
            R = structure(out, p)
            assert not (R & ~S).any(), "remove: not a subgraph"
            assert int(R.sum()) == m - k, "remove: wrong number of edges"
            out2, _ = call(utils.remove_edges, A, kk, seed)
            assert np.array_equal(structure(out2, p), R), "remove: not deterministic"
        # ---- add_edges: 0 .. (full - m) + 1
        for k in range(full - m + 2):
            kk = k if k % 2 else np.int64(k)
            out, err = call(utils.add_edges, A, kk, seed)
            n_inputs += 1
            assert err == (k > full - m), "add: ValueError iff infeasible (k=%d)" % k
            if err:
                continue
            R = structure(out, p)
            assert not (S & ~R).any(), "add: not a supergraph"
            assert int(R.sum()) == m + k, "add: wrong number of edges"
            assert not np.diag(R).any(), "add: self loop"
            assert not (R & R.T).any(), "add: two-cycle"
            assert acyclic(R), "add: cycle"
            out2, _ = call(utils.add_edges, A, kk, seed)
            assert np.array_equal(structure(out2, p), R), "add: not deterministic"
    # default seed is deterministic too
    A = random_dag(rng, 6, 0.4, False)
    assert np.array_equal(np.asarray(utils.add_edges(A, 2)) != 0, np.asarray(utils.add_edges(A, 2)) != 0)
    assert np.array_equal(np.asarray(utils.remove_edges(A, 1)) != 0, np.asarray(utils.remove_edges(A, 1)) != 0)
    print("C18 holds on %d inputs" % n_inputs)
    return 0


if __name__ == "__main__":
    sys.exit(main())
