"""C16 demo: structural decompositions are exact and weight-preserving.
Independent pure-Python reference on random binary PDAGs and DAG weight matrices."""
import sys
import itertools
import numpy as np
import sempler.utils as u

rng = np.random.default_rng(16)
fails = []


def check(cond, what):
    if not cond:
        fails.append(what)


def random_dag_weights(p):
    perm = rng.permutation(p)
    W = np.zeros((p, p))
    for a in range(p):
        for b in range(a + 1, p):
            if rng.random() < rng.choice([0.2, 0.5, 0.8]):
                W[perm[a], perm[b]] = rng.uniform(0.5, 3) * rng.choice([-1, 1])
    return W


def random_pdag(p):
    W = random_dag_weights(p)
    P = (W != 0).astype(int)
    for (i, j) in zip(*np.where(P)):
        if rng.random() < 0.4:
            P[j, i] = 1
    return P


def run(G):
    p = len(G)
    L = [[G[i, j].item() for j in range(p)] for i in range(p)]
    nz = lambda i, j: L[i][j] != 0
    adjp = lambda i, j: nz(i, j) or nz(j, i)
    orig = G.copy()
    D, U, S = u.only_directed(G), u.only_undirected(G), u.skeleton(G)
    check(np.shape(D) == (p, p) and np.shape(U) == (p, p) and np.shape(S) == (p, p), "shapes")
    for i in range(p):
        for j in range(p):
            check(D[i, j] == (L[i][j] if nz(i, j) and not nz(j, i) else 0), "only_directed")
            check(U[i, j] == (L[i][j] if nz(i, j) and nz(j, i) else 0), "only_undirected")
            check(S[i, j] == (1 if adjp(i, j) else 0), "skeleton")
    check((np.asarray(D) + np.asarray(U) == orig).all(), "sum")
    de = [(int(a), int(b)) for a, b in u.directed_edges(G)]
    ref_de = [(i, j) for i in range(p) for j in range(p) if nz(i, j) and not nz(j, i)]
    check(len(de) == len(ref_de) and set(de) == set(ref_de), "directed_edges")
    ue = [(int(a), int(b)) for a, b in u.undirected_edges(G)]
    ref_ue = [(i, j) for i in range(p) for j in range(i) if nz(i, j) and nz(j, i)]
    check(len(ue) == len(ref_ue) and set(ue) == set(ref_ue), "undirected_edges")
    ew = u.edge_weights(G)
    ref_ew = {(i, j): L[i][j] for i in range(p) for j in range(p) if nz(i, j)}
    got = {(int(a), int(b)): w for (a, b), w in ew.items()}
    check(len(ew) == len(ref_ew) and got.keys() == ref_ew.keys()
          and all(got[k] == ref_ew[k] for k in ref_ew), "edge_weights")
    par = lambda c: [i for i in range(p) if nz(i, c) and not nz(c, i)]
    ref_v = set()
    for c in range(p):
        for i, j in itertools.combinations(par(c), 2):
            if not adjp(i, j):
                ref_v.add((min(i, j), c, max(i, j)))
    vs = u.vstructures(G)
    check(len(vs) == len(ref_v) and set(tuple(int(x) for x in t) for t in vs) == ref_v, "vstructures")
    M = u.moral_graph(G)
    for i in range(p):
        for j in range(p):
            married = i != j and any(i in par(c) and j in par(c) for c in range(p))
            check(M[i, j] == (1 if adjp(i, j) or married else 0), "moral_graph")
    deg = u.degrees(G)
    check(len(deg) == p and all(deg[i] == sum(adjp(i, j) for j in range(p)) for i in range(p)), "degrees")
    check(bool(u.is_complete(G)) == all(adjp(i, j) for i in range(p) for j in range(i)), "is_complete")
    for _ in range(4):
        k = int(rng.integers(0, p + 1))
        sub = set(int(x) for x in rng.choice(p, size=k, replace=False))
        I = u.induced_subgraph(sub, G)
        check(np.shape(I) == (p, p), "induced shape")
        for i in range(p):
            for j in range(p):
                check(I[i, j] == (L[i][j] if i in sub and j in sub else 0), "induced_subgraph")
        check(bool(u.is_clique(sub, G)) == all(adjp(i, j) for i in sub for j in sub if i != j), "is_clique")
    check((G == orig).all(), "input mutated")


n = 0
for rep in range(150):
    p = int(rng.integers(1, 8))
    run(random_pdag(p))
    run(random_dag_weights(p))
    B = (random_dag_weights(p) != 0).astype(int)
    run(B)
    n += 3
# a few complete graphs so that is_complete / is_clique see positives
for p in range(1, 6):
    run(np.triu(np.ones((p, p), dtype=int), 1))
    run(np.ones((p, p), dtype=int) - np.eye(p, dtype=int))
    n += 2
if fails:
    print("FAILED:", sorted(set(fails)))
    sys.exit(1)
print("C16 holds on %d graphs" % n)
