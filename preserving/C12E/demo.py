"""C12 demo: intervention_targets respects size, range, disjointness and the documented ValueErrors."""
import sys
import itertools
import numpy as np
from sempler.generators import intervention_targets

n_checked = 0


def expected_error(p, K, size, replace):
    if isinstance(size, tuple):
        if len(size) != 2:
            return True
        mx = size[1]
    else:
        mx = size
    if mx > p:
        return True
    if not replace and mx * K > p:
        return True
    return False


def check(p, K, size, replace, seed):
    global n_checked
    n_checked += 1
    exp = expected_error(p, K, size, replace)
    try:
        out = intervention_targets(p, K, size, replace=replace, random_state=seed)
    except ValueError:
        assert exp, ("unexpected ValueError", p, K, size, replace, seed)
        return None
    assert not exp, ("missing ValueError", p, K, size, replace, seed)
    assert isinstance(out, list) and len(out) == K, (out, p, K, size)
    lo, hi = size if isinstance(size, tuple) else (size, size)
    seen = set()
    for I in out:
        assert isinstance(I, list), type(I)
        vals = []
        for v in I:
            assert isinstance(v, (int, np.integer)) and not isinstance(v, (bool, np.bool_)), type(v)
            assert 0 <= int(v) < p, (v, p)
            vals.append(int(v))
        assert len(set(vals)) == len(vals), ("repeated variable", I)
        assert lo <= len(vals) <= hi, ("bad size", I, size)
        if not replace:
            assert not (seen & set(vals)), ("not disjoint", out)
            seen |= set(vals)
    return [[int(v) for v in I] for I in out]


# 1. exhaustive small grid
for p in range(1, 7):
    for K in range(0, 5):
        sizes = list(range(0, p + 3)) + [(lo, hi) for lo in range(0, p + 2) for hi in range(lo, p + 3)]
        for size, replace in itertools.product(sizes, (True, False)):
            for seed in (0, 1, 12345):
                check(p, K, size, replace, seed)

# 2. tuples not of length two
for p, K, replace in itertools.product((1, 4, 9), (0, 1, 3), (True, False)):
    for size in ((), (1,), (0, 1, 2), (1, 1, 1, 1)):
        check(p, K, size, replace, 3)

# 3. unseeded calls and larger instances
for p, K, size, replace in [(30, 7, (0, 4), False), (30, 7, 4, False), (30, 50, (2, 30), True), (30, 3, 30, True),
                            (30, 1, 30, False), (30, 0, 30, False), (12, 4, 3, False), (12, 4, (3, 3), False)]:
    for _ in range(10):
        check(p, K, size, replace, None)

# 4. over seeds every size in the range and every variable occurs; fixed seed reproducible, seeds matter
for p, K, size, replace in [(6, 4, (0, 3), True), (8, 2, (0, 4), False), (5, 3, (1, 5), True), (9, 3, (1, 3), False),
                            (7, 5, 1, True), (7, 7, 1, False), (4, 1, (0, 4), False)]:
    lens, variables, outs = set(), set(), set()
    for seed in range(400):
        out = check(p, K, size, replace, seed)
        assert out == check(p, K, size, replace, seed), "not reproducible for a fixed seed"
        outs.add(repr(out))
        for I in out:
            lens.add(len(I))
            variables |= set(I)
    lo, hi = size if isinstance(size, tuple) else (size, size)
    assert lens == set(range(lo, hi + 1)), ("sizes not covered", lens, size)
    assert variables == set(range(p)), ("variables not covered", variables, p)
    assert len(outs) > 1, "result does not depend on the seed"

print("C12 holds on %d calls" % n_checked)
sys.exit(0)
