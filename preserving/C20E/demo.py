"""C20: noise factories draw n values from the documented law (independent statistical / exact reference)."""
import math
import sys
import numpy as np
import sempler
import sempler.noise as noise
import sempler.functions as functions

N = 4000
fails = []


def check(cond, msg):
    if not cond:
        fails.append(msg)


def ks(x, cdf):
    x = np.sort(np.asarray(x, dtype=float))
    n = len(x)
    F = np.array([cdf(v) for v in x])
    return max(np.max(np.arange(1, n + 1) / n - F), np.max(F - np.arange(n) / n))


def norm_cdf(m, sd):
    return lambda v: 0.5 * (1 + math.erf((v - m) / (sd * math.sqrt(2))))


def unif_cdf(lo, hi):
    return lambda v: min(1.0, max(0.0, (v - lo) / (hi - lo)))


def lap_cdf(m, b):
    return lambda v: 0.5 * math.exp((v - m) / b) if v < m else 1 - 0.5 * math.exp(-(v - m) / b)


def shape_ok(x, n, tag):
    x = np.asarray(x)
    check(x.ndim == 1 and x.shape == (int(n),), "%s: shape %s for n=%s" % (tag, x.shape, n))
    check(x.dtype.kind == 'f', "%s: dtype %s" % (tag, x.dtype))
    check(np.all(np.isfinite(x)), "%s: not finite" % tag)


def law(tag, make, mean, var, exkurt, cdf, seed, lo=None, hi=None):
    """mean / variance / KS / serial correlation / shape / seeding, all with >= 6 sigma thresholds."""
    f = make()
    np.random.seed(seed)
    x = np.asarray(f(N), dtype=float)
    shape_ok(x, N, tag)
    sd = math.sqrt(var)
    check(abs(x.mean() - mean) < 6 * sd / math.sqrt(N), "%s: mean %g vs %g" % (tag, x.mean(), mean))
    tol = 6 * var * math.sqrt((exkurt + 2.0) / N)
    check(abs(x.var() - var) < tol, "%s: var %g vs %g" % (tag, x.var(), var))
    check(ks(x, cdf) < 3.0 / math.sqrt(N), "%s: KS %g" % (tag, ks(x, cdf)))
    z = (x - mean) / sd
    check(abs(np.mean(z[1:] * z[:-1])) < 6 * math.sqrt((1.0) / N) * max(1.0, 1 + exkurt / 4), "%s: lag-1 correlation" % tag)
    if lo is not None:
        check(np.all(x >= lo) and np.all(x < hi), "%s: outside [lo, hi)" % tag)
    # reproducible after seeding the global generator, also with a fresh factory; later calls continue the stream
    y = np.asarray(f(N // 4))
    np.random.seed(seed)
    x2 = np.asarray(make()(N))
    check(np.array_equal(x, x2), "%s: not reproducible after np.random.seed" % tag)
    y2 = np.asarray(f(N // 4))
    check(np.array_equal(y, y2), "%s: second call not reproducible" % tag)
    check(not np.array_equal(x[:N // 4], y), "%s: consecutive calls return the same numbers" % tag)
    np.random.seed(seed + 1)
    check(not np.array_equal(x, np.asarray(f(N))), "%s: does not depend on the seed" % tag)
    # small n, n = 0, numpy-integer n
    for n in (0, 1, 2, np.int8(7), np.int64(3), np.uint8(200)):
        shape_ok(f(n), n, tag + " n=%r" % (n,))
    # pooled independent calls follow the same law
    np.random.seed(seed + 2)
    pooled = np.concatenate([np.asarray(f(k), dtype=float) for k in (1, 0, 3, 500, 1, 1495)])
    check(ks(pooled, cdf) < 3.0 / math.sqrt(len(pooled)), "%s: pooled KS" % tag)


rng = np.random.RandomState(20)
count = 0
narrow_f = [float, np.float64, np.float32, np.float16]
for k in range(75):
    conv = narrow_f[k % 4]
    m = float(np.round(rng.uniform(-50, 50), 1))
    v = float(rng.choice([0.25, 0.5, 2.0, 4.0, 9.0, 30.0, 100.0]))
    law("normal(%g,%g)[%s]" % (m, v, conv.__name__), lambda: noise.normal(conv(m), conv(v)), float(conv(m)), float(conv(v)), 0.0,
        norm_cdf(float(conv(m)), math.sqrt(float(conv(v)))), 1000 + k)
    count += 1
# defaults and keyword / integer parameters
law("normal()", lambda: noise.normal(), 0.0, 1.0, 0.0, norm_cdf(0, 1), 7)
law("normal(var=4)", lambda: noise.normal(var=4), 0.0, 4.0, 0.0, norm_cdf(0, 2), 8)
law("normal(int8)", lambda: noise.normal(np.int8(-100), np.int8(100)), -100.0, 100.0, 0.0, norm_cdf(-100, 10), 9)
law("normal(uint8)", lambda: noise.normal(np.uint8(200), np.uint8(225)), 200.0, 225.0, 0.0, norm_cdf(200, 15), 10)

for k in range(75):
    lo = float(np.round(rng.uniform(-60, 60), 1))
    w = float(rng.choice([0.5, 1.0, 3.0, 10.0, 100.0]))
    conv = narrow_f[k % 3]
    a, b = float(conv(lo)), float(conv(lo + w))
    law("uniform(%g,%g)" % (a, b), lambda: noise.uniform(conv(a), conv(b)), (a + b) / 2, (b - a) ** 2 / 12, -1.2, unif_cdf(a, b),
        2000 + k, a, b)
    count += 1
law("uniform()", lambda: noise.uniform(), 0.5, 1 / 12, -1.2, unif_cdf(0, 1), 11, 0, 1)
law("uniform(int8)", lambda: noise.uniform(np.int8(-100), np.int8(100)), 0.0, 200.0 ** 2 / 12, -1.2, unif_cdf(-100, 100), 12, -100, 100)
law("uniform(uint8)", lambda: noise.uniform(np.uint8(100), np.uint8(250)), 175.0, 150.0 ** 2 / 12, -1.2, unif_cdf(100, 250), 13, 100, 250)
law("uniform(f16)", lambda: noise.uniform(np.float16(-3), np.float16(5)), 1.0, 64 / 12, -1.2, unif_cdf(-3, 5), 14, -3, 5)

for k in range(75):
    conv = narrow_f[k % 4]
    m = float(conv(np.round(rng.uniform(-50, 50), 1)))
    b = float(conv(rng.choice([0.25, 0.5, 2.0, 3.0, 10.0])))
    law("laplace(%g,%g)" % (m, b), lambda: noise.laplace(conv(m), conv(b)), m, 2 * b * b, 3.0, lap_cdf(m, b), 3000 + k)
    count += 1
law("laplace()", lambda: noise.laplace(), 0.0, 2.0, 3.0, lap_cdf(0, 1), 15)
law("laplace(int8)", lambda: noise.laplace(np.int8(-90), np.int8(100)), -90.0, 20000.0, 3.0, lap_cdf(-90, 100), 16)

# zero() is identically 0, for every n, whatever the generator state
for n in [0, 1, 2, 5, 17, 1000, np.int8(100), np.uint8(255), np.int64(12)]:
    z = np.asarray(noise.zero()(n))
    check(z.ndim == 1 and z.shape == (int(n),), "zero: shape %s" % (z.shape,))
    check(np.all(z == 0) and not np.any(np.signbit(z)), "zero: not 0")
    count += 1
st = np.random.get_state()
noise.zero()(10)

# the null assignment contributes exactly 0
for k in range(60):
    n, p = int(rng.randint(0, 30)), int(rng.randint(0, 4))
    X = rng.normal(size=(n, p)) * 10 ** rng.randint(-5, 6)
    e = rng.laplace(size=n) * 10 ** rng.randint(-8, 9)
    out = np.transpose(functions.null(X)) + e
    check(np.shape(out) == (n,) and np.array_equal(out, e), "null: contributes something")
    check(np.all(np.asarray(functions.null(X)) == 0), "null: not 0")
    count += 1

# inside an ANM: source nodes (assignment None) are exactly their noise; zero noise gives exactly the assignment
A = np.array([[0, 1, 1], [0, 0, 1], [0, 0, 0]])
for k in range(30):
    m, v, b = float(rng.uniform(-5, 5)), float(rng.uniform(2, 6)), float(rng.uniform(0.5, 3))
    anm = sempler.ANM(A, [None, lambda x: 2 * x, lambda x: x[:, 0] - x[:, 1]], [noise.normal(m, v), noise.zero(), noise.laplace(0, b)])
    n = 20000
    X = anm.sample(n, random_state=k)
    check(np.array_equal(X, anm.sample(n, random_state=k)), "ANM: not reproducible")
    check(not np.array_equal(X, anm.sample(n, random_state=k + 100)), "ANM: seed ignored")
    check(np.array_equal(X[:, 1], 2 * X[:, 0]), "ANM: zero noise contributes")
    x0 = X[:, 0]
    check(abs(x0.mean() - m) < 6 * math.sqrt(v / n) and abs(x0.var() - v) < 6 * v * math.sqrt(2 / n), "ANM: source node law")
    check(ks(x0[:4000], norm_cdf(m, math.sqrt(v))) < 3 / math.sqrt(4000), "ANM: source KS")
    r = X[:, 2] - (X[:, 0] - X[:, 1])
    check(abs(r.mean()) < 6 * b * math.sqrt(2 / n) and abs(r.var() - 2 * b * b) < 6 * 2 * b * b * math.sqrt(5 / n), "ANM: laplace law")
    # all-null model with zero noise is exactly 0
    Z = sempler.ANM(np.zeros((3, 3)), [None] * 3, [noise.zero()] * 3).sample(int(rng.randint(0, 9)))
    check(np.all(Z == 0), "ANM: null + zero not 0")
    count += 1

print("C20 demo: %d inputs, %d failures" % (count, len(fails)))
for f in fails[:20]:
    print("  FAIL", f)
sys.exit(1 if fails else 0)
