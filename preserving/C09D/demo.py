"""C09 demo: pdag_to_dag / has_consistent_extension / maximally_orient against brute force.

Reference: enumerate every orientation of the undirected edges; an orientation is a consistent
extension iff it is acyclic and has the same unshielded colliders as the PDAG (skeleton and
directed edges are kept by construction).
"""
import itertools
import sys
import numpy as np
import sempler.utils as utils


def acyclic(G):
    G = G.copy()
    alive = list(range(len(G)))
    while alive:
        src = [v for v in alive if not any(G[u, v] for u in alive)]
        if not src:
            return False
        alive.remove(src[0])
    return True


def colliders(A):
    p = len(A)
    out = set()
    for c in range(p):
        par = [i for i in range(p) if A[i, c] and not A[c, i]]
        for i, j in itertools.combinations(par, 2):
            if not A[i, j] and not A[j, i]:
                out.add((i, c, j))
    return out


def extensions(P):
    p = len(P)
    und = [(i, j) for i in range(p) for j in range(i + 1, p) if P[i, j] and P[j, i]]
    base = P.copy()
    for i, j in und:
        base[i, j] = base[j, i] = 0
    target = colliders(P)
    exts = []
    for bits in itertools.product((0, 1), repeat=len(und)):
        G = base.copy()
        for (i, j), b in zip(und, bits):
            if b:
                G[i, j] = 1
            else:
                G[j, i] = 1
        if acyclic(G) and colliders(G) == target:
            exts.append(G)
    return exts


def random_pdag(p, rng):
    pairs = [(i, j) for i in range(p) for j in range(i + 1, p)]
    perm = rng.permutation(p)
    P = np.zeros((p, p), dtype=int)
    for i, j in pairs:
        k = rng.choice(4, p=[0.4, 0.2, 0.2, 0.2])
        a, b = perm[i], perm[j]
        if k == 1:
            P[a, b] = 1  # directed along the hidden order => acyclic directed part
        elif k >= 2:
            P[a, b] = P[b, a] = 1
    return P


def all_pdags(p):
    pairs = [(i, j) for i in range(p) for j in range(i + 1, p)]
    for states in itertools.product(range(4), repeat=len(pairs)):
        P = np.zeros((p, p), dtype=int)
        for (i, j), s in zip(pairs, states):
            if s == 1:
                P[i, j] = 1
            elif s == 2:
                P[j, i] = 1
            elif s == 3:
                P[i, j] = P[j, i] = 1
        D = P * (P.T == 0)
        if acyclic(D):
            yield P


def present(P, k):
    """Different but covered presentations of the same 0/1 adjacency matrix."""
    if k % 4 == 1:
        return P.astype(bool)
    if k % 4 == 2:
        return np.asfortranarray(P.astype(np.int64))
    if k % 4 == 3:
        return P.astype(np.int8)
    return P.copy()


def check(P, k):
    exts = extensions(P)
    Q = present(P, k)
    Q0 = Q.copy()
    # has_consistent_extension
    assert bool(utils.has_consistent_extension(Q)) == (len(exts) > 0), ("has", P)
    assert (Q == Q0).all(), "input modified"
    # pdag_to_dag
    if not exts:
        try:
            utils.pdag_to_dag(Q)
        except ValueError:
            pass
        else:
            raise AssertionError(("no ValueError", P))
        assert (Q == Q0).all(), "input modified"
        return 0
    G = np.asarray(utils.pdag_to_dag(Q))
    assert (Q == Q0).all(), "input modified"
    assert G.shape == P.shape
    G01 = (G != 0).astype(int)
    assert any((G01 == E).all() for E in exts), ("not an extension", P, G)
    # maximally_orient
    M = np.asarray(utils.maximally_orient(Q))
    assert (Q == Q0).all(), "input modified"
    M01 = (M != 0).astype(int)
    common = np.ones_like(P)
    for E in exts:
        common = common * E
    skel = ((P + P.T) != 0).astype(int)
    # edge i->j directed in M iff present in every extension; otherwise undirected
    expected = ((common + (skel - common - common.T) * 1) != 0).astype(int)
    assert (M01 == expected).all(), ("maximally_orient", P, M01, expected)
    # same set of extensions
    exts_M = extensions(M01)
    assert len(exts_M) == len(exts) and all(any((E == F).all() for F in exts) for E in exts_M), P
    return 1


def main():
    rng = np.random.default_rng(109)
    n = with_ext = 0
    pool = list(all_pdags(3))
    p4 = list(all_pdags(4))
    pool += [p4[i] for i in rng.choice(len(p4), 250, replace=False)]
    for p, m in [(5, 150), (6, 80), (7, 20), (8, 6)]:
        pool += [random_pdag(p, rng) for _ in range(m)]
    for k, P in enumerate(pool):
        with_ext += check(P, k)
        n += 1
    print("checked %d PDAGs (%d with an extension): property holds" % (n, with_ext))
    return 0


if __name__ == "__main__":
    sys.exit(main())
