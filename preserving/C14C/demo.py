"""C14: models are immutable under use and caller data is never modified.

Run as  PYTHONPATH=<checkout> /venv/bin/python demo_X.py ; exits 0 iff the property holds on the tried inputs.
FOCUS selects which part gets the most inputs (the file is the same for the three demos otherwise).
"""
import copy
import sys
import numpy as np
import sempler
import sempler.utils as utils
import sempler.noise as noise

FOCUS = "LGANM"
R = np.random.default_rng(20261005)
FAILS = []


def check(cond, msg):
    if not cond:
        FAILS.append(msg)
        if len(FAILS) > 20:
            finish()


def finish():
    for m in FAILS[:20]:
        print("FAIL:", m)
    print("demo C14 (%s):" % FOCUS, "FAILED" if FAILS else "ok")
    sys.exit(1 if FAILS else 0)


# --------------------------------------------------------------------- helpers
def fp(obj):
    """Content fingerprint of (nested) data: type, dtype, shape and bytes."""
    if isinstance(obj, np.ndarray):
        return ("nd", obj.dtype.str, obj.shape, np.ascontiguousarray(obj).tobytes())
    if isinstance(obj, dict):
        return ("dict", [(fp(k), fp(v)) for k, v in obj.items()])  # order matters too
    if isinstance(obj, (list, tuple)):
        return (type(obj).__name__, [fp(o) for o in obj])
    if isinstance(obj, (set, frozenset)):
        return (type(obj).__name__, sorted(repr(o) for o in obj))
    if callable(obj):
        return ("fun", id(obj))
    return (type(obj).__name__, repr(obj))


def public(model):
    return {k: fp(v) for k, v in vars(model).items() if not k.startswith("_")}


def arrays_in(obj):
    if isinstance(obj, np.ndarray):
        yield obj
    elif isinstance(obj, sempler.NormalDistribution):
        yield obj.mean
        yield obj.covariance
    elif isinstance(obj, dict):
        for v in obj.values():
            yield from arrays_in(v)
    elif isinstance(obj, (list, tuple, set, frozenset)):
        for v in obj:
            yield from arrays_in(v)


def no_alias(out, owners, msg):
    for a in arrays_in(out):
        for b in arrays_in(owners):
            check(not np.shares_memory(a, b), "aliasing: " + msg)


def scribble(out):
    """Mutate a returned object in place as far as it lets us."""
    for a in arrays_in(out):
        try:
            a[...] = (np.nan if a.dtype.kind == "f" else 1)
        except (ValueError, TypeError):
            pass  # read-only results are fine
    if isinstance(out, list):
        out.clear()
    elif isinstance(out, (set, dict)):
        out.clear()


def same(a, b):
    """Equality of two results up to rounding."""
    if isinstance(a, sempler.NormalDistribution):
        return same(a.mean, b.mean) and same(a.covariance, b.covariance)
    if isinstance(a, (tuple, list)) and not isinstance(b, np.ndarray):
        return len(a) == len(b) and all(same(x, y) for x, y in zip(a, b))
    if isinstance(a, (set, frozenset)):
        return a == b
    if a is None or b is None:
        return a is b
    if isinstance(a, dict):
        return isinstance(b, dict) and set(a) == set(b) and all(same(a[k], b[k]) for k in a)
    a, b = np.asarray(a), np.asarray(b)
    return a.shape == b.shape and np.allclose(a, b, rtol=1e-8, atol=1e-9, equal_nan=True)


def rand_dag(p, weights=True):
    perm = R.permutation(p)
    W = np.triu(R.uniform(0.5, 1.5, (p, p)) * (R.random((p, p)) < 0.5), k=1)
    W = W[np.ix_(perm, perm)]
    return W if weights else (W != 0).astype(int)


def rand_lganm_interventions(p):
    def one():
        d = {}
        for t in R.permutation(p)[: R.integers(0, p + 1)]:
            t = int(t)
            d[t] = (float(R.normal()), float(R.uniform(0, 2))) if R.random() < 0.7 else float(R.normal())
        return d
    return {"do_interventions": one(), "shift_interventions": one(), "noise_interventions": one()}


def reference_joint(W, means, variances):
    """Path method: X = sum_k (W^T)^k eps, exact for a DAG (nilpotent W)."""
    p = len(W)
    T, Pk = np.eye(p), np.eye(p)
    for _ in range(p):
        Pk = Pk @ W.T
        T = T + Pk
    return T @ means, T @ np.diag(variances) @ T.T


def law_ok(X, mean, cov):
    """Large-sample check of a sample against a normal law, generous thresholds."""
    tol = 0.05 * np.abs(cov).max() + 0.05
    return np.abs(X.mean(axis=0) - mean).max() < tol and np.abs(np.cov(X.T).reshape(cov.shape) - cov).max() < tol


def reference_conditional(mean, cov, Y, X, x):
    K = np.linalg.lstsq(cov[np.ix_(X, X)], cov[np.ix_(X, Y)], rcond=None)[0].T
    return mean[Y] + K @ (x - mean[X]), cov[np.ix_(Y, Y)] - K @ cov[np.ix_(X, Y)]


# ------------------------------------------------------------- NormalDistribution
def query_distribution(dist, ref_mean, ref_cov, tag):
    """One random query on a NormalDistribution; checks inputs untouched, no aliasing,
    correctness against the reference, then scribbles on the output. Returns a
    replayable description of the call."""
    p = dist.p
    regular = np.linalg.eigvalsh(ref_cov).min() > 1e-3  # deterministic interventions give singular covariances
    kind = R.choice(["marginal", "conditional", "regress", "mse", "sample"] if regular else ["marginal", "sample"])
    idx = R.permutation(p)
    k = int(R.integers(1, p + 1))
    if kind == "marginal":
        args = (idx[:k].copy(),)
    elif kind == "conditional":
        k = int(R.integers(1, p)) if p > 1 else 1
        Y, X = idx[:k].copy(), idx[k:][: R.integers(0, p - k + 1)].copy()
        args = (Y, X, R.normal(size=len(X)))
    elif kind in ("regress", "mse"):
        args = (int(idx[0]), [int(i) for i in idx[1:k]])
    else:
        args = (int(R.integers(1, 6)),)
    kwargs = {"random_state": int(R.integers(0, 1000))} if kind == "sample" else {}
    before = fp(args)
    out = getattr(dist, kind)(*args, **kwargs)
    check(fp(args) == before, "%s: %s modified its arguments" % (tag, kind))
    no_alias(out, [dist.mean, dist.covariance, list(args)], "%s: %s result" % (tag, kind))
    # independent reference
    if kind == "marginal":
        X = args[0]
        check(same(out.mean, ref_mean[X]) and same(out.covariance, ref_cov[np.ix_(X, X)]), tag + ": marginal wrong")
    elif kind == "conditional" and len(args[1]) > 0:
        m, c = reference_conditional(ref_mean, ref_cov, *args)
        check(np.allclose(out.mean, m, atol=1e-6) and np.allclose(out.covariance, c, atol=1e-6), tag + ": conditional wrong")
    elif kind in ("regress", "mse") and len(args[1]) > 0:
        y, Xs = args
        b = np.linalg.lstsq(ref_cov[np.ix_(Xs, Xs)], ref_cov[Xs, y], rcond=None)[0]
        if kind == "regress":
            check(np.allclose(out[0][Xs], b, atol=1e-6) and np.isclose(out[1], ref_mean[y] - b @ ref_mean[Xs], atol=1e-6),
                  tag + ": regress wrong")
        else:
            check(np.isclose(out, ref_cov[y, y] - b @ ref_cov[Xs, y], atol=1e-6), tag + ": mse wrong")
    result = copy.deepcopy(out)
    scribble(out)
    return kind, args, kwargs, result


def check_distribution(n_models):
    for it in range(n_models):
        p = int(R.integers(1, 6))
        M = R.normal(size=(p, p))
        mean, cov = R.normal(size=p), M @ M.T + 0.5 * np.eye(p)
        ref_mean, ref_cov = mean.copy(), cov.copy()
        dist = sempler.NormalDistribution(mean, cov)
        snap = public(dist)
        no_alias(dist, [mean, cov], "NormalDistribution constructor keeps the caller's arrays")
        mean += 100
        cov *= -3  # later changes of the caller's arrays
        check(public(dist) == snap, "NormalDistribution follows later changes of the caller's arrays")
        history = []
        for step in range(8):
            history.append(query_distribution(dist, ref_mean, ref_cov, "dist %d step %d" % (it, step)))
            check(public(dist) == snap, "dist %d: public attributes changed by %s" % (it, history[-1][0]))
        # results do not depend on earlier calls: replay on a fresh object, in reverse order
        fresh = sempler.NormalDistribution(ref_mean, ref_cov)
        for kind, args, kwargs, result in reversed(history):
            check(same(getattr(fresh, kind)(*args, **kwargs), result), "dist %d: %s depends on the call history" % (it, kind))
            check(same(getattr(dist, kind)(*args, **kwargs), result), "dist %d: %s not repeatable" % (it, kind))
        if it % 8 == 0:  # the law of the samples after the whole history
            check(law_ok(dist.sample(40000), ref_mean, ref_cov), "dist %d: samples do not follow the distribution" % it)
            check(law_ok(dist.sample(40000, random_state=it), ref_mean, ref_cov), "dist %d: seeded samples do not follow the distribution" % it)


# ------------------------------------------------------------------------ LGANM
def check_lganm(n_models):
    for it in range(n_models):
        p = int(R.integers(1, 7))
        W, means, variances = rand_dag(p), R.normal(size=p), R.uniform(0.5, 2, size=p)
        if it % 3 == 0:
            means, variances = R.integers(-2, 3, size=p), R.integers(1, 4, size=p)  # integer parameters
        ref = (W.copy(), means.copy(), variances.copy())
        model = sempler.LGANM(W, means, variances)
        snap = public(model)
        no_alias(list(vars(model).values()), [W, means, variances], "LGANM constructor keeps the caller's arrays")
        W[...] = 7
        means[...] = 9
        variances[...] = 11
        check(public(model) == snap, "LGANM follows later changes of the caller's arrays")
        obs_mean, obs_cov = reference_joint(ref[0], ref[1].astype(float), ref[2].astype(float))
        history = []
        for step in range(6):
            iv = rand_lganm_interventions(p)
            if R.random() < 0.3:
                iv[str(R.choice(list(iv)))] = None
            before = fp(iv)
            population = bool(R.random() < 0.5)
            kwargs = dict(iv, population=population, random_state=int(R.integers(0, 1000)))
            out = model.sample(int(R.integers(1, 5)), **kwargs)
            check(fp(iv) == before, "lganm %d: sample modified an intervention dict" % it)
            no_alias(out, list(vars(model).values()), "lganm %d: sample result aliases the model" % it)
            # reference interventional distribution by the path method
            Wi, mi, vi = ref[0].copy(), ref[1].astype(float), ref[2].astype(float)
            for t, s in (iv["shift_interventions"] or {}).items():
                s = s if isinstance(s, tuple) else (s, 0)
                mi[t] += s[0]
                vi[t] += s[1]
            for name in ("noise_interventions", "do_interventions"):
                for t, s in (iv[name] or {}).items():
                    mi[t], vi[t] = s if isinstance(s, tuple) else (s, 0)
                    if name[0] == "d":
                        Wi[:, t] = 0
            if population:
                m, c = reference_joint(Wi, mi, vi)
                check(np.allclose(out.mean, m, atol=1e-7) and np.allclose(out.covariance, c, atol=1e-7),
                      "lganm %d: interventional distribution wrong" % it)
                if p > 1:  # queries on the returned distribution, and scribbling on it
                    query_distribution(out, m, c, "lganm %d returned distribution" % it)
            history.append((kwargs, copy.deepcopy(out)))
            scribble(out)
            check(public(model) == snap, "lganm %d: public attributes changed by sample" % it)
            obs = model.sample(population=True)
            check(np.allclose(obs.mean, obs_mean, atol=1e-7) and np.allclose(obs.covariance, obs_cov, atol=1e-7),
                  "lganm %d: observational distribution changed after step %d" % (it, step))
            scribble(obs)
        fresh = sempler.LGANM(*ref)
        for kwargs, result in reversed(history):
            n = 1 if kwargs["population"] else len(result)
            check(same(fresh.sample(n, **kwargs), result), "lganm %d: sample depends on the call history" % it)
            check(same(model.sample(n, **kwargs), result), "lganm %d: sample not repeatable" % it)
        if it % 8 == 0:  # the observational law of the samples after the whole history
            check(law_ok(model.sample(40000), obs_mean, obs_cov), "lganm %d: observational samples changed" % it)


# -------------------------------------------------------------------------- ANM
def check_anm(n_models):
    for it in range(n_models):
        p = int(R.integers(2, 6))
        A = rand_dag(p, weights=False)
        coef = [R.uniform(0.5, 1.5, size=int(A[:, j].sum())) for j in range(p)]
        assignments = [None if len(c) == 0 else (lambda x, c=c: x @ c) for c in coef]
        noises = [noise.normal(float(R.normal()), float(R.uniform(0.5, 2))) for _ in range(p)]
        refA = A.copy()
        model = sempler.ANM(A, assignments, noises)
        snap = public(model)
        no_alias(list(vars(model).values()), [A], "ANM constructor keeps the caller's matrix")
        A[...] = 1
        assignments[0] = lambda x: 1e6
        noises[:] = [noise.zero()] * p
        check(public(model) == snap, "ANM follows later changes of the caller's objects")
        history = []
        for step in range(5):
            iv = {}
            for name in ("do_interventions", "shift_interventions", "noise_interventions"):
                iv[name] = {int(t): noise.normal(float(R.normal()), 1.0) for t in R.permutation(p)[: R.integers(0, p + 1)]}
            before = fp(iv)
            kwargs = dict(iv, random_state=int(R.integers(0, 1000)))
            out = model.sample(int(R.integers(1, 5)), **kwargs)
            check(fp(iv) == before, "anm %d: sample modified an intervention dict" % it)
            no_alias(out, list(vars(model).values()), "anm %d: sample result aliases the model" % it)
            history.append((kwargs, out.copy()))
            scribble(out)
            check(public(model) == snap, "anm %d: public attributes changed by sample" % it)
        fresh = sempler.ANM(refA, [None if len(c) == 0 else (lambda x, c=c: x @ c) for c in coef],
                            copy.deepcopy(model.noise_distributions))
        for kwargs, result in reversed(history):
            check(same(fresh.sample(len(result), **kwargs), result), "anm %d: sample depends on the call history" % it)
            check(same(model.sample(len(result), **kwargs), result), "anm %d: sample not repeatable" % it)
        # the observational law after the history, against the linear-Gaussian reference (generous thresholds)
        if it % 5 == 0:
            W = refA.astype(float)
            for j in range(p):
                W[refA[:, j] != 0, j] = coef[j]
            # the noise parameters live in closures: recover them by sampling each noise on its own
            X = model.sample(40000, random_state=it)
            T = np.linalg.inv(np.eye(p) - W.T)
            E = X @ (np.eye(p) - W)  # implied noise terms
            check(np.abs(np.corrcoef(E.T) - np.eye(p)).max() < 0.05, "anm %d: observational law changed (noise not independent)" % it)
            check(np.allclose(np.cov(X.T), T @ np.diag(E.var(axis=0)) @ T.T, rtol=0.1, atol=0.1), "anm %d: observational law wrong" % it)


# -------------------------------------------------------------- graph utilities
def check_utils(n_graphs):
    for it in range(n_graphs):
        p = int(R.integers(2, 7))
        G = rand_dag(p, weights=False)
        C = utils.dag_to_cpdag(G)
        i, j = (int(v) for v in R.permutation(p)[:2])
        S = set(int(v) for v in R.permutation(p)[: R.integers(0, p)])
        rest = [v for v in range(p) if v not in S]
        Aset, Bset = set(rest[:1]), set(rest[1:2])
        I = set(int(v) for v in R.permutation(p)[: R.integers(0, 3)])
        L = [rand_dag(p, weights=False) for _ in range(3)] + [G.copy()]
        data = [R.normal(size=(10, 3)), R.normal(size=(7, 3))]
        calls = [
            ("is_dag", (G,)), ("topological_ordering", (G,)), ("pa", (i, G)), ("ch", (i, G)), ("an", (i, G)),
            ("desc", (i, G)), ("ancestors", (i, G)), ("descendants", (i, G)), ("neighbors", (i, C)), ("adj", (i, C)),
            ("na", (i, j, C)), ("is_clique", (S, C)), ("vstructures", (G,)), ("skeleton", (G,)), ("moral_graph", (G,)),
            ("only_directed", (C,)), ("only_undirected", (C,)), ("dag_to_cpdag", (G,)), ("pdag_to_cpdag", (C,)),
            ("pdag_to_dag", (C,)), ("all_dags", (C,)), ("mec", (G,)), ("transitive_closure", (G,)),
            ("induced_subgraph", (S, C)), ("chain_component", (i, C)), ("semi_directed_paths", (i, j, C)),
            ("degrees", (C,)), ("directed_edges", (G,)), ("undirected_edges", (C,)), ("edge_weights", (G * 1.5,)),
            ("subsets", (S,)), ("sorted_tuple", (S,)), ("member", (L, G)), ("sort", ([2, 0, 1], [1, 2, 0])),
            ("dag_to_icpdag", (G, I)), ("imec", (G, I)), ("maximally_orient", (C,)),
            ("is_consistent_extension", (G, C)), ("has_consistent_extension", (C,)), ("sampling_matrix", (G * 0.5,)),
            ("matrix_block", (G, [0, 1], [1, 0])), ("delete", (G, np.arange(p) == i, 0)), ("split_data", (data, [0.5, 0.5])),
            ("order_edges", (G,)), ("cartesian", ([np.array([0, 1]), np.array([1, 2, 3])],)), ("nonzero", (G[0],)),
            ("combinations", (p, i)), ("all_but", (i, p)), ("allclose", (G, G)), ("argmax", (G,)), ("argmin", (G,)),
        ]
        if len(Aset) and len(Bset):
            calls.append(("separates", (S, Aset, Bset, C)))
        for name, args in calls:
            if not hasattr(utils, name):
                continue  # removed or renamed private-ish helpers are not the property's business
            pristine = copy.deepcopy(args)
            before = fp(args)
            out = getattr(utils, name)(*args)
            out = list(out) if name == "subsets" else out
            check(fp(args) == before, "utils.%s modified its arguments" % name)
            no_alias(out, list(args), "utils.%s result aliases an argument" % name)
            result = copy.deepcopy(out)
            scribble(out)
            check(fp(args) == before, "utils.%s: writing to the result changed the arguments" % name)
            again = getattr(utils, name)(*pristine)
            again = list(again) if name == "subsets" else again
            if name not in ("sort",):
                check(fp(pristine) == before, "utils.%s modified its arguments (2nd call)" % name)
            ok = same(again, result) if not isinstance(result, (bool, np.bool_)) else again == result
            check(ok, "utils.%s: result changed after writing to an earlier result" % name)


if __name__ == "__main__":
    big, small = 150, 40
    check_lganm(big if FOCUS == "LGANM" else small)
    check_distribution(big if FOCUS == "NormalDistribution" else small)
    check_anm(big if FOCUS == "ANM" else small)
    check_utils(big if FOCUS == "ANM" else small)
    finish()
