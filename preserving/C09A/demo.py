"""C09 demo: pdag_to_dag / has_consistent_extension / maximally_orient against brute force.

Run as PYTHONPATH=<checkout> /venv/bin/python demo_A.py ; exits 0 when the property holds.
"""
import itertools
import sys
import numpy as np
import sempler.utils as utils


def acyclic(D):
    """D: boolean matrix of directed edges."""
    D = D.copy()
    left = list(range(len(D)))
    while left:
        src = [i for i in left if not D[left, i].any()]
        if not src:
            return False
        left = [i for i in left if i not in src]
    return True


def vstructs(D, skel):
    """Colliders a -> c <- b with a, b non adjacent; D holds the directed edges only."""
    out = set()
    p = len(D)
    for c in range(p):
        pas = [a for a in range(p) if D[a, c]]
        for a, b in itertools.combinations(pas, 2):
            if not skel[a, b]:
                out.add((a, c, b))
    return out


def extensions(P):
    """All consistent extensions of the PDAG P, as a list of boolean matrices (brute force)."""
    nz = P != 0
    D = nz & ~nz.T
    U = nz & nz.T
    skel = nz | nz.T
    target = vstructs(D, skel)
    und = [(i, j) for i in range(len(P)) for j in range(i + 1, len(P)) if U[i, j]]
    exts = []
    for flips in itertools.product([False, True], repeat=len(und)):
        G = D.copy()
        for (i, j), f in zip(und, flips):
            if f:
                G[j, i] = True
            else:
                G[i, j] = True
        if acyclic(G) and vstructs(G, skel) == target:
            exts.append(G)
    return exts


def pdag_from_code(code, p):
    P = np.zeros((p, p), dtype=int)
    for (i, j) in itertools.combinations(range(p), 2):
        code, s = divmod(code, 4)
        if s == 1:
            P[i, j] = 1
        elif s == 2:
            P[j, i] = 1
        elif s == 3:
            P[i, j] = P[j, i] = 1
    return P


def check(P):
    nz = P != 0
    if not acyclic(nz & ~nz.T):
        return None  # outside the range of the property
    exts = extensions(P)
    keys = set(E.tobytes() for E in exts)
    P0 = P.copy()
    # has_consistent_extension
    assert bool(utils.has_consistent_extension(P.copy())) == (len(exts) > 0), P0
    # pdag_to_dag
    try:
        G = utils.pdag_to_dag(P.copy())
    except ValueError:
        assert len(exts) == 0, ("raised although an extension exists", P0)
        return False
    assert len(exts) > 0, ("returned although no extension exists", P0)
    G = np.asarray(G)
    assert G.shape == P.shape
    assert (np.asarray(G) != 0).tobytes() in keys, ("not a consistent extension", P0, G)
    # maximally_orient
    M = np.asarray(utils.maximally_orient(P.copy())) != 0
    stack = np.array(exts)
    always = stack.all(axis=0)  # i -> j in every extension
    expected = always | (nz | nz.T) & ~always & ~always.T
    assert (M == expected).all(), ("wrong maximal orientation", P0, M.astype(int), expected.astype(int))
    assert set(E.tobytes() for E in extensions(M.astype(int))) == keys, ("extension set changed", P0)
    return True


def main():
    rng = np.random.default_rng(9)
    counts = {True: 0, False: 0, None: 0}
    codes4 = range(4 ** 6)  # exhaustive at p = 4
    for c in codes4:
        counts[check(pdag_from_code(int(c), 4))] += 1
    for p, n in [(5, 250), (6, 80), (7, 25)]:
        for _ in range(n):
            # mix dense uniform codes with sparser graphs (more of them admit an extension)
            if rng.random() < 0.5:
                P = pdag_from_code(int(rng.integers(4 ** (p * (p - 1) // 2), dtype=np.uint64)), p)
            else:
                P = np.zeros((p, p), dtype=int)
                perm = rng.permutation(p)
                for (a, b) in itertools.combinations(range(p), 2):
                    u = rng.random()
                    i, j = perm[a], perm[b]
                    if u < 0.25:
                        P[i, j] = 1
                    elif u < 0.5:
                        P[i, j] = P[j, i] = 1
            counts[check(P)] += 1
    print("with extension: %d, without: %d, out of range (cyclic): %d" % (counts[True], counts[False], counts[None]))
    assert counts[True] > 100 and counts[False] > 100
    print("C09 holds")
    return 0


if __name__ == "__main__":
    sys.exit(main())
