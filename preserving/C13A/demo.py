"""C13 demo: seeded calls are bit-reproducible regardless of history; unseeded sampling is not degenerate.

Reference = digests computed in a FRESH interpreter with no history (subprocess, cases in plain order);
they are compared with digests obtained in this process in shuffled order with hostile history
(reseeding of the global generator, unseeded/seeded library calls, numpy draws) in between.
"""
import sys, os, json, hashlib, subprocess, random
import numpy as np
import sempler, sempler.generators as gen, sempler.utils as utils, sempler.noise as noise
from sempler import LGANM, ANM, NormalDistribution

SEEDS = [0, 1, 2, 7, 42, 12345]


def digest(obj):
    h = hashlib.sha256()

    def feed(o):
        if isinstance(o, (list, tuple)):
            h.update(b"[%d" % len(o))
            for x in o:
                feed(x)
        elif isinstance(o, np.ndarray):
            a = np.ascontiguousarray(o)
            h.update(str(a.shape).encode())
            h.update(np.asarray(a, dtype=float).tobytes())
        else:
            h.update(np.float64(o).tobytes())
    feed(obj)
    return h.hexdigest()


W5 = np.array([[0, 0.7, 0, 1.2, 0], [0, 0, 0.5, 0, 0], [0, 0, 0, -0.8, 0], [0, 0, 0, 0, 2.0], [0, 0, 0, 0, 0]])
A6 = np.zeros((6, 6), dtype=int)
for _e in [(0, 2), (1, 2), (1, 3), (2, 4), (3, 4), (0, 5)]:
    A6[_e] = 1
DATA = [np.arange(60.).reshape(20, 3), np.arange(33.).reshape(11, 3) ** 2]
SIG = np.array([[2, .5, .1], [.5, 1, .3], [.1, .3, 1.5]])


def anm_model():
    return ANM(A6, [None, None, lambda x: np.sin(x).sum(axis=1), lambda x: x[:, 0] ** 2, lambda x: np.tanh(x[:, 0]) + x[:, 1],
                lambda x: 2 * x[:, 0]],
               [noise.normal(0, 1), noise.uniform(-1, 1), noise.laplace(0, 1), noise.normal(1, 2), noise.zero(), noise.uniform()])


def cases():
    C = []
    for s in SEEDS:
        C += [
            ("lganm_init", s, lambda s=s: (lambda m: [m.means, m.variances])(LGANM(W5, (0, 2), (1, 3), random_state=s))),
            ("lganm_sample", s, lambda s=s: LGANM(W5, np.arange(5.), np.ones(5) + np.arange(5.)).sample(17, random_state=s)),
            ("lganm_sample_int", s, lambda s=s: LGANM(W5, np.arange(5.), np.ones(5)).sample(
                9, do_interventions={1: (1, 0)}, shift_interventions={3: (1, 2)}, random_state=s)),
            ("normal_sample", s, lambda s=s: NormalDistribution(np.array([1., -1, 0]), SIG).sample(13, random_state=s)),
            ("anm_sample", s, lambda s=s: anm_model().sample(11, random_state=s)),
            ("anm_sample_int", s, lambda s=s: anm_model().sample(
                8, do_interventions={2: noise.uniform(2, 3)}, shift_interventions={4: noise.normal(1, 1)}, random_state=s)),
            ("dag_avg_deg", s, lambda s=s: gen.dag_avg_deg(9, 2.5, 0.5, 2, random_state=s)),
            ("dag_avg_deg_ord", s, lambda s=s: list(gen.dag_avg_deg(7, 3, 1, 1, return_ordering=True, random_state=s))),
            ("dag_full", s, lambda s=s: list(gen.dag_full(6, 0.1, 3, return_ordering=True, random_state=s))),
            ("targets_rep", s, lambda s=s: [list(map(int, t)) for t in gen.intervention_targets(10, 5, (1, 3), random_state=s)]),
            ("targets_norep", s, lambda s=s: [list(map(int, t)) for t in
                                              gen.intervention_targets(12, 4, (0, 3), replace=False, random_state=s)]),
            ("targets_fixed", s, lambda s=s: [list(map(int, t)) for t in gen.intervention_targets(8, 6, 2, random_state=s)]),
            ("split_data", s, lambda s=s: utils.split_data(DATA, [0.5, 0.3, 0.2], random_state=s)),
            ("add_edges", s, lambda s=s: utils.add_edges((W5 != 0).astype(int), 3, random_state=s)),
            ("remove_edges", s, lambda s=s: utils.remove_edges((W5 != 0).astype(int), 2, random_state=s)),
        ]
    return C


def hostile(k, pr):
    """Arbitrary other sampling calls / reseeding between the seeded calls."""
    choice = pr.randrange(8)
    if choice == 0:
        np.random.seed(pr.randrange(2 ** 31))
    elif choice == 1:
        np.random.seed(0); np.random.normal(size=pr.randrange(1, 50))
    elif choice == 2:
        LGANM(W5, (0, 1), (1, 2)).sample(pr.randrange(1, 20))
    elif choice == 3:
        anm_model().sample(pr.randrange(1, 20)); NormalDistribution(np.zeros(3), SIG).sample(3)
    elif choice == 4:
        gen.dag_avg_deg(6, 2); gen.dag_full(4); gen.intervention_targets(6, 2, 2)
        utils.split_data(DATA, [0.5, 0.5], random_state=None)
    elif choice == 5:
        s = pr.choice(SEEDS)
        LGANM(W5, (0, 1), (1, 2), random_state=s).sample(5, random_state=s); anm_model().sample(4, random_state=s)
        gen.dag_avg_deg(5, 2, random_state=s); utils.add_edges((W5 != 0).astype(int), 1, random_state=s)
    elif choice == 6:
        np.random.default_rng(pr.randrange(100)).uniform(size=5); np.random.rand(3); np.random.seed(None)
    else:
        st = np.random.get_state(); np.random.uniform(size=7); np.random.set_state(st)


def main():
    if len(sys.argv) > 1 and sys.argv[1] == "--ref":
        print(json.dumps({"%s/%d" % (n, s): digest(f()) for n, s, f in cases()}))
        return 0
    ref = json.loads(subprocess.run([sys.executable, os.path.abspath(__file__), "--ref"], check=True,
                                    capture_output=True, text=True, env=os.environ).stdout.strip().splitlines()[-1])
    bad, checked = [], 0
    for rep in range(4):
        pr = random.Random(rep)
        C = cases()
        pr.shuffle(C)
        for k, (n, s, f) in enumerate(C):
            for _ in range(pr.randrange(0, 3)):
                hostile(k, pr)
            checked += 1
            if digest(f()) != ref["%s/%d" % (n, s)]:
                bad.append((n, s, rep))
    # Unseeded sampling must not be degenerate (also right after seeded calls / a reseed of the global generator)
    samplers = [lambda: LGANM(W5, np.zeros(5), np.ones(5)).sample(6), lambda: NormalDistribution(np.zeros(3), SIG).sample(6),
                lambda: anm_model().sample(6)]
    for i, smp in enumerate(samplers):
        for pre in (lambda: None, lambda: LGANM(W5, np.zeros(5), np.ones(5)).sample(3, random_state=0),
                    lambda: anm_model().sample(3, random_state=0)):
            pre()
            a, b, c = smp(), smp(), smp()
            checked += 1
            if np.array_equal(a, b) or np.array_equal(b, c) or np.array_equal(a, c):
                bad.append(("unseeded_degenerate", i, 0))
    print("checked %d, violations %d %s" % (checked, len(bad), bad[:10]))
    return 1 if bad else 0


if __name__ == "__main__":
    sys.exit(main())
