# Checks property C06 (population regression / MSE = least-squares solution)
# against an exact rational-arithmetic reference. Exits 0 when it holds.
import sys
from fractions import Fraction as F
import numpy as np
import sempler
from sempler import NormalDistribution

rng = np.random.default_rng(2026)
TOL = 1e-7
fails = []


def close(a, b, scale=1.0):
    return abs(float(a) - float(b)) <= TOL * max(1.0, abs(float(b)), scale)


def exact_fit(mean, cov, y, S):
    """Least-squares fit in exact arithmetic (Gauss-Jordan over Fractions)."""
    S = list(S)
    k = len(S)
    A = [[F(int(cov[i][j])) for j in S] + [F(int(cov[i][y]))] for i in S]
    for j in range(k):
        piv = next(i for i in range(j, k) if A[i][j] != 0)
        A[j], A[piv] = A[piv], A[j]
        A[j] = [v / A[j][j] for v in A[j]]
        for i in range(k):
            if i != j and A[i][j] != 0:
                A[i] = [a - A[i][j] * b for a, b in zip(A[i], A[j])]
    b = [A[i][k] for i in range(k)]
    c = F(int(mean[y])) - sum(bi * F(int(mean[s])) for bi, s in zip(b, S))
    mse = F(int(cov[y][y])) - sum(bi * F(int(cov[s][y])) for bi, s in zip(b, S))
    return b, c, mse


def forms(S):
    S = list(S)
    out = [S, np.array(S, dtype=int)]
    if len(S) == 1:
        out.append(S[0])
        out.append(np.int64(S[0]))
    if len(S) > 0 and S == list(range(S[0], S[0] + len(S))):
        out.append(range(S[0], S[0] + len(S)))
    return out


def check(ok, msg):
    if not ok:
        fails.append(msg)


# ---- Part 1: arbitrary means and positive definite covariances
n_cases = 0
for it in range(150):
    p = int(rng.integers(1, 7))
    G = rng.integers(-3, 4, size=(p, p + 1))
    cov = G @ G.T + np.eye(p, dtype=int)  # integer, positive definite
    mean = rng.integers(-5, 6, size=p)
    if it % 2:
        cov_in, mean_in = cov.astype(float), mean.astype(float)
    else:
        cov_in, mean_in = cov, mean
    for rep in range(3):
        y = int(rng.integers(p))
        S = sorted(rng.choice(p, size=int(rng.integers(0, p + 1)), replace=False).tolist())
        if rep == 2 and S:
            S = list(range(S[0], S[-1] + 1))
        b_ref, c_ref, mse_ref = exact_fit(mean, cov, y, S)
        check(mse_ref >= 0, "reference")
        scale = float(np.abs(cov).max())
        for Sf in forms(S):
            joint = NormalDistribution(mean_in, cov_in)
            n_cases += 1
            tag = "p=%d y=%d S=%r (%s)" % (p, y, S, type(Sf).__name__)
            coefs, c = joint.regress(y, Sf)
            coefs = np.asarray(coefs, dtype=float)
            check(coefs.shape == (p,), tag + " shape")
            outside = [j for j in range(p) if j not in S]
            check(all(coefs[j] == 0 for j in outside), tag + " nonzero outside S")
            check(all(close(coefs[s], bi) for s, bi in zip(S, b_ref)), tag + " coefs")
            check(close(c, c_ref, scale), tag + " intercept")
            # normal equations: residual has zero mean, zero covariance with S
            check(close(mean[y] - coefs @ mean - c, 0, scale), tag + " resid mean")
            for s in S:
                check(close(cov[y, s] - coefs @ cov[:, s], 0, scale), tag + " resid cov")
            m = joint.mse(y, Sf)
            check(close(m, mse_ref, scale), tag + " mse")
            check(float(m) >= -TOL * scale, tag + " mse negative")
            resid_var = cov[y, y] - 2 * coefs @ cov[:, y] + coefs @ cov @ coefs
            check(close(m, resid_var, scale), tag + " mse != resid var")
            # independent of the means
            joint.mean = rng.normal(size=p) * 10
            check(close(joint.mse(y, Sf), mse_ref, scale), tag + " mse depends on mean")
            joint2 = NormalDistribution(rng.normal(size=p) * 10, cov_in)
            check(close(joint2.mse(y, Sf), mse_ref, scale), tag + " mse depends on mean (2)")
            c2 = joint2.regress(y, Sf)[0]
            check(np.allclose(c2, coefs, rtol=TOL, atol=TOL), tag + " coefs depend on mean")
        # order invariance
        joint = NormalDistribution(mean_in, cov_in)
        if len(S) > 1:
            perm = list(rng.permutation(S))
            check(close(joint.mse(y, perm), mse_ref, scale), "order mse %r" % perm)
            cp, ip = joint.regress(y, np.array(perm))
            check(all(close(cp[s], bi) for s, bi in zip(S, b_ref)), "order coefs %r" % perm)
            check(close(ip, c_ref, scale), "order intercept %r" % perm)
        # non-increasing when regressors are added
        rest = [j for j in range(p) if j not in S]
        cur, prev = list(S), float(joint.mse(y, S))
        for j in rng.permutation(rest):
            cur.append(int(j))
            nxt = float(joint.mse(y, cur))
            check(nxt <= prev + TOL * scale, "mse increased adding %d to %r" % (j, cur[:-1]))
            check(close(nxt, exact_fit(mean, cov, y, cur)[2], scale), "mse chain")
            prev = nxt
        # containing y: perfect fit
        if y in S:
            check(close(joint.mse(y, S), 0, scale), "mse with y in S")
            cy, iy = joint.regress(y, S)
            check(close(cy[y], 1) and close(iy, 0, scale), "regress with y in S")

# ---- Part 2: LGANMs, observational and under interventions
n_sem = 0
for it in range(150):
    p = int(rng.integers(2, 9))
    order = rng.permutation(p)
    W = np.zeros((p, p))
    for a in range(p):
        for b in range(a + 1, p):
            if rng.random() < 0.45:
                W[order[a], order[b]] = rng.choice([-1, 1]) * rng.uniform(0.5, 2)
    means = rng.uniform(-2, 2, size=p)
    variances = rng.uniform(0.3, 2, size=p)
    sem = sempler.LGANM(W, means, variances)
    settings = [dict()]
    t = [int(v) for v in rng.permutation(p)]
    settings.append(dict(do_interventions={t[0]: (float(rng.normal()), float(rng.uniform(0.5, 2)))}))
    settings.append(dict(shift_interventions={t[0]: (float(rng.normal()), float(rng.uniform(0, 2)))},
                         noise_interventions={t[1]: (float(rng.normal()), float(rng.uniform(0.5, 2)))}))
    for kw in settings:
        Wt, mt, vt = W.copy(), means.copy(), variances.copy()
        for k, (m_, v_) in kw.get('shift_interventions', {}).items():
            mt[k] += m_
            vt[k] += v_
        for k, (m_, v_) in kw.get('noise_interventions', {}).items():
            mt[k], vt[k] = m_, v_
        for k, (m_, v_) in kw.get('do_interventions', {}).items():
            mt[k], vt[k] = m_, v_
            Wt[:, k] = 0
        dist = sem.sample(population=True, **kw)
        for i in range(p):
            pa = np.where(Wt[:, i] != 0)[0]
            for Sf in (pa, [int(v) for v in pa], [int(v) for v in pa[::-1]]):
                n_sem += 1
                coefs, c = dist.regress(i, Sf)
                tag = "sem %d var %d pa %r %r" % (it, i, list(pa), sorted(kw))
                check(np.allclose(coefs, Wt[:, i], rtol=1e-6, atol=1e-6), tag + " weights")
                check(abs(float(c) - mt[i]) < 1e-6, tag + " intercept")
                check(abs(float(dist.mse(i, Sf)) - vt[i]) < 1e-6, tag + " mse")

print("checked %d regressions on general normals, %d on LGANMs; %d failures" % (n_cases, n_sem, len(fails)))
for f in fails[:10]:
    print("FAIL:", f)
sys.exit(1 if fails else 0)
