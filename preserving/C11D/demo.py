"""C11: dag_avg_deg / dag_full return valid weighted DAGs with a valid, random ordering.

Independent reference: own Kahn peeling for acyclicity, plain loops for everything else,
large-sample frequencies (generous thresholds) for the statements about the law.
"""
import itertools
import sys
import numpy as np
from sempler.generators import dag_avg_deg, dag_full

FAIL = []


def check(cond, msg):
    if not cond:
        FAIL.append(msg)


def acyclic(adj):
    p = len(adj)
    alive = set(range(p))
    while alive:
        sources = [j for j in alive if not any(adj[i][j] for i in alive)]
        if not sources:
            return False
        alive -= set(sources)
    return True


def structural(W, p, lo, hi, tag):
    W = np.asarray(W)
    check(W.shape == (p, p), tag + " shape %s" % (W.shape,))
    if W.shape != (p, p):
        return None
    vals = [[float(W[i, j]) for j in range(p)] for i in range(p)]
    adj = [[vals[i][j] != 0 for j in range(p)] for i in range(p)]
    check(all(vals[i][i] == 0 for i in range(p)), tag + " diagonal")
    check(all(np.isfinite(v) for r in vals for v in r), tag + " finite")
    check(all(lo <= v <= hi for r in vals for v in r if v != 0), tag + " weight range")
    check(acyclic(adj), tag + " acyclic")
    return adj


def ordering_ok(adj, ordering, p, tag):
    o = [int(x) for x in np.asarray(ordering).ravel()]
    check(len(o) == p and sorted(o) == list(range(p)), tag + " ordering not a permutation: %s" % o)
    if sorted(o) != list(range(p)):
        return None
    pos = {v: i for i, v in enumerate(o)}
    check(all(pos[i] < pos[j] for i in range(p) for j in range(p) if adj[i][j]), tag + " ordering not topological")
    return o


RANGES = [(1, 1), (0.5, 2), (-3, -1), (-2.5, -2.5), (-1, 1), (0, 1), (1e-3, 1e3), (-7.0, 0.0)]
count = 0

# ---- structure, range, ordering: dag_avg_deg
for p in [2, 3, 4, 5, 8, 13]:
    for k in sorted({0, 0.5, 1, (p - 1) / 2, p - 1.5 if p > 2 else 1, p - 1}):
        for (lo, hi), seed in zip(itertools.cycle(RANGES), range(10)):
            tag = "avg_deg(p=%d,k=%s,w=[%s,%s],seed=%d)" % (p, k, lo, hi, seed)
            W = dag_avg_deg(p, k, lo, hi, random_state=seed)
            check(not isinstance(W, tuple), tag + " returned a tuple without return_ordering")
            structural(W, p, lo, hi, tag)
            out = dag_avg_deg(p, k, lo, hi, return_ordering=True, random_state=seed)
            check(isinstance(out, tuple) and len(out) == 2, tag + " no (W, ordering) pair")
            adj = structural(out[0], p, lo, hi, tag + "+ord")
            if adj is not None:
                ordering_ok(adj, out[1], p, tag)
                n_edges = sum(map(sum, adj))
                if k == 0:
                    check(n_edges == 0, tag + " edges for k=0")
                if k == p - 1 and not (lo <= 0 <= hi):
                    check(n_edges == p * (p - 1) // 2, tag + " not complete for k=p-1")
            count += 2
# unseeded calls
for p in [2, 5, 9]:
    W, o = dag_avg_deg(p, 1, -2, -1, return_ordering=True)
    adj = structural(W, p, -2, -1, "avg_deg unseeded p=%d" % p)
    if adj is not None:
        ordering_ok(adj, o, p, "avg_deg unseeded p=%d" % p)

# ---- structure, completeness, ordering: dag_full
for p in range(0, 9):
    for (lo, hi), seed in zip(itertools.cycle(RANGES), range(12)):
        tag = "full(p=%d,w=[%s,%s],seed=%d)" % (p, lo, hi, seed)
        W = dag_full(p, lo, hi, random_state=seed)
        check(not isinstance(W, tuple), tag + " returned a tuple without return_ordering")
        structural(W, p, lo, hi, tag)
        out = dag_full(p, lo, hi, return_ordering=True, random_state=seed)
        check(isinstance(out, tuple) and len(out) == 2, tag + " no (W, ordering) pair")
        adj = structural(out[0], p, lo, hi, tag + "+ord")
        if adj is not None:
            ordering_ok(adj, out[1], p, tag)
            if not (lo <= 0 <= hi):
                check(all(adj[i][j] != adj[j][i] for i in range(p) for j in range(i)), tag + " not complete")
        count += 2
W = dag_full(5)
check(structural(W, 5, 1, 1, "full default") is not None and float(np.asarray(W).sum()) == 10, "full default weights")

# ---- the ordering is random: every node takes every position
N = 600
for name, gen in [("avg_deg", lambda s: dag_avg_deg(4, 1.5, 1, 2, return_ordering=True, random_state=s)),
                  ("full", lambda s: dag_full(4, -2, -1, return_ordering=True, random_state=s))]:
    seen = np.zeros((4, 4), dtype=int)
    for s in range(N):
        W, o = gen(s)
        adj = structural(W, 4, -2, 2, name + " seed %d" % s)
        o = ordering_ok(adj, o, 4, name + " seed %d" % s) if adj is not None else None
        if o is not None:
            for position, node in enumerate(o):
                seen[node, position] += 1
    check(seen.min() >= N / 4 * 0.6 and seen.max() <= N / 4 * 1.4, name + " ordering not uniform enough:\n%s" % seen)
    count += N

# ---- law of the edges of dag_avg_deg: independent with probability k/(p-1)
N = 3000
for p, k in [(5, 1), (6, 2.5), (4, 3)]:
    q = k / (p - 1)
    pairs = [(i, j) for i in range(p) for j in range(i + 1, p)]
    X = np.zeros((N, len(pairs)))
    for s in range(N):
        W = np.asarray(dag_avg_deg(p, k, 0.5, 1.5, random_state=10000 + s))
        for c, (i, j) in enumerate(pairs):
            X[s, c] = (W[i, j] != 0) or (W[j, i] != 0)
    se = max(np.sqrt(q * (1 - q) / N), 1e-12)
    freq = X.mean(axis=0)
    check(np.all(np.abs(freq - q) <= 5 * se + 1e-12), "avg_deg(p=%d,k=%s) edge frequencies %s vs %.3f" % (p, k, freq.round(3), q))
    deg = 2 * X.sum(axis=1).mean() / p
    check(abs(deg - k) <= 0.1, "avg_deg(p=%d,k=%s) mean degree %.3f" % (p, k, deg))
    if 0 < q < 1:
        C = np.corrcoef(X.T) - np.eye(len(pairs))
        check(np.abs(C).max() <= 5 / np.sqrt(N), "avg_deg(p=%d,k=%s) edges correlated: %.3f" % (p, k, np.abs(C).max()))
        nedges = X.sum(axis=1)
        var = len(pairs) * q * (1 - q)
        check(abs(nedges.var() - var) <= 0.2 * var, "avg_deg(p=%d,k=%s) edge-count variance %.3f vs %.3f" % (p, k, nedges.var(), var))
    count += N

if FAIL:
    print("C11 VIOLATED (%d problems)" % len(FAIL))
    for f in FAIL[:15]:
        print("  -", f)
    sys.exit(1)
print("C11 holds on %d generated graphs" % count)
sys.exit(0)
