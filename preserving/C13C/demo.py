"""C13: seeded calls are bit-reproducible regardless of history; unseeded sampling is not degenerate.

Reference: every seeded case is evaluated in a fresh interpreter without any history (subprocess, pickled),
and again here in shuffled order, interleaved with arbitrary numpy / library sampling and reseeding of the
global generator. The two must agree bit for bit (twice, with different histories).
"""
import os
import pickle
import subprocess
import sys
import tempfile
import numpy as np
import sempler
import sempler.generators as gen
import sempler.noise as noise
import sempler.utils as utils
from sempler import LGANM, ANM, NormalDistribution

FOCUS = "A"
SEEDS = [0, 1, 2, 7, 42, 12345, 2**31 - 1]

W5 = np.array([[0, 0, 0, 0.1, 0], [0, 0, 2.1, 0, 0], [0, 0, 0, 3.2, 0], [0, 0, 0, 0, 5.0], [0, 0, 0, 0, 0]])
A5 = (W5 != 0).astype(int)
COV = np.array([[2.0, 0.5, 0.1], [0.5, 1.0, 0.3], [0.1, 0.3, 1.5]])
DATA = [np.arange(40.).reshape(20, 2), np.arange(33.).reshape(11, 3) ** 2]


def make_anm():
    dists = [noise.normal(0, 1), noise.uniform(-1, 2), noise.laplace(0.5, 2), noise.normal(1, 3), noise.zero()]
    funs = [None, None, np.sin, lambda x: np.exp(-x[:, 0] ** 2) + 2 * x[:, 1], lambda x: 2 * x]
    return ANM(A5, funs, dists)


def canon(x):
    """Nested plain representation with exact bytes of every array."""
    if isinstance(x, np.ndarray):
        a = np.ascontiguousarray(x)
        kind = 'f' if a.dtype.kind == 'f' else 'i'
        a = a.astype(float if kind == 'f' else np.int64)
        return ('arr', a.shape, kind, a.tobytes())
    if isinstance(x, (list, tuple)):
        return ('seq', tuple(canon(e) for e in x))
    if isinstance(x, (bool, np.bool_, int, np.integer)):
        return ('i', int(x))
    if isinstance(x, (float, np.floating)):
        return ('f', float(x).hex())
    raise TypeError(type(x))


def cases():
    """name -> thunk; all seeded."""
    out = {}
    for s in SEEDS:
        for p, k in [(2, 1), (5, 2), (8, 2.5), (12, 3), (6, 5)]:
            out['avg', s, p, k] = lambda s=s, p=p, k=k: gen.dag_avg_deg(p, k, 0.5, 2, random_state=s)
            out['avgo', s, p, k] = lambda s=s, p=p, k=k: gen.dag_avg_deg(p, k, return_ordering=True, random_state=s)
        for p in [1, 2, 4, 9]:
            out['full', s, p] = lambda s=s, p=p: gen.dag_full(p, 1, 3, return_ordering=True, random_state=s)
        for args, kw in [((10, 5, 1), {}), ((10, 5, 1), {'replace': False}), ((10, 5, (1, 3)), {}),
                         ((10, 5, (1, 2)), {'replace': False}), ((6, 4, (0, 0)), {}), ((7, 3, 7), {})]:
            out['targets', s, args, tuple(kw)] = lambda s=s, a=args, kw=kw: gen.intervention_targets(*a, random_state=s, **kw)

        def lg(s=s):
            m = LGANM(W5, (0, 1), (1, 2), random_state=s)
            return [m.W, m.means, m.variances]
        out['lganm', s] = lg
        fixed = LGANM(W5, np.arange(5.), np.array([1., 2, .5, 1, 3]))
        out['lgs', s] = lambda s=s: fixed.sample(17, random_state=s)
        out['lgi', s] = lambda s=s: fixed.sample(9, do_interventions={2: (99, 0)}, shift_interventions={1: (1, 2)},
                                                 noise_interventions={0: (0, 4)}, random_state=s)
        nd = NormalDistribution(np.array([1., -2, 0]), COV)
        out['nd', s] = lambda s=s: nd.sample(13, random_state=s)
        out['nd1', s] = lambda s=s: NormalDistribution(np.array([3.]), np.array([[2.]])).sample(5, random_state=s)
        anm = make_anm()
        out['anm', s] = lambda s=s: anm.sample(21, random_state=s)
        out['anmi', s] = lambda s=s: anm.sample(8, do_interventions={2: noise.uniform(3, 4)},
                                                shift_interventions={3: noise.laplace()},
                                                noise_interventions={0: noise.normal(5, 2)}, random_state=s)
        out['split', s] = lambda s=s: utils.split_data(DATA, [0.3, 0.5, 0.2], random_state=s)
        G = (gen.dag_avg_deg(8, 3, random_state=3) != 0).astype(int)
        for m in [0, 1, 3]:
            out['add', s, m] = lambda s=s, m=m: utils.add_edges(G, m, random_state=s)
            out['rem', s, m] = lambda s=s, m=m: utils.remove_edges(G, m, random_state=s)
    return out


def history(h):
    """Arbitrary other sampling calls and reseeding."""
    c = h.integers(0, 9)
    if c == 0:
        np.random.seed(int(h.integers(0, 5)))
    elif c == 1:
        np.random.normal(size=int(h.integers(1, 50)))
    elif c == 2:
        LGANM(W5, (0, 1), (1, 2)).sample(int(h.integers(1, 9)))
    elif c == 3:
        make_anm().sample(int(h.integers(1, 9)))
    elif c == 4:
        NormalDistribution(np.zeros(3), COV).sample(3, random_state=int(h.integers(0, 3)))
    elif c == 5:
        gen.dag_avg_deg(6, 2), gen.dag_full(3), gen.intervention_targets(5, 2, 1)
    elif c == 6:
        make_anm().sample(4, random_state=int(h.integers(0, 3)))
    elif c == 7:
        np.random.default_rng(int(h.integers(0, 3))).random(5), np.random.seed(0)


def main():
    cs = cases()
    keys = list(cs)
    if len(sys.argv) > 1 and sys.argv[1] == '--clean':
        with open(sys.argv[2], 'wb') as f:
            pickle.dump({k: canon(cs[k]()) for k in keys}, f)
        return 0
    with tempfile.TemporaryDirectory() as tmp:
        path = os.path.join(tmp, 'ref.pkl')
        subprocess.run([sys.executable, os.path.abspath(__file__), '--clean', path], check=True,
                       stdout=subprocess.DEVNULL, env=os.environ)
        with open(path, 'rb') as f:
            ref = pickle.load(f)
    bad = []
    for rep in range(2):
        h = np.random.default_rng(100 + rep)
        for i in h.permutation(len(keys)):
            for _ in range(int(h.integers(0, 4))):
                history(h)
            if canon(cs[keys[i]]()) != ref[keys[i]]:
                bad.append(keys[i])
    # Same call immediately repeated, and after reseeding the global generator with the same seed
    for k in keys:
        np.random.seed(k[1])
        a = canon(cs[k]())
        if a != canon(cs[k]()) or a != ref[k]:
            bad.append(k)
    # Unseeded sampling is not degenerate (also right after seeded calls / reseeding)
    fixed, anm, nd = LGANM(W5, (0, 1), (1, 2), random_state=0), make_anm(), NormalDistribution(np.zeros(3), COV)
    for name, f in [('lganm', lambda: fixed.sample(6)), ('anm', lambda: anm.sample(6)), ('nd', lambda: nd.sample(6))]:
        draws = [f() for _ in range(4)]
        f_seeded = {'lganm': lambda: fixed.sample(6, random_state=0), 'anm': lambda: anm.sample(6, random_state=0),
                    'nd': lambda: nd.sample(6, random_state=0)}[name]
        f_seeded()
        draws.append(f())
        if len({d.tobytes() for d in draws}) != len(draws):
            bad.append(('degenerate', name))
    print("demo_%s: %d seeded cases x 3 histories, %d violations" % (FOCUS, len(keys), len(bad)))
    for b in bad[:10]:
        print("  violated:", b)
    return 1 if bad else 0


if __name__ == '__main__':
    sys.exit(main())
