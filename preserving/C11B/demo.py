"""C11: dag_avg_deg / dag_full return valid random DAGs with a valid random ordering.

Run as  PYTHONPATH=<checkout> /venv/bin/python demo_B.py ; exits 0 when the property holds.
The reference checks are independent of sempler (Kahn's algorithm, explicit loops, frequencies).
"""
import sys
import itertools
import numpy as np
from sempler.generators import dag_avg_deg, dag_full

failures = []


def fail(msg):
    failures.append(msg)
    if len(failures) < 20:
        print("FAIL:", msg)


def kahn_is_dag(adj):
    """Independent acyclicity check: repeatedly remove source nodes."""
    p = len(adj)
    indeg = [sum(1 for i in range(p) if adj[i][j]) for j in range(p)]
    alive = [True] * p
    removed = 0
    queue = [j for j in range(p) if indeg[j] == 0]
    while queue:
        i = queue.pop()
        alive[i] = False
        removed += 1
        for j in range(p):
            if adj[i][j] and alive[j]:
                indeg[j] -= 1
                if indeg[j] == 0:
                    queue.append(j)
    return removed == p


def check_graph(W, p, w_min, w_max, tag):
    W = np.asarray(W)
    if W.shape != (p, p):
        fail("%s: shape %s" % (tag, W.shape,))
        return None
    adj = [[bool(W[i, j] != 0) for j in range(p)] for i in range(p)]
    for i in range(p):
        if W[i, i] != 0:
            fail("%s: non-zero diagonal" % tag)
    for i in range(p):
        for j in range(p):
            if adj[i][j] and not (w_min <= W[i, j] <= w_max):
                fail("%s: weight %r outside [%r, %r]" % (tag, W[i, j], w_min, w_max))
    if not kahn_is_dag(adj):
        fail("%s: not acyclic" % tag)
    return adj


def check_ordering(adj, ordering, p, tag):
    order = [int(x) for x in ordering]
    if sorted(order) != list(range(p)):
        fail("%s: ordering %r is not a permutation" % (tag, order))
        return None
    pos = {node: t for t, node in enumerate(order)}
    for i in range(p):
        for j in range(p):
            if adj[i][j] and not pos[i] < pos[j]:
                fail("%s: edge %d->%d against ordering" % (tag, i, j))
    return order


RANGES = [(1, 1), (1, 2), (0.5, 3.5), (-2, -1), (-3, -3), (-1, 1), (0, 1), (-2, 0), (1e-3, 1e3), (-1e6, -1e-6)]

# ---- structural checks on a few hundred inputs -------------------------------------
n_inputs = 0
seed = 0
for p in [2, 3, 4, 5, 7, 10, 16, 25]:
    ks = sorted(set([0, 1, p - 1, (p - 1) / 2, min(2.5, p - 1), 0.3]))
    for k in ks:
        for (w_min, w_max) in RANGES[: 6 if p > 7 else len(RANGES)]:
            seed += 1
            n_inputs += 1
            tag = "dag_avg_deg(p=%d,k=%r,w=[%r,%r],seed=%d)" % (p, k, w_min, w_max, seed)
            W, ordering = dag_avg_deg(p, k, w_min, w_max, return_ordering=True, random_state=seed)
            adj = check_graph(W, p, w_min, w_max, tag)
            if adj is not None:
                check_ordering(adj, ordering, p, tag)
                n_edges = sum(map(sum, adj))
                if k == 0 and n_edges != 0:
                    fail("%s: k=0 but %d edges" % (tag, n_edges))
                if k == p - 1 and not (w_min <= 0 <= w_max) and n_edges != p * (p - 1) // 2:
                    fail("%s: k=p-1 but graph not complete" % tag)
            W2 = dag_avg_deg(p, k, w_min, w_max, random_state=seed + 10000)
            if isinstance(W2, tuple):
                fail("%s: tuple returned without return_ordering" % tag)
            else:
                check_graph(W2, p, w_min, w_max, tag + "/no-ordering")

for p in list(range(0, 13)) + [20, 31]:
    for (w_min, w_max) in RANGES:
        seed += 1
        n_inputs += 1
        tag = "dag_full(p=%d,w=[%r,%r],seed=%d)" % (p, w_min, w_max, seed)
        W, ordering = dag_full(p, w_min, w_max, return_ordering=True, random_state=seed)
        adj = check_graph(W, p, w_min, w_max, tag)
        if adj is not None:
            check_ordering(adj, ordering, p, tag)
            if not (w_min <= 0 <= w_max):
                for i, j in itertools.combinations(range(p), 2):
                    if not (adj[i][j] or adj[j][i]):
                        fail("%s: pair %d,%d not adjacent" % (tag, i, j))
        W2 = dag_full(p, w_min, w_max, random_state=seed + 10000)
        if isinstance(W2, tuple):
            fail("%s: tuple returned without return_ordering" % tag)
        else:
            check_graph(W2, p, w_min, w_max, tag + "/no-ordering")

# ---- the ordering is random: every node takes every position ----------------------
for name, gen in [("dag_avg_deg", lambda p, s: dag_avg_deg(p, 2, 1, 2, return_ordering=True, random_state=s)),
                  ("dag_full", lambda p, s: dag_full(p, -2, -1, return_ordering=True, random_state=s))]:
    for p in [2, 4, 6]:
        S = 600
        counts = np.zeros((p, p), dtype=int)  # counts[node, position]
        for s in range(S):
            _, ordering = gen(p, s)
            for t, node in enumerate(ordering):
                counts[int(node), t] += 1
        if (counts == 0).any():
            fail("%s p=%d: some node never takes some position" % (name, p))
        # generous uniformity check (expected S/p each, > 6 sigma)
        sd = np.sqrt(S * (1 / p) * (1 - 1 / p))
        if (abs(counts - S / p) > 6 * sd).any():
            fail("%s p=%d: positions far from uniform: %r" % (name, p, counts.tolist()))

# ---- dag_avg_deg: each possible edge independently with probability k/(p-1) ---------
for p, k in [(6, 2), (5, 1), (8, 3.5), (4, 3), (7, 0)]:
    prob = k / (p - 1)
    S = 2000
    pairs = list(itertools.combinations(range(p), 2))
    X = np.zeros((S, len(pairs)))
    for s in range(S):
        W = dag_avg_deg(p, k, 1, 2, random_state=1000 + s)
        for c, (i, j) in enumerate(pairs):
            X[s, c] = float(W[i, j] != 0 or W[j, i] != 0)
    tag = "dag_avg_deg(p=%d,k=%r)" % (p, k)
    # expected degree k
    avg_deg = X.sum() * 2 / p / S
    sd_deg = 2 / p * np.sqrt(len(pairs) * prob * (1 - prob) / S)
    if abs(avg_deg - k) > 6 * sd_deg + 1e-12:
        fail("%s: average degree %0.4f" % (tag, avg_deg))
    # each pair with frequency prob
    sd = np.sqrt(prob * (1 - prob) / S)
    freq = X.mean(axis=0)
    if (abs(freq - prob) > 6 * sd + 1e-12).any():
        fail("%s: pair frequencies %r vs %0.3f" % (tag, np.round(freq, 3).tolist(), prob))
    # pairwise independence: joint frequency of two different pairs is prob^2
    joint = X.T @ X / S
    sd2 = np.sqrt(prob ** 2 * (1 - prob ** 2) / S)
    off = ~np.eye(len(pairs), dtype=bool)
    if (abs(joint[off] - prob ** 2) > 6 * sd2 + 1e-12).any():
        fail("%s: joint frequencies deviate from independence" % tag)
    # the number of edges is Binomial(N, prob): check its variance loosely
    if 0 < prob < 1:
        var = X.sum(axis=1).var()
        expected = len(pairs) * prob * (1 - prob)
        if not (0.75 * expected < var < 1.3 * expected):
            fail("%s: variance of edge count %0.3f vs %0.3f" % (tag, var, expected))

# ---- same seed -> same graph, different seeds -> different graphs -------------------
a = dag_avg_deg(12, 3, 0.5, 2, random_state=7)
b = dag_avg_deg(12, 3, 0.5, 2, random_state=7)
c = dag_avg_deg(12, 3, 0.5, 2, random_state=8)
if not np.array_equal(a, b) or np.array_equal(a, c):
    fail("dag_avg_deg: seed handling")
a = dag_full(12, 0.5, 2, random_state=7)
b = dag_full(12, 0.5, 2, random_state=7)
c = dag_full(12, 0.5, 2, random_state=8)
if not np.array_equal(a, b) or np.array_equal(a, c):
    fail("dag_full: seed handling")

print("checked %d inputs, %d failures" % (n_inputs, len(failures)))
sys.exit(1 if failures else 0)
