def activate():
    pass


def deactivate():
    pass
