"""Minimal stand-in for rpy2: just enough for the bundled ``drf`` wrapper.

The "R forest" is a deterministic k-nearest-neighbour model: the weights
of a new point are uniform over the K nearest training rows (Euclidean
distance, ties broken by row index).
"""
from . import robjects  # noqa: F401
