"""Checks property C10 (I-MEC / I-CPDAG exact) against a brute-force reference.
Run as: PYTHONPATH=<checkout> /venv/bin/python demo_X.py ; exits 0 iff the property holds."""
import itertools
import sys
import numpy as np
import sempler.utils as utils

rng = np.random.default_rng(2024)


def pat(M):
    """Non-zero pattern of anything matrix-like as a tuple of tuples of 0/1."""
    M = np.asarray(M)
    return tuple(tuple(int(x != 0) for x in row) for row in M)


def acyclic(B):
    p = len(B)
    R = np.array(B, dtype=bool)
    for _ in range(p):
        R = R | ((R.astype(int) @ R.astype(int)) > 0)
    return not R.diagonal().any()


def vstructs(B):
    p = len(B)
    out = set()
    for c in range(p):
        ps = [i for i in range(p) if B[i][c]]
        for i, j in itertools.combinations(ps, 2):
            if not B[i][j] and not B[j][i]:
                out.add((i, c, j))
    return out


def ref_mec(B):
    """All acyclic orientations of the skeleton of B with the same v-structures."""
    p = len(B)
    edges = [(i, j) for i in range(p) for j in range(i + 1, p) if B[i][j] or B[j][i]]
    vs = vstructs(B)
    members = []
    for flips in itertools.product([0, 1], repeat=len(edges)):
        C = [[0] * p for _ in range(p)]
        for (i, j), f in zip(edges, flips):
            if f:
                C[j][i] = 1
            else:
                C[i][j] = 1
        if acyclic(C) and vstructs(C) == vs:
            members.append(tuple(tuple(r) for r in C))
    return members


def ref_imec(B, I, mec_B):
    return [C for C in mec_B if all(all(C[k][t] == B[k][t] for k in range(len(B))) for t in I)]


def ref_essential(members):
    S = np.array(members).sum(axis=0)
    return pat(S)  # i->j in some member => entry set; both directions => undirected


def random_dag(p, dens):
    perm = rng.permutation(p)
    U = np.triu(rng.uniform(size=(p, p)) < dens, k=1).astype(int)
    A = np.zeros((p, p), dtype=int)
    A[np.ix_(perm, perm)] = U
    return A


def presentations(B):
    B = np.array(B)
    W = B * rng.uniform(0.5, 2, size=B.shape) * rng.choice([-1, 1], size=B.shape)
    return [B.astype(int), B.astype(float), W, B.astype(bool)]


def check(cond, *msg):
    if not cond:
        print("FAIL:", *msg)
        sys.exit(1)


def check_pair(B, I, mec_B, k):
    p = len(B)
    A = presentations(B)[k % 4]
    ref = ref_imec(B, I, mec_B)
    for cc in ([True, False] if k % 3 == 0 or utils.is_chain_graph(np.array(B)) else [True]):
        got = [pat(G) for G in utils.imec(A, set(I), check_chain=cc)]
        check(len(got) == len(set(got)), "duplicates", B, I)
        check(set(got) == set(ref), "imec differs", B, I, cc)
    # results must not depend on the call history: spoil a returned array and the input, ask again
    A2 = np.array(A, copy=True)
    r1 = utils.imec(A2, set(I))
    r1[...] = 1
    if A2.dtype != bool:
        A2 *= 3
    check(set(pat(G) for G in utils.imec(A2, set(I))) == set(ref), "history dependence", B, I)
    ess = ref_essential(ref)
    check(pat(utils.dag_to_icpdag(A, set(I))) == ess, "icpdag differs", B, I)
    # same from whichever member
    other = np.array(ref[int(rng.integers(len(ref)))])
    check(pat(utils.dag_to_icpdag(presentations(other)[(k + 1) % 4], set(I))) == ess, "member dependence", B, I)
    return ref, ess


def all_dags_p(p):
    pairs = [(i, j) for i in range(p) for j in range(i + 1, p)]
    out = []
    for choice in itertools.product([0, 1, 2], repeat=len(pairs)):
        C = [[0] * p for _ in range(p)]
        for (i, j), c in zip(pairs, choice):
            if c == 1:
                C[i][j] = 1
            elif c == 2:
                C[j][i] = 1
        if acyclic(C):
            out.append(tuple(tuple(r) for r in C))
    return out


n_pairs = 0
k = 0
# exhaustive p <= 3, sampled p = 4, 5, 6, chains to p = 8
graphs = []
for p in (1, 2, 3):
    graphs += all_dags_p(p)
d4 = all_dags_p(4)
graphs += [d4[i] for i in rng.choice(len(d4), size=40, replace=False)]
graphs += [pat(random_dag(5, d)) for d in (0.3, 0.5, 0.7, 0.9) for _ in range(4)]
graphs += [pat(random_dag(6, d)) for d in (0.3, 0.5) for _ in range(3)]
graphs += [pat(utils.chain_graph(p)) for p in range(2, 9)]

for B in graphs:
    p = len(B)
    mec_B = ref_mec(B)
    subsets = [S for r in range(p + 1) for S in itertools.combinations(range(p), r)]
    if len(subsets) > 16:
        idx = rng.choice(len(subsets), size=10, replace=False)
        subsets = [(), tuple(range(p))] + [subsets[i] for i in idx]
    sizes = {}
    for I in subsets:
        k += 1
        n_pairs += 1
        ref, ess = check_pair(B, I, mec_B, k)
        sizes[I] = set(ref)
        if len(I) == 0:
            check(set(ref) == set(mec_B), "I={} not MEC")
            check(pat(utils.dag_to_cpdag(np.array(B))) == ess, "I={} not CPDAG", B)
        if len(I) == p:
            check(ref == [B], "I=all not {A}")
        # pdag_to_icpdag: error iff undirected edge at a target, else the I-CPDAG
        P = np.array(ess)
        for J in subsets[:: max(1, len(subsets) // 4)]:
            und_at_target = any(P[t, j] and P[j, t] for t in J for j in range(p))
            try:
                res = utils.pdag_to_icpdag(P.copy(), set(J))
                check(not und_at_target, "pdag_to_icpdag did not raise", B, I, J)
                # no undirected edge at J in P => all extensions of P agree around J,
                # and the result is the J-CPDAG of any of them
                check(pat(res) == ref_essential(ref_imec(ref[0], J, mec_B)), "pdag_to_icpdag wrong", B, I, J)
            except ValueError:
                check(und_at_target, "pdag_to_icpdag raised wrongly", B, I, J)
    for I in sizes:
        for J in sizes:
            if set(I) <= set(J):
                check(sizes[J] <= sizes[I], "not monotone", B, I, J)

# documented errors
for bad in (np.array([[0, 1], [1, 0]]), np.array([[0, 1, 0], [0, 0, 1], [1, 0, 0]])):
    try:
        utils.imec(bad, set())
        check(False, "no ValueError for non-DAG")
    except ValueError:
        pass
try:
    utils.imec(utils.chain_graph(3), {5})
    check(False, "no ValueError for targets outside [p]")
except ValueError:
    pass

print("C10 holds on %d (DAG, I) pairs" % n_pairs)
sys.exit(0)
