import numpy as np


class _Conversion:
    @staticmethod
    def py2rpy(obj):
        # pandas.DataFrame / ndarray -> plain float matrix
        arr = np.array(obj, dtype=float)
        if arr.ndim == 1:
            arr = arr.reshape(-1, 1)
        return arr

    @staticmethod
    def rpy2py(obj):
        return obj


conversion = _Conversion()


def r(code):
    """Evaluate R code: a no-op here."""
    return None


from . import numpy2ri, pandas2ri, packages  # noqa: E402,F401
