import numpy as np

# Number of nearest training rows that receive (uniform) weight
K = 3

# Log of all calls, so that a caller may inspect what was fitted / queried
FITS = []
PREDICTS = []


class PackageNotInstalledError(Exception):
    pass


class _Fit:
    def __init__(self, X, Y, params):
        self.X = np.array(X, dtype=float)
        self.Y = np.array(Y, dtype=float)
        if self.Y.ndim == 1:
            self.Y = self.Y.reshape(-1, 1)
        self.params = dict(params)
        self.variable_importance = None


def knn_weights(X_train, X_new, k=None):
    """Uniform weights over the k nearest training rows (stable ties)."""
    k = K if k is None else k
    X_train = np.asarray(X_train, dtype=float)
    X_new = np.asarray(X_new, dtype=float)
    k = min(k, len(X_train))
    W = np.zeros((len(X_new), len(X_train)))
    for r, x in enumerate(X_new):
        d = ((X_train - x) ** 2).sum(axis=1)
        nearest = np.argsort(d, kind="stable")[:k]
        W[r, nearest] = 1.0 / k
    return W


class _Base:
    @staticmethod
    def as_matrix(x):
        return np.array(x)


class _Drf:
    @staticmethod
    def drf(X, Y, **params):
        fit = _Fit(X, Y, params)
        FITS.append(fit)
        return fit

    @staticmethod
    def predict_drf(fit, newdata):
        newdata = np.array(newdata, dtype=float)
        if newdata.ndim == 1:
            newdata = newdata.reshape(-1, 1)
        if newdata.shape[1] != fit.X.shape[1]:
            raise ValueError("newdata has the wrong number of columns")
        W = knn_weights(fit.X, newdata)
        PREDICTS.append((fit, newdata.copy()))
        return [W, fit.Y.copy()]

    @staticmethod
    def print_drf(fit):
        print("<stand-in drf: %d rows, %d predictors>" % fit.X.shape)

    @staticmethod
    def variableImportance(fit):
        return np.ones(fit.X.shape[1]) / fit.X.shape[1]


_PACKAGES = {"base": _Base(), "drf": _Drf()}


def importr(name, *args, **kwargs):
    try:
        return _PACKAGES[name]
    except KeyError:
        raise PackageNotInstalledError(name)
