"""C05 demo: Gaussian conditioning / marginalisation are exact.

Reference: exact rational arithmetic (fractions.Fraction, Gauss-Jordan
elimination) on covariances whose entries are dyadic rationals, so that the
floats handed to the library represent them exactly. Exits 0 iff all checks hold.
"""
import sys
import random
from fractions import Fraction as F
import numpy as np
import sempler
from sempler import NormalDistribution

TOL = 1e-10
rnd = random.Random(20260905)


def frac_solve(A, B):
    """Solve A Z = B exactly (A k x k, B k x m, lists of Fractions)."""
    k, m = len(A), len(B[0]) if B else 0
    M = [list(A[i]) + list(B[i]) for i in range(k)]
    for c in range(k):
        piv = next(r for r in range(c, k) if M[r][c] != 0)
        M[c], M[piv] = M[piv], M[c]
        d = M[c][c]
        M[c] = [v / d for v in M[c]]
        for r in range(k):
            if r != c and M[r][c] != 0:
                f = M[r][c]
                M[r] = [a - f * b for a, b in zip(M[r], M[c])]
    return [row[k:] for row in M]


def exact_conditional(mu, S, Y, X, x):
    if len(X) == 0:
        return [mu[i] for i in Y], [[S[i][j] for j in Y] for i in Y]
    Sxx = [[S[i][j] for j in X] for i in X]
    rhs = [[S[i][j] for j in Y] + [x[a] - mu[i]] for a, i in enumerate(X)]
    Z = frac_solve(Sxx, rhs)  # k x (|Y|+1)
    mean = [mu[i] + sum(S[i][X[a]] * Z[a][-1] for a in range(len(X))) for i in Y]
    cov = [[S[i][j] - sum(S[i][X[a]] * Z[a][b] for a in range(len(X)))
            for b, j in enumerate(Y)] for i in Y]
    return mean, cov


def random_case():
    p = rnd.randint(1, 6)
    G = [[F(rnd.randint(-8, 8), 4) for _ in range(p)] for _ in range(p)]
    S = [[sum(G[i][k] * G[j][k] for k in range(p)) + (F(rnd.randint(2, 12), 8) if i == j else 0)
          for j in range(p)] for i in range(p)]
    mu = [F(rnd.randint(-40, 40), 8) for _ in range(p)]
    return p, mu, S


def present(idx, mode):
    """The same ordered index list as scalar / list / array."""
    if len(idx) == 1 and mode == 0:
        return idx[0]
    if mode == 1:
        return np.array(idx, dtype=int)
    return list(idx)


def close(got, want, scale):
    got = np.asarray(got, dtype=float)
    want = np.array([[float(v) for v in row] for row in want]) if want and isinstance(want[0], list) \
        else np.array([float(v) for v in want])
    if got.shape != want.shape:
        return False
    return bool(np.all(np.abs(got - want) <= TOL * scale))


def fl(M):
    return np.array([[float(v) for v in row] for row in M])


def expect_value_error(f):
    try:
        f()
    except ValueError:
        return True
    except Exception:
        return False
    return False


def main():
    bad = []
    n = 0
    for case in range(300):
        p, mu, S = random_case()
        dist = NormalDistribution(np.array([float(v) for v in mu]), fl(S))
        scale = 1 + max(abs(float(v)) for row in S for v in row) + max(abs(float(v)) for v in mu)
        perm = list(range(p))
        rnd.shuffle(perm)
        ny = rnd.randint(1, p)
        nx = rnd.randint(0, p - ny)
        Y, X = perm[:ny], perm[ny:ny + nx]
        x = [F(rnd.randint(-40, 40), 8) for _ in X]
        xs = scale * 4
        mode = case % 3
        xv = [float(v) for v in x]
        x_arg = xv[0] if (len(xv) == 1 and mode == 0) else (np.array(xv) if mode == 1 else xv)
        # 1. conditional against exact arithmetic, order as requested
        c = dist.conditional(present(Y, mode), present(X, mode) if X else [], x_arg if X else [])
        em, ec = exact_conditional(mu, S, Y, X, x)
        if not (close(c.mean, em, xs * 8) and close(c.covariance, ec, xs * 8)):
            bad.append(("conditional", case, Y, X))
        # 2. marginal against exact selection
        m = dist.marginal(present(Y, mode))
        if not (close(m.mean, [mu[i] for i in Y], scale) and
                close(m.covariance, [[S[i][j] for j in Y] for i in Y], scale)):
            bad.append(("marginal", case, Y))
        # 3. conditioning on nothing equals marginalising
        c0 = dist.conditional(present(Y, mode), [], [])
        if not (np.allclose(np.asarray(c0.mean, float), np.asarray(m.mean, float), rtol=0, atol=TOL * scale) and
                np.allclose(np.asarray(c0.covariance, float), np.asarray(m.covariance, float), rtol=0, atol=TOL * scale)):
            bad.append(("cond-nothing", case, Y))
        # 4. marginalising is compositional
        sub = rnd.sample(range(len(Y)), rnd.randint(1, len(Y)))
        m2 = m.marginal(present(sub, mode))
        m1 = dist.marginal(present([Y[i] for i in sub], mode))
        if not (np.allclose(np.asarray(m2.mean, float), np.asarray(m1.mean, float), rtol=0, atol=TOL * scale) and
                np.allclose(np.asarray(m2.covariance, float), np.asarray(m1.covariance, float), rtol=0, atol=TOL * scale)):
            bad.append(("marginal-compose", case, Y, sub))
        # 5. two-step conditioning equals joint conditioning
        if len(X) >= 2:
            k = rnd.randint(1, len(X) - 1)
            X1, X2 = X[:k], X[k:]
            step1 = dist.conditional(Y + X2, X1, xv[:k])
            step2 = step1.conditional(list(range(len(Y))), list(range(len(Y), len(Y) + len(X2))), xv[k:])
            if not (np.allclose(np.asarray(step2.mean, float), np.asarray(c.mean, float), rtol=0, atol=TOL * xs * 64) and
                    np.allclose(np.asarray(step2.covariance, float), np.asarray(c.covariance, float), rtol=0,
                                atol=TOL * xs * 64)):
                bad.append(("two-step", case, Y, X))
        # 6. documented ValueErrors
        if X:
            if not expect_value_error(lambda: dist.conditional(Y + [X[0]], X, xv)):
                bad.append(("overlap-no-error", case))
            if not expect_value_error(lambda: dist.conditional(Y, X, xv + [0.0])):
                bad.append(("size-no-error", case))
            if not expect_value_error(lambda: dist.conditional(Y, X, xv[:-1])):
                bad.append(("size-no-error-2", case))
        if not expect_value_error(lambda: NormalDistribution(np.zeros(p + 1), fl(S))):
            bad.append(("ctor-no-error", case))
        # 7. results independent of the call history / inputs untouched
        c_again = dist.conditional(present(Y, mode), present(X, mode) if X else [], x_arg if X else [])
        if not (np.array_equal(np.asarray(c_again.mean), np.asarray(c.mean)) and
                np.array_equal(np.asarray(c_again.covariance), np.asarray(c.covariance))):
            bad.append(("not-repeatable", case))
        if not (np.array_equal(dist.covariance, fl(S)) and np.array_equal(dist.mean, [float(v) for v in mu])):
            bad.append(("joint-mutated", case))
        n += 1
    print("sempler from", sempler.__file__)
    print("cases:", n, "violations:", len(bad))
    for b in bad[:10]:
        print("  ", b)
    return 1 if bad else 0


if __name__ == "__main__":
    sys.exit(main())
