"""C12: intervention_targets respects size, range and disjointness; ValueError exactly when stated.

Run as: PYTHONPATH=<checkout> /venv/bin/python demo_A.py   (exit 0 iff the property holds)
"""
import sys
import itertools
import numbers
import numpy as np
from sempler.generators import intervention_targets

fails = []


def bad(msg):
    fails.append(msg)
    if len(fails) <= 10:
        print("FAIL:", msg)


def should_raise(p, K, size, replace):
    """Independent statement of the error condition."""
    if isinstance(size, tuple):
        if len(size) != 2:
            return True
        hi = size[1]
    else:
        hi = size
    if hi > p:
        return True
    if not replace and hi * K > p:
        return True
    return False


def check_output(out, p, K, size, replace, tag):
    lo, hi = size if isinstance(size, tuple) else (size, size)
    if not isinstance(out, list) or len(out) != K:
        return bad("%s: not a list of K interventions: %r" % (tag, out))
    seen = set()
    for I in out:
        if not isinstance(I, list):
            return bad("%s: intervention is not a list: %r" % (tag, I))
        if not all(isinstance(t, numbers.Integral) and 0 <= t < p for t in I):
            return bad("%s: target outside 0..p-1: %r" % (tag, I))
        if len(set(int(t) for t in I)) != len(I):
            bad("%s: repeated target inside an intervention: %r" % (tag, I))
        if not lo <= len(I) <= hi:
            bad("%s: size %d outside [%d,%d]" % (tag, len(I), lo, hi))
        if not replace:
            if seen & set(int(t) for t in I):
                bad("%s: variable in two interventions: %r" % (tag, out))
            seen |= set(int(t) for t in I)


def plain(out):
    return [[int(t) for t in I] for I in out]


# 1. Exhaustive small grid: error condition exact, outputs well-formed, reproducible
n_calls = 0
sizes = [0, 1, 2, 3, 4, 6] + [(a, b) for a in range(0, 5) for b in range(a, 6)]
for p, K, size, replace in itertools.product([1, 2, 3, 4, 5, 8], [0, 1, 2, 3, 5], sizes, [True, False]):
    tag = "p=%d K=%d size=%r replace=%s" % (p, K, size, replace)
    expect = should_raise(p, K, size, replace)
    for seed in (0, 1, 12345):
        n_calls += 1
        try:
            out = intervention_targets(p, K, size, replace=replace, random_state=seed)
            raised = False
        except ValueError:
            raised = True
        except Exception as e:  # any other exception type is a violation
            bad("%s: unexpected %s" % (tag, type(e).__name__))
            continue
        if raised != expect:
            bad("%s: ValueError raised=%s expected=%s" % (tag, raised, expect))
        if not raised:
            check_output(out, p, K, size, replace, tag)
            again = intervention_targets(p, K, size, replace=replace, random_state=seed)
            if plain(again) != plain(out):
                bad("%s: not reproducible for seed %d" % (tag, seed))

# tuples that are not pairs always raise, also positionally / with no seed
for size in [(), (1,), (0, 1, 2), (1, 1, 1, 1)]:
    for replace in (True, False):
        try:
            intervention_targets(6, 2, size, replace)
            bad("size=%r did not raise" % (size,))
        except ValueError:
            pass

# 2. Larger random configurations, unseeded and seeded
gen = np.random.default_rng(2024)
for _ in range(300):
    p = int(gen.integers(1, 40))
    K = int(gen.integers(0, 12))
    if gen.random() < 0.5:
        size = int(gen.integers(0, p + 3))
    else:
        a = int(gen.integers(0, p + 2))
        size = (a, int(gen.integers(a, p + 3)))
    replace = bool(gen.integers(2))
    seed = None if gen.random() < 0.3 else int(gen.integers(0, 2**31))
    tag = "p=%d K=%d size=%r replace=%s seed=%r" % (p, K, size, replace, seed)
    try:
        out = intervention_targets(p, K, size, replace=replace, random_state=seed)
        if should_raise(p, K, size, replace):
            bad(tag + ": no ValueError")
        check_output(out, p, K, size, replace, tag)
    except ValueError:
        if not should_raise(p, K, size, replace):
            bad(tag + ": spurious ValueError")

# 3. Over seeds: every size of the range and every variable occurs; the result depends on the seed;
#    frequencies roughly uniform (generous thresholds)
for p, K, size, replace in [(6, 2, (0, 3), False), (6, 3, (0, 3), True), (7, 3, (1, 2), False),
                            (5, 1, (0, 5), True), (5, 1, (0, 5), False), (9, 4, 2, False), (4, 3, 1, True)]:
    lo, hi = size if isinstance(size, tuple) else (size, size)
    size_count = np.zeros(hi + 1)
    var_count = np.zeros(p)
    first_count = np.zeros(p)  # variable frequencies in the LAST intervention (position effects)
    outs = set()
    n = 1500
    for seed in range(n):
        out = plain(intervention_targets(p, K, size, replace=replace, random_state=seed))
        outs.add(repr(out))
        for I in out:
            size_count[len(I)] += 1
            for t in I:
                var_count[t] += 1
        for t in out[-1]:
            first_count[t] += 1
    tag = "p=%d K=%d size=%r replace=%s" % (p, K, size, replace)
    if len(outs) < 4:
        bad(tag + ": result does not depend on the seed")
    sc = size_count[lo:]
    if (sc == 0).any() or sc.min() < 0.6 * sc.mean() or size_count[:lo].any():
        bad(tag + ": sizes not all present / far from uniform %r" % (size_count,))
    for nm, c in (("all", var_count), ("last", first_count)):
        if (c == 0).any() or c.min() < 0.6 * c.mean() or c.max() > 1.5 * c.mean():
            bad(tag + ": variables (%s) not all present / far from uniform %r" % (nm, c))

print("calls on the grid:", n_calls, " failures:", len(fails))
sys.exit(1 if fails else 0)
