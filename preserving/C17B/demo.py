"""C17 demo: split_data partitions every environment's observations."""
import sys
import random
from fractions import Fraction
import numpy as np
from sempler import utils


def rand_ratios(pyrng):
    k = pyrng.randint(1, 7)
    N = pyrng.choice([2, 3, 5, 7, 10, 12, 100, 997])
    cuts = sorted(pyrng.randint(0, N) for _ in range(k - 1))
    parts = [b - a for a, b in zip([0] + cuts, cuts + [N])]
    return [float(Fraction(c, N)) for c in parts]


def expected_sizes(n, ratios):
    sizes, start = [], 0
    for r in ratios[:-1]:
        s = min(round(n * r), n - start)
        sizes.append(s)
        start += s
    sizes.append(n - start)
    return sizes


def make_data(pyrng, big=False):
    data = []
    for e in range(pyrng.randint(1, 4)):
        n = pyrng.randint(40, 90) if big else pyrng.choice([0, 1, 2, 3, 5, 7, 11, 20, 33, 64])
        p = pyrng.randint(1, 4)
        X = np.empty((n, p + 2))
        X[:, 0] = e                       # environment tag
        X[:, 1] = np.arange(n) + 0.5      # unique observation id
        X[:, 2:] = np.random.default_rng(e).normal(size=(n, p))
        data.append(X)
    return data


def rows(a):
    return sorted(map(tuple, np.asarray(a).tolist()))


def check_partition(data, ratios, seed):
    backup = [x.copy() for x in data]
    folds = utils.split_data(data, ratios, seed) if seed is not None else utils.split_data(data, ratios)
    assert len(folds) == len(ratios)
    for f in folds:
        assert len(f) == len(data)
    for x, b in zip(data, backup):
        assert x.shape == b.shape and (x == b).all(), "input modified"
    for e, x in enumerate(data):
        pieces = [folds[i][e] for i in range(len(ratios))]
        assert [len(s) for s in pieces] == expected_sizes(len(x), ratios), "fold sizes"
        got = [r for s in pieces for r in rows(s)]
        assert sorted(got) == rows(x), "not a partition of the environment"
        for s in pieces:
            assert np.asarray(s).shape[1:] == x.shape[1:]
    return folds


def same(f1, f2):
    return all(np.array_equal(np.asarray(a), np.asarray(b)) for x, y in zip(f1, f2) for a, b in zip(x, y))


def main():
    pyrng = random.Random(17)
    for t in range(400):
        data = make_data(pyrng)
        ratios = rand_ratios(pyrng)
        seed = pyrng.randint(0, 10**6)
        f1 = check_partition(data, ratios, seed)
        f2 = check_partition(data, ratios, seed)
        assert same(f1, f2), "not deterministic in the seed"
    # default seed is also deterministic
    data = make_data(pyrng, big=True)
    assert same(check_partition(data, [0.5, 0.5], None), check_partition(data, [0.5, 0.5], None))
    # dependence on the seed, and genuine shuffling
    changed = 0
    for t in range(50):
        data = make_data(pyrng, big=True)
        ratios = [0.5, 0.25, 0.25]
        f1 = check_partition(data, ratios, t)
        f2 = check_partition(data, ratios, t + 1000)
        changed += not same(f1, f2)
        ids = set(np.asarray(f1[0][0])[:, 1].tolist())
        n0 = len(ids)
        assert ids != set((np.arange(n0) + 0.5).tolist()), "first fold is just the head of the sample"
    assert changed == 50, "result does not depend on the seed"
    # ratios accepted despite floating-point sum != 1
    for ratios in ([0.7, 0.2, 0.1], [0.1] * 10, [1 / 3] * 3, [1 / 7] * 7, [0.1, 0.2, 0.3, 0.4], [1 / 49] * 49, [1.0]):
        check_partition(make_data(pyrng, big=True), ratios, 3)
    # ratios off by more than 1e-6 are rejected
    for t in range(200):
        ratios = rand_ratios(pyrng)
        delta = pyrng.choice([-1, 1]) * 10 ** pyrng.uniform(-5.9, 0)
        j = pyrng.randrange(len(ratios))
        ratios[j] += delta
        try:
            utils.split_data(make_data(pyrng), ratios, t)
        except ValueError:
            continue
        raise AssertionError("no ValueError for ratios %r" % (ratios,))
    print("C17 holds")


if __name__ == "__main__":
    try:
        main()
    except AssertionError as e:
        print("C17 VIOLATED:", e)
        sys.exit(1)
