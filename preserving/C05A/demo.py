"""C05 demo: Gaussian conditioning / marginalisation against an exact
rational-arithmetic reference (fractions.Fraction Gaussian elimination).

Run as: PYTHONPATH=<checkout> /venv/bin/python demo_A.py ; exits 0 if the property holds.
"""
import sys
from fractions import Fraction as F
import numpy as np
from sempler import NormalDistribution

rng = np.random.default_rng(20261005)
RTOL, ATOL = 1e-8, 1e-8
failures = []


def check(cond, msg):
    if not cond:
        failures.append(msg)


def exact_solve(A, B):
    """Solve A Z = B exactly (lists of lists of Fractions), Gauss-Jordan with pivoting."""
    n, m = len(A), len(B[0]) if B else 0
    M = [list(A[i]) + list(B[i]) for i in range(n)]
    for c in range(n):
        piv = next(r for r in range(c, n) if M[r][c] != 0)
        M[c], M[piv] = M[piv], M[c]
        d = M[c][c]
        M[c] = [v / d for v in M[c]]
        for r in range(n):
            if r != c and M[r][c] != 0:
                f = M[r][c]
                M[r] = [a - f * b for a, b in zip(M[r], M[c])]
    return [row[n:] for row in M]


def exact_conditional(mean, cov, Y, X, x):
    """Exact conditional mean / covariance of Y given X = x (Fractions)."""
    Y, X = list(Y), list(X)
    my = [F(mean[i]) for i in Y]
    Syy = [[F(cov[i][j]) for j in Y] for i in Y]
    if not X:
        return my, Syy
    Sxx = [[F(cov[i][j]) for j in X] for i in X]
    Sxy = [[F(cov[i][j]) for j in Y] for i in X]
    dx = [[F(x[k]) - F(mean[i])] for k, i in enumerate(X)]
    Z = exact_solve(Sxx, [Sxy[k] + dx[k] for k in range(len(X))])  # Sxx^-1 [Sxy | dx]
    Syx = [[F(cov[i][j]) for j in X] for i in Y]
    ny = len(Y)
    m = [my[a] + sum(Syx[a][k] * Z[k][ny] for k in range(len(X))) for a in range(ny)]
    C = [[Syy[a][b] - sum(Syx[a][k] * Z[k][b] for k in range(len(X))) for b in range(ny)]
         for a in range(ny)]
    return m, C


def to_float(v):
    return np.array([[float(e) for e in r] for r in v]) if v and isinstance(v[0], list) \
        else np.array([float(e) for e in v])


def close(a, b):
    a, b = np.asarray(a, dtype=float), np.asarray(b, dtype=float)
    return a.shape == b.shape and np.allclose(a, b, rtol=RTOL, atol=ATOL)


def random_gaussian(p):
    """Well-conditioned PD covariance and mean whose entries are exact dyadic rationals."""
    A = rng.integers(-3, 4, size=(p, p))
    cov = (A @ A.T + (1 + p) * np.eye(p, dtype=int)) * rng.choice([0.25, 1.0, 8.0])
    mean = rng.integers(-20, 21, size=p) / 4.0
    return mean, cov


def present(idx, kind):
    """Present an index list as scalar / list / tuple / array."""
    idx = [int(i) for i in idx]
    if len(idx) == 1 and kind == 0:
        return idx[0]
    return [idx, tuple(idx), np.array(idx, dtype=int), np.array(idx, dtype=np.int32)][kind % 4]


def present_values(x, kind):
    x = [float(v) for v in x]
    if len(x) == 1 and kind == 0:
        return x[0]
    return [x, tuple(x), np.array(x), np.array(x)][kind % 4]


N = 300
for it in range(N):
    p = int(rng.integers(1, 8))
    mean, cov = random_gaussian(p)
    dist = NormalDistribution(mean if it % 2 else mean.tolist(), cov if it % 3 else cov.tolist())
    perm = rng.permutation(p)
    ny = int(rng.integers(1, p + 1))
    nx = int(rng.integers(0, p - ny + 1))
    Y, X = perm[:ny], perm[ny:ny + nx]
    x = rng.integers(-12, 13, size=nx) / 4.0
    kind = int(rng.integers(0, 4))

    # 1. conditional against exact arithmetic, order of Y respected
    c = dist.conditional(present(Y, kind), present(X, kind) if nx else [], present_values(x, kind) if nx else [])
    m_ref, C_ref = exact_conditional(mean.tolist(), cov.tolist(), Y, X, x)
    check(isinstance(c, NormalDistribution), "conditional type")
    check(c.p == ny, "conditional p (it %d)" % it)
    check(close(c.mean, to_float(m_ref)), "conditional mean (it %d)" % it)
    check(close(c.covariance, to_float(C_ref)), "conditional covariance (it %d)" % it)

    # 2. marginal against exact selection
    S = rng.permutation(p)[:int(rng.integers(1, p + 1))]
    mg = dist.marginal(present(S, kind))
    check(mg.p == len(S), "marginal p")
    check(np.array_equal(np.asarray(mg.mean, float), mean[S]), "marginal mean (it %d)" % it)
    check(np.array_equal(np.asarray(mg.covariance, float), cov[np.ix_(S, S)]), "marginal cov (it %d)" % it)

    # 3. conditioning on nothing = marginalising
    c0 = dist.conditional(present(S, kind), [], [])
    check(close(c0.mean, mg.mean) and close(c0.covariance, mg.covariance), "cond on nothing (it %d)" % it)
    c0 = dist.conditional(present(S, kind), np.array([], dtype=int), np.array([]))
    check(close(c0.mean, mg.mean) and close(c0.covariance, mg.covariance), "cond on nothing, arrays (it %d)" % it)

    # 4. marginalising is compositional
    T = rng.permutation(len(S))[:int(rng.integers(1, len(S) + 1))]
    mm = mg.marginal(present(T, kind))
    direct = dist.marginal(present(S[T], kind))
    check(close(mm.mean, direct.mean) and close(mm.covariance, direct.covariance), "marginal composition (it %d)" % it)
    # marginal of a conditional = conditional of fewer variables
    sub = rng.permutation(ny)[:int(rng.integers(1, ny + 1))]
    a = c.marginal(present(sub, kind))
    b = dist.conditional(present(Y[sub], kind), X, x)
    check(close(a.mean, b.mean) and close(a.covariance, b.covariance), "marginal of conditional (it %d)" % it)

    # 5. two-step conditioning = joint conditioning
    if nx >= 2:
        k = int(rng.integers(1, nx))
        X1, X2, x1, x2 = X[:k], X[k:], x[:k], x[k:]
        step1 = dist.conditional(np.concatenate([Y, X2]), present(X1, kind), present_values(x1, kind))
        step2 = step1.conditional(list(range(ny)), list(range(ny, ny + len(X2))), x2)
        check(close(step2.mean, c.mean) and close(step2.covariance, c.covariance), "two-step conditioning (it %d)" % it)

    # 6. errors
    if p >= 2:
        Xo = np.concatenate([X, Y[:1]])
        try:
            dist.conditional(present(Y, kind), Xo, np.zeros(len(Xo)))
            check(False, "overlap accepted (it %d)" % it)
        except ValueError:
            pass
    if ny < p:
        rest = perm[ny:]
        for bad in (np.zeros(len(rest) + 1), np.zeros(len(rest) - 1)):
            try:
                dist.conditional(Y, rest, bad)
                check(False, "size mismatch accepted (it %d)" % it)
            except ValueError:
                pass
    for bad_mean in (np.zeros(p + 1), np.zeros(p - 1) if p > 1 else np.zeros(3)):
        try:
            NormalDistribution(bad_mean, cov)
            check(False, "mean/cov mismatch accepted (it %d)" % it)
        except ValueError:
            pass

    # the queried distribution itself is left untouched
    check(np.array_equal(dist.mean, mean) and np.array_equal(dist.covariance, cov), "distribution mutated (it %d)" % it)

if failures:
    print("C05 VIOLATED: %d failures, first: %s" % (len(failures), failures[:5]))
    sys.exit(1)
print("C05 holds on %d random Gaussians" % N)
sys.exit(0)
