"""C03 demo: is_dag / topological_ordering / constructors are exact for any real weights.
Reference: brute-force over all permutations (p<=5) and integer-exact boolean closure (larger p)."""
import itertools
import sys
import numpy as np
import sempler
import sempler.noise
import sempler.utils as utils

rng = np.random.default_rng(20261005)


def ref_acyclic_perm(B):
    p = len(B)
    if B.diagonal().any():
        return False
    for perm in itertools.permutations(range(p)):
        pos = np.argsort(perm)
        fro, to = np.nonzero(B)
        if (pos[fro] < pos[to]).all():
            return True
    return False


def ref_acyclic_closure(B):
    R = B.astype(object)  # python ints: exact
    p = len(B)
    reach = [[bool(B[i, j]) for j in range(p)] for i in range(p)]
    for k in range(p):
        for i in range(p):
            if reach[i][k]:
                for j in range(p):
                    if reach[k][j]:
                        reach[i][j] = True
    return not any(reach[i][i] for i in range(p))


def weights(B, kind):
    p = len(B)
    if kind == 0:
        W = rng.normal(size=(p, p)) * 10.0 ** rng.integers(-8, 9)
    elif kind == 1:  # parents cancelling: columns sum to zero where possible
        W = np.where(rng.random((p, p)) < 0.5, 1.0, -1.0)
    elif kind == 2:  # all negative
        W = -rng.uniform(0.1, 5, size=(p, p))
    elif kind == 3:  # tiny / huge magnitudes
        W = rng.choice([1e-300, -1e-300, 1e300, -1e300, 5e-324], size=(p, p))
    else:  # integers, negative
        W = rng.integers(-3, 0, size=(p, p)).astype(float)
    W = W * B
    assert ((W != 0) == B).all()
    return W


def random_pattern(p):
    mode = rng.integers(0, 4)
    if mode == 0:  # random DAG with random labels
        B = np.triu(rng.random((p, p)) < rng.uniform(0.1, 0.9), 1)
        perm = rng.permutation(p)
        return B[perm][:, perm]
    if mode == 1:  # DAG plus one extra entry (maybe self-loop / 2-cycle / long cycle)
        B = np.triu(rng.random((p, p)) < rng.uniform(0.1, 0.9), 1)
        perm = rng.permutation(p)
        B = B[perm][:, perm]
        B[rng.integers(p), rng.integers(p)] = True
        return B
    if mode == 2:  # arbitrary sparse
        return rng.random((p, p)) < rng.uniform(0.0, 0.4)
    B = np.zeros((p, p), dtype=bool)  # a single directed cycle of random length (1..p)
    k = rng.integers(1, p + 1)
    nodes = rng.permutation(p)[:k]
    for a, b in zip(nodes, np.roll(nodes, -1)):
        B[a, b] = True
    return B


def check(W, expected):
    p = len(W)
    B = W != 0
    W0 = W.copy()
    got = utils.is_dag(W)
    assert isinstance(got, (bool, np.bool_)), type(got)
    assert bool(got) == expected, ("is_dag", W, got, expected)
    if expected:
        order = utils.topological_ordering(W)
        assert sorted(int(i) for i in order) == list(range(p)), ("not a permutation", order)
        pos = np.empty(p, dtype=int)
        pos[[int(i) for i in order]] = np.arange(p)
        fro, to = np.nonzero(B)
        assert (pos[fro] < pos[to]).all(), ("edge backwards", W, order)
    else:
        try:
            utils.topological_ordering(W)
        except ValueError:
            pass
        else:
            raise AssertionError(("no ValueError from topological_ordering", W))
    # constructors
    def build_lganm():
        return sempler.LGANM(W, (0, 1), (1, 2), random_state=0)

    def build_anm():
        return sempler.ANM(W, [None] * p, [sempler.noise.normal(0, 1)] * p)

    for build in (build_lganm, build_anm):
        try:
            obj = build()
            ok = True
        except ValueError:
            ok = False
        assert ok == expected, (build.__name__, W, ok, expected)
    if expected:
        anm = build_anm()
        o = [int(i) for i in anm.ordering]
        assert sorted(o) == list(range(p))
        pos = np.empty(p, dtype=int)
        pos[o] = np.arange(p)
        fro, to = np.nonzero(B)
        assert (pos[fro] < pos[to]).all()
    assert np.array_equal(W, W0), "input modified"


n = 0
# exhaustive p <= 3 patterns, several weightings
for p in (1, 2, 3):
    for bits in itertools.product([False, True], repeat=p * p):
        B = np.array(bits).reshape(p, p)
        exp = ref_acyclic_perm(B)
        assert exp == ref_acyclic_closure(B)
        for kind in range(5):
            check(weights(B, kind), exp)
            n += 1
# random p in 4..5 with the permutation reference, 6..12 with the closure reference
for _ in range(300):
    p = int(rng.integers(4, 6))
    B = random_pattern(p)
    check(weights(B, int(rng.integers(5))), ref_acyclic_perm(B))
    n += 1
for _ in range(300):
    p = int(rng.integers(6, 13))
    B = random_pattern(p)
    check(weights(B, int(rng.integers(5))), ref_acyclic_closure(B))
    n += 1
# explicit examples named in the property
for W, exp in [
    (np.array([[-1.0]]), False),
    (np.array([[0.0]]), True),
    (np.array([[0.0, -1], [-1, 0]]), False),
    (np.array([[0.0, 1], [-1, 0]]), False),
    (np.array([[0, 1, 0], [0, 0, 1], [-2.0, 0, 0]]), False),
    (np.array([[0, 0, 1.0], [0, 0, -1.0], [0, 0, 0]]), True),
    (np.array([[0, 1, 1.0], [0, 0, -1.0], [0, 0, 0]]), True),
]:
    check(W, exp)
    n += 1
print("C03 holds on %d matrices" % n)
sys.exit(0)
