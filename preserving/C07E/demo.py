"""Independent check of property C07 (MEC / consistent extension enumeration).

Run as: PYTHONPATH=<checkout> /venv/bin/python demo_C.py ; exits 0 iff the property holds.
Everything is compared on non-zero patterns only; order / dtype / container of results is free.
"""
import itertools
import sys
import numpy as np
import sempler.utils as U

rng = np.random.default_rng(707)
FOCUS = "C"  # which part gets the larger share of the inputs (A: all_dags, B: mec, C: mixed)


def acyclic(D):
    D = D.copy()
    left = list(range(len(D)))
    while left:
        src = [i for i in left if not any(D[j, i] for j in left)]
        if not src:
            return False
        left = [i for i in left if i not in src]
    return True


def vstructs(D, S):
    """colliders a -> c <- b among the DIRECTED edges D, a, b non adjacent in the skeleton S"""
    p = len(D)
    return {(a, c, b) for c in range(p) for a in range(p) for b in range(a + 1, p)
            if D[a, c] and D[b, c] and not S[a, b]}


def split(P):
    P = np.asarray(P) != 0
    return P & ~P.T, P & P.T, P | P.T  # directed, undirected, skeleton


def reference_extensions(P):
    D, Un, S = split(P)
    und = [(i, j) for i in range(len(P)) for j in range(i + 1, len(P)) if Un[i, j]]
    target = vstructs(D, S)
    out = set()
    for flips in itertools.product([0, 1], repeat=len(und)):
        G = D.copy()
        for (i, j), f in zip(und, flips):
            if f:
                G[j, i] = True
            else:
                G[i, j] = True
        if acyclic(G) and vstructs(G, S) == target:
            out.add(G.astype(np.uint8).tobytes())
    return out


def as_keys(dags, p):
    keys = []
    for d in dags:
        d = np.asarray(d)
        assert d.shape == (p, p), d.shape
        keys.append((d != 0).astype(np.uint8).tobytes())
    return keys


def check_all_dags(P):
    p = len(P)
    ref = reference_extensions(P)
    first = U.all_dags(P.copy())
    got = as_keys(first, p)
    assert len(got) == len(set(got)), "duplicates"
    assert set(got) == ref, (P, len(got), len(ref))
    # asking again gives the same answer, whatever the caller did to the first one
    if isinstance(first, np.ndarray) and first.flags.writeable and first.size:
        first[...] = 1
    assert sorted(as_keys(U.all_dags(P.copy()), p)) == sorted(got)
    return ref


def check_membership(P, ref, n=12):
    """is_consistent_extension on DAGs inside and outside of the set"""
    p = len(P)
    _, _, S = split(P)
    for _ in range(n):
        perm = rng.permutation(p)
        pos = np.argsort(perm)
        G = S & (pos[:, None] < pos[None, :])  # an acyclic orientation of the skeleton
        if p > 1 and rng.random() < 0.3:  # another skeleton
            i, j = rng.choice(p, 2, replace=False)
            G = G.copy()
            G[i, j] = G[j, i] = False
            if rng.random() < 0.5:
                G[(i, j) if pos[i] < pos[j] else (j, i)] = not S[i, j]
        want = G.astype(np.uint8).tobytes() in ref
        for Gin in (G.astype(int), G.astype(float) * rng.choice([-2.5, 0.3, 1.0]), G.copy()):
            assert bool(U.is_consistent_extension(Gin, P.copy())) == want, (P, G)
    for key in list(ref)[:4]:
        G = np.frombuffer(key, dtype=np.uint8).reshape(p, p).astype(int)
        assert bool(U.is_consistent_extension(G, P.copy()))


def random_pdag(p):
    while True:
        dens = rng.uniform(0.2, 0.9)
        perm = rng.permutation(p)
        pos = np.argsort(perm)
        S = np.triu(rng.random((p, p)) < dens, 1)
        S = S | S.T
        D = S & (pos[:, None] < pos[None, :])
        und = np.triu(rng.random((p, p)) < rng.uniform(0.2, 0.8), 1)
        und = (und | und.T) & S
        P = D | und
        if P.any():
            return P.astype(int)


def all_dags_of_size(p):
    pairs = list(itertools.combinations(range(p), 2))
    for states in itertools.product([0, 1, 2], repeat=len(pairs)):
        G = np.zeros((p, p), dtype=int)
        for (i, j), s in zip(pairs, states):
            if s == 1:
                G[i, j] = 1
            elif s == 2:
                G[j, i] = 1
        if acyclic(G != 0):
            yield G


def check_mec(A, pattern):
    p = len(A)
    ref = reference_extensions(pattern)
    for chk in (True, False):
        got = as_keys(U.mec(A.copy(), check_chain=chk), p)
        assert len(got) == len(set(got)), "duplicates in mec"
        assert set(got) == ref, (A, chk, len(got), len(ref))


def pattern_of(A):
    D, _, S = split(A)
    keep = np.zeros_like(D)
    for (a, c, b) in vstructs(D, S):
        keep[a, c] = keep[b, c] = True
    return (keep | (S & ~keep & ~keep.T)).astype(int)


def variants(G):
    yield G
    yield G.astype(bool)
    yield G * rng.uniform(0.5, 2, G.shape) * rng.choice([-1.0, 1.0], G.shape)


def main():
    n_pdag = {"A": 260, "B": 80, "C": 160}[FOCUS]
    n_dag5 = {"A": 30, "B": 120, "C": 60}[FOCUS]
    # 1. PDAGs: exhaustive p <= 3, sampled p = 4..6; also as boolean matrices
    count = 0
    for p in (1, 2, 3):
        pairs = list(itertools.combinations(range(p), 2))
        for states in itertools.product([0, 1, 2, 3], repeat=len(pairs)):
            P = np.zeros((p, p), dtype=int)
            for (i, j), s in zip(pairs, states):
                P[i, j], P[j, i] = s & 1, s >> 1
            if not acyclic(split(P)[0]):
                continue
            ref = check_all_dags(P)
            check_all_dags(P.astype(bool))
            check_membership(P, ref, 4)
            count += 1
    for k in range(n_pdag):
        P = random_pdag(int(rng.choice([4, 4, 5, 5, 6])))
        ref = check_all_dags(P if k % 3 else P.astype(bool))
        check_membership(P, ref, 6)
        count += 1
    # 2. DAGs: all DAGs with p <= 4 (0/1, boolean and signed weights in turn), sampled p = 5, 6
    ndag = 0
    for p in (1, 2, 3, 4):
        for k, G in enumerate(all_dags_of_size(p)):
            check_mec(list(variants(G))[k % 3], pattern_of(G))
            ndag += 1
    for k in range(n_dag5):
        P = random_pdag(int(rng.choice([5, 6])))
        G = split(P)[2] & np.triu(np.ones_like(P, dtype=bool), 1)
        perm = rng.permutation(len(P))
        G = G[perm][:, perm].astype(int)
        check_mec(list(variants(G))[k % 3], pattern_of(G))
        check_all_dags(G)  # a DAG is its own only consistent extension
        ndag += 1
    # 3. chain graphs up to p = 12: shortcut == general procedure == the p DAGs with one source
    for p in range(1, 13):
        A = U.chain_graph(p)
        a = as_keys(U.mec(A.copy(), check_chain=True), p)
        b = as_keys(U.mec(A.copy(), check_chain=False), p)
        c = as_keys(U.chain_graph_MEC(p), p)
        assert len(a) == len(set(a)) == len(b) == len(set(b)) == len(c) == p
        assert set(a) == set(b) == set(c)
        for V in list(variants(np.asarray(A).astype(int)))[1:]:  # boolean / signed weights
            for chk in (True, False):
                v = as_keys(U.mec(V.copy(), check_chain=chk), p)
                assert len(v) == p and set(v) == set(a)
        if p <= 9:
            assert set(a) == reference_extensions(pattern_of(np.asarray(A)))
    print("C07 holds: %d PDAGs, %d DAGs, chains to p=12" % (count, ndag))
    return 0


if __name__ == "__main__":
    sys.exit(main())
