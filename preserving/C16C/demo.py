"""C16 demo: structural decompositions checked against a pure-Python brute force reference.
Run as: PYTHONPATH=<checkout> /venv/bin/python demo_X.py ; exits 0 when the property holds."""
import itertools
import sys
import numpy as np
import sempler.utils as utils

rng = np.random.default_rng(2016)


def random_dag(p, density):
    perm = rng.permutation(p)
    A = np.zeros((p, p), dtype=int)
    for a in range(p):
        for b in range(a + 1, p):
            if rng.random() < density:
                A[perm[a], perm[b]] = 1
    return A


def cases():
    out = []
    for k in range(360):
        p = int(rng.integers(1, 8))
        A = random_dag(p, rng.choice([0.2, 0.5, 0.8, 1.0]))
        kind = k % 6
        if kind == 0:  # weighted DAG, any sign
            W = A * rng.uniform(0.3, 3, size=(p, p)) * rng.choice([-1, 1], size=(p, p))
            out.append(W)
        elif kind == 1:  # integer weights, any sign
            out.append(A * rng.integers(1, 5, size=(p, p)) * rng.choice([-1, 1], size=(p, p)))
        else:  # binary PDAG: undirect a random subset of the edges
            P = A.copy()
            for (i, j) in zip(*np.where(A != 0)):
                if rng.random() < 0.4:
                    P[j, i] = 1
            P = [P, P.astype(float), P.astype(bool), np.asfortranarray(P)][kind - 2]
            out.append(P)
    return out


def pairs(x):
    return [tuple(int(v) for v in e) for e in x]


def check(cond, msg, M):
    if not cond:
        print("C16 VIOLATED:", msg)
        print(repr(M))
        sys.exit(1)


n_checked = 0
for M in cases():
    p = len(M)
    orig = M.copy()
    nz = [[bool(M[i, j] != 0) for j in range(p)] for i in range(p)]
    R = range(p)
    # --- reference objects
    ref_dir = [(i, j) for i in R for j in R if nz[i][j] and not nz[j][i]]
    ref_und = [(i, j) for i in R for j in R if nz[i][j] and nz[j][i] and i > j]
    ref_skel = np.array([[int(nz[i][j] or nz[j][i]) for j in R] for i in R]).reshape(p, p)
    parents = {c: [i for i in R if (i, c) in ref_dir] for c in R}
    ref_vs = set((i, c, j) for c in R for i, j in itertools.combinations(parents[c], 2) if not ref_skel[i, j])
    ref_moral = ref_skel.copy()
    for c in R:
        for i, j in itertools.combinations(parents[c], 2):
            ref_moral[i, j] = ref_moral[j, i] = 1
    # --- only_directed / only_undirected
    D, U = np.asarray(utils.only_directed(M)), np.asarray(utils.only_undirected(M))
    check(D.shape == (p, p) and U.shape == (p, p), "decomposition shapes", M)
    for i in R:
        for j in R:
            check(D[i, j] == (M[i, j] if (i, j) in ref_dir else 0), "only_directed entry", M)
            und = nz[i][j] and nz[j][i]
            check(U[i, j] == (M[i, j] if und else 0), "only_undirected entry", M)
    check((D.astype(float) + U.astype(float) == np.asarray(M, dtype=float)).all(), "directed + undirected = input", M)
    # --- skeleton
    S = np.asarray(utils.skeleton(M))
    check(S.shape == (p, p) and (S == ref_skel).all() and (S == S.T).all(), "skeleton", M)
    # --- edge lists, once each
    de = pairs(utils.directed_edges(M))
    check(sorted(de) == sorted(ref_dir), "directed_edges", M)
    ue = [(max(e), min(e)) for e in pairs(utils.undirected_edges(M))]
    check(sorted(ue) == sorted(ref_und), "undirected_edges", M)
    # --- edge weights
    ew = utils.edge_weights(M)
    keys = pairs(ew.keys())
    check(sorted(keys) == sorted((i, j) for i in R for j in R if nz[i][j]) and len(keys) == len(set(keys)), "edge_weights keys", M)
    check(all(v == M[int(k[0]), int(k[1])] for k, v in ew.items()), "edge_weights values", M)
    # --- v-structures / moral graph
    vs = utils.vstructures(M)
    check(len(vs) == len(ref_vs) and set(tuple(int(v) for v in t) for t in vs) == ref_vs, "vstructures", M)
    check((np.asarray(utils.moral_graph(M)) == ref_moral).all(), "moral_graph", M)
    # --- degrees / is_complete
    check((np.asarray(utils.degrees(M)) == ref_skel.sum(axis=0)).all(), "degrees", M)
    check(bool(utils.is_complete(M)) == (ref_skel.sum() == p * (p - 1)), "is_complete", M)
    # --- node subsets: induced_subgraph / is_clique
    subsets = [set(), set(R)] + [set(int(i) for i in np.where(rng.random(p) < 0.5)[0]) for _ in range(4)]
    for T in subsets:
        sub = np.asarray(utils.induced_subgraph(set(T), M))
        ref = np.array([[M[i, j] if (i in T and j in T) else 0 for j in R] for i in R]).reshape(p, p)
        check(sub.shape == (p, p) and (sub == ref).all(), "induced_subgraph %s" % T, M)
        clique = all(ref_skel[i, j] for i in T for j in T if i != j)
        check(bool(utils.is_clique(set(T), M)) == clique, "is_clique %s" % T, M)
    # --- inputs untouched
    check(M.dtype == orig.dtype and (M == orig).all(), "input was modified", orig)
    n_checked += 1

print("C16 holds on %d graphs" % n_checked)
sys.exit(0)
