"""C04 demo: finite samples (NormalDistribution, LGANM, linear-Gaussian ANM) follow the population law.

Run as  PYTHONPATH=<checkout> /venv/bin/python demo_C.py ; exits 0 when the property holds.
Reference: population mean / covariance from path sums (Neumann series of the nilpotent weight matrix),
computed here independently of the library.
"""
import sys
import warnings
import numpy as np
import sempler
import sempler.noise

FOCUS = "C"  # A: emphasis on NormalDistribution (incl. singular), B: LGANM, C: ANM
BASE_SEED = {"A": 1000, "B": 2000, "C": 3000}[FOCUS]
N_BIG = 20000
Z = 7.0  # generous: 7 standard errors
failures = []


def fail(msg):
    failures.append(msg)
    if len(failures) <= 10:
        print("FAIL:", msg)


def reference(W, means, variances, do, shift, noise):
    W, m, v = W.astype(float).copy(), means.astype(float).copy(), variances.astype(float).copy()
    for t, (a, b) in shift.items():
        m[t] += a
        v[t] += b
    for t, (a, b) in noise.items():
        m[t], v[t] = a, b
    for t, (a, b) in do.items():
        m[t], v[t] = a, b
        W[:, t] = 0
    p = len(W)
    total, power = np.eye(p), np.eye(p)
    for _ in range(p):
        power = power @ W
        total = total + power
    # X = W^T X + N  =>  X = (sum_k W^k)^T N
    return total.T @ m, total.T @ np.diag(v) @ total


def check_law(tag, X, mu, Sigma, n):
    X = np.asarray(X)
    p = len(mu)
    if X.shape != (n, p):
        return fail("%s: shape %s, expected %s" % (tag, X.shape, (n, p)))
    if not np.all(np.isfinite(X)):
        return fail("%s: non-finite values" % tag)
    scale = 1 + np.abs(mu).max() + np.sqrt(np.abs(Sigma).max())
    tol = 1e-5 * scale
    sd = np.sqrt(np.clip(np.diag(Sigma), 0, None))
    # constants (zero population variance) are reproduced up to numerical tolerance, for every n
    for j in np.where(sd <= 1e-12 * scale)[0]:
        if n > 0 and np.abs(X[:, j] - mu[j]).max() > tol:
            fail("%s: constant variable %d not reproduced (dev %g)" % (tag, j, np.abs(X[:, j] - mu[j]).max()))
    if n < 2000:
        return
    dev = np.abs(X.mean(axis=0) - mu)
    if np.any(dev > Z * sd / np.sqrt(n) + tol):
        fail("%s: means off by %s" % (tag, dev))
    S = np.cov(X, rowvar=False, bias=True).reshape(p, p)
    bound = Z * np.sqrt((np.outer(sd**2, sd**2) + Sigma**2) / n) + tol * scale
    if np.any(np.abs(S - Sigma) > bound):
        fail("%s: covariance off by %g" % (tag, np.abs(S - Sigma).max()))
    # independence of rows: lag-1 autocorrelation of every non-constant column
    for j in np.where(sd > 1e-6 * scale)[0]:
        c = (X[:, j] - mu[j]) / sd[j]
        r = np.mean(c[1:] * c[:-1])
        if abs(r) > Z / np.sqrt(n):
            fail("%s: rows dependent, lag-1 correlation %g in column %d" % (tag, r, j))
    # first and second half identically distributed
    h = n // 2
    d = np.abs(X[:h].mean(axis=0) - X[h:].mean(axis=0))
    if np.any(d > Z * sd * np.sqrt(2.0 / h) + tol):
        fail("%s: halves differ %s" % (tag, d))


def random_interventions(rng, p, point_mass):
    def draw(k):
        targets = rng.choice(p, size=min(k, p), replace=False)
        out = {}
        for t in targets:
            var = 0.0 if (point_mass and rng.random() < 0.5) else float(rng.uniform(0.2, 4))
            out[int(t)] = (float(rng.uniform(-5, 5)), var)
        return out
    do = draw(rng.integers(0, 3))
    shift = draw(rng.integers(0, 3))
    noise = {t: v for t, v in draw(rng.integers(0, 3)).items() if t not in shift}
    return do, shift, noise


def scm_cases(n_cases):
    rng = np.random.default_rng(BASE_SEED)
    for k in range(n_cases):
        p = int(rng.integers(1, 7))
        perm = rng.permutation(p)  # causal order is not the index order
        U = np.triu(rng.uniform(0.3, 2.5, (p, p)) * rng.choice([-1, 1], (p, p)) * (rng.random((p, p)) < 0.6), k=1)
        W = np.zeros((p, p))
        W[np.ix_(perm, perm)] = U
        means = rng.uniform(-3, 3, p)
        variances = rng.uniform(0.1, 6, p)
        do, shift, noise = random_interventions(rng, p, point_mass=(k % 3 == 0))
        n = N_BIG if k % 8 else int(rng.choice([0, 1, 2, 7, 50]))
        seed = int(rng.integers(0, 2**31 - 1))
        mu, Sigma = reference(W, means, variances, do, shift, noise)
        tag = "case %d (p=%d n=%d do=%s shift=%s noise=%s)" % (k, p, n, sorted(do), sorted(shift), sorted(noise))

        lganm = sempler.LGANM(W, means, variances)
        X = lganm.sample(n, do_interventions=do, shift_interventions=shift, noise_interventions=noise,
                         random_state=seed)
        check_law("LGANM " + tag, X, mu, Sigma, n)
        X2 = lganm.sample(n, do_interventions=do, shift_interventions=shift, noise_interventions=noise,
                          random_state=seed)
        if not np.array_equal(np.asarray(X), np.asarray(X2)):
            fail("LGANM %s: not reproducible for a fixed seed" % tag)
        if n >= 50 and np.any(np.diag(Sigma) > 1e-9):
            X3 = lganm.sample(n, do_interventions=do, shift_interventions=shift, noise_interventions=noise,
                              random_state=seed + 1)
            if np.array_equal(np.asarray(X), np.asarray(X3)):
                fail("LGANM %s: sample does not depend on the seed" % tag)
        # unseeded call (global generator state)
        X4 = lganm.sample(n, do_interventions=do, shift_interventions=shift, noise_interventions=noise)
        check_law("LGANM unseeded " + tag, X4, mu, Sigma, n)

        # the ANM with the same linear assignments and normal noise terms
        assignments = []
        for j in range(p):
            pa = np.where(W[:, j] != 0)[0]
            assignments.append(None if len(pa) == 0 else (lambda x, w=W[pa, j].copy(): x @ w))
        anm = sempler.ANM(W, assignments, [sempler.noise.normal(m, v) for m, v in zip(means, variances)])
        as_fun = lambda d: {t: sempler.noise.normal(m, v) for t, (m, v) in d.items()}
        Y = anm.sample(n, do_interventions=as_fun(do), shift_interventions=as_fun(shift),
                       noise_interventions=as_fun(noise), random_state=seed)
        check_law("ANM " + tag, Y, mu, Sigma, n)
        Y2 = anm.sample(n, do_interventions=as_fun(do), shift_interventions=as_fun(shift),
                        noise_interventions=as_fun(noise), random_state=seed)
        if not np.array_equal(np.asarray(Y), np.asarray(Y2)):
            fail("ANM %s: not reproducible for a fixed seed" % tag)


def normal_cases(n_cases):
    rng = np.random.default_rng(BASE_SEED + 1)
    for k in range(n_cases):
        p = int(rng.integers(1, 7))
        rank = p if k % 2 else int(rng.integers(0, p + 1))  # every other covariance is singular
        B = rng.normal(size=(p, rank)) * 10 ** rng.uniform(-1.5, 1.5)
        Sigma = B @ B.T if rank else np.zeros((p, p))
        if k % 5 == 0 and p > 1:  # an exactly constant coordinate
            Sigma[0, :] = 0
            Sigma[:, 0] = 0
        mu = rng.uniform(-10, 10, p)
        n = N_BIG if k % 8 else int(rng.choice([0, 1, 3, 20]))
        seed = int(rng.integers(0, 2**31 - 1))
        dist = sempler.NormalDistribution(mu, Sigma)
        tag = "Normal case %d (p=%d rank=%d n=%d)" % (k, p, rank, n)
        X = dist.sample(n, random_state=seed)
        check_law(tag, X, mu, Sigma, n)
        if not np.array_equal(np.asarray(X), np.asarray(dist.sample(n, random_state=seed))):
            fail("%s: not reproducible for a fixed seed" % tag)
        if n >= 20 and rank > 0 and np.array_equal(np.asarray(X), np.asarray(dist.sample(n, random_state=seed + 1))):
            fail("%s: sample does not depend on the seed" % tag)
        # directions of zero population variance stay constant
        if n > 0 and rank < p:
            w, V = np.linalg.eigh(Sigma)
            null = V[:, w <= 1e-12 * max(w.max(), 1e-300)]
            scale = 1 + np.abs(mu).max() + np.sqrt(np.abs(Sigma).max())
            dev = np.abs((np.asarray(X) - mu) @ null).max() if null.size else 0.0
            if dev > 1e-5 * scale:
                fail("%s: null directions move by %g" % (tag, dev))
        check_law(tag + " unseeded", dist.sample(n), mu, Sigma, n)


if __name__ == "__main__":
    warnings.simplefilter("ignore")
    np.random.seed(BASE_SEED)
    n_scm, n_normal = {"A": (120, 200), "B": (220, 80), "C": (220, 80)}[FOCUS]
    scm_cases(n_scm)
    normal_cases(n_normal)
    if failures:
        print("C04 demo %s: %d failures" % (FOCUS, len(failures)))
        sys.exit(1)
    print("C04 demo %s: property holds on %d SCM and %d normal inputs" % (FOCUS, n_scm, n_normal))
    sys.exit(0)
