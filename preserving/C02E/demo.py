"""C02: every row of ANM.sample satisfies the structural assignments.

Independent reference: the noise / intervention draws are recorded by wrapping
the callables; afterwards every column of the result is recomputed from the
FINAL sample with a pure copy of the assignment and compared against the
recorded draws. No assumption is made on the order of the calls.
"""
import sys
import numpy as np
import sempler

rng = np.random.default_rng(20261005)
TOL = 1e-9


def random_dag(p):
    perm = rng.permutation(p)
    A = np.zeros((p, p))
    for a in range(p):
        for b in range(a + 1, p):
            if rng.random() < 0.5:
                A[perm[a], perm[b]] = rng.choice([-1, 1]) * rng.uniform(0.3, 2)
    return A


def make_assignment(k):
    """Pure, non-symmetric, non-linear function of the k parent columns."""
    c = rng.uniform(-1.5, 1.5, size=k)
    e = rng.integers(1, 3, size=k)
    kind = rng.integers(0, 4)

    def pure(x):
        x = np.asarray(x, dtype=float).reshape(len(x), k)
        out = np.zeros(len(x))
        for j in range(k):
            out = out + c[j] * (j + 1) * np.tanh(x[:, j]) ** e[j] + np.sin((j + 2) * x[:, j])
        return out

    if kind == 0:
        return pure, (lambda x: pure(x))                      # (n,)
    if kind == 1:
        return pure, (lambda x: pure(x).reshape(-1, 1))       # column
    if kind == 2:
        v = float(rng.normal())
        return (lambda x: np.full(len(x), v)), (lambda x: v)  # scalar
    return pure, (lambda x: pure(np.array(x, order='F')))


def recorder(log):
    kind = rng.integers(0, 3)
    loc, sc = rng.normal(), rng.uniform(0.5, 2)

    def draw(n):
        if kind == 0:
            d = rng.normal(loc, sc, n)
        elif kind == 1:
            d = rng.uniform(loc, loc + sc, n)
        else:
            d = rng.laplace(loc, sc, n)
        log.append(d.copy())
        return d
    return draw


def close(a, b):
    return a.shape == b.shape and np.allclose(a, b, rtol=TOL, atol=TOL)


def matches(col, logs, what):
    if not any(close(col, d) for d in logs):
        raise AssertionError(what)


def matches_sum(col, logs1, logs2, what):
    if not any(close(col, a + b) for a in logs1 for b in logs2):
        raise AssertionError(what)


def one_case(t):
    p = int(rng.integers(1, 7))
    n = int(rng.choice([0, 1, 2, 5, 40]))
    A = random_dag(p)
    if t % 3 == 1:
        A = (A != 0).astype(int)
    pures, funs, noise_logs, noises = [], [], [], []
    for i in range(p):
        k = int((A[:, i] != 0).sum())
        if k == 0:
            pures.append(None)
            funs.append(None)
        else:
            pure, fun = make_assignment(k)
            pures.append(pure)
            funs.append(fun)
        noise_logs.append([])
        noises.append(recorder(noise_logs[-1]))
    anm = sempler.ANM(A.copy(), list(funs), list(noises))
    # Interventions: do may overlap with the others, shift/noise are disjoint
    kinds = rng.integers(0, 5, size=p)
    do, shift, nz = {}, {}, {}
    logs = {'do': {}, 'shift': {}, 'noise': {}}
    for i in rng.permutation(p):
        i = int(i)
        if kinds[i] in (1, 4):
            logs['do'][i] = []
            do[i] = recorder(logs['do'][i])
        if kinds[i] == 2 or (kinds[i] == 4 and rng.random() < 0.5):
            logs['shift'][i] = []
            shift[i] = recorder(logs['shift'][i])
        elif kinds[i] in (3, 4):
            logs['noise'][i] = []
            nz[i] = recorder(logs['noise'][i])
    kwargs = {}
    if do or t % 2:
        kwargs['do_interventions'] = do
    if shift or t % 2:
        kwargs['shift_interventions'] = shift
    if nz or t % 2:
        kwargs['noise_interventions'] = nz
    if t % 5 == 0:
        kwargs['random_state'] = int(t)
    X = np.asarray(anm.sample(n, **kwargs))
    assert X.shape == (n, p), ("shape", X.shape, n, p)
    assert np.all(np.isfinite(X))
    for i in range(p):
        pa = np.flatnonzero(A[:, i] != 0)
        col = np.array(X[:, i], dtype=float)
        if i in do:
            matches(col, logs['do'][i], "do variable %d is not the intervention draw" % i)
            continue
        base = np.zeros(n) if len(pa) == 0 else pures[i](np.array(X[:, pa]))
        resid = col - base
        if i in shift:
            matches_sum(resid, noise_logs[i], logs['shift'][i], "shift variable %d" % i)
        elif i in nz:
            matches(resid, logs['noise'][i], "noise-intervened variable %d" % i)
        else:
            matches(resid, noise_logs[i], "variable %d is not assignment + noise" % i)


def main():
    for t in range(400):
        one_case(t)
    print("C02 holds on 400 random models")
    return 0


if __name__ == '__main__':
    sys.exit(main())
