"""C07 demo: mec / all_dags / is_consistent_extension against brute force.
Run: PYTHONPATH=<checkout> /venv/bin/python demo_A.py ; exit 0 iff the property holds."""
import itertools
import sys
import numpy as np
import sempler.utils as utils

rng = np.random.default_rng(2024)


def acyclic(B):
    B = B.copy()
    alive = list(range(len(B)))
    while alive:
        sinks = [i for i in alive if not any(B[i, j] for j in alive)]
        if not sinks:
            return False
        alive.remove(sinks[0])
    return True


def vstructs(B):
    """Unshielded colliders formed by the directed edges of boolean adjacency B."""
    p = len(B)
    out = set()
    for c in range(p):
        par = [i for i in range(p) if B[i, c] and not B[c, i]]
        for i, j in itertools.combinations(par, 2):
            if not (B[i, j] or B[j, i]):
                out.add((i, c, j))
    return out


def key(M):
    return tuple((np.asarray(M) != 0).astype(int).ravel())


def extensions(P):
    """Brute force: all consistent extensions of boolean PDAG P, as a set of keys."""
    p = len(P)
    D = P & ~P.T
    und = [(i, j) for i in range(p) for j in range(i + 1, p) if P[i, j] and P[j, i]]
    vs = vstructs(P)
    out = set()
    for bits in itertools.product([0, 1], repeat=len(und)):
        G = D.copy()
        for (i, j), b in zip(und, bits):
            if b:
                G[i, j] = True
            else:
                G[j, i] = True
        if acyclic(G) and vstructs(G) == vs:
            out.add(key(G))
    return out


def as_set(dags, what):
    keys = [key(d) for d in dags]
    assert len(keys) == len(set(keys)), "duplicates in " + what
    return set(keys)


def random_dag(p, dens):
    perm = rng.permutation(p)
    U = np.triu(rng.uniform(size=(p, p)) < dens, k=1)
    return U[np.ix_(perm, perm)]


def all_pdags(p):
    pairs = list(itertools.combinations(range(p), 2))
    for states in itertools.product(range(4), repeat=len(pairs)):
        P = np.zeros((p, p), dtype=bool)
        for (i, j), s in zip(pairs, states):
            P[i, j] = s in (1, 3)
            P[j, i] = s in (2, 3)
        yield P


def mec_reference(B):
    """All DAGs with the skeleton and v-structures of DAG B."""
    p = len(B)
    S = B | B.T
    vs = vstructs(B)
    edges = [(i, j) for i in range(p) for j in range(i + 1, p) if S[i, j]]
    out = set()
    for bits in itertools.product([0, 1], repeat=len(edges)):
        G = np.zeros((p, p), dtype=bool)
        for (i, j), b in zip(edges, bits):
            G[(i, j) if b else (j, i)] = True
        if acyclic(G) and vstructs(G) == vs:
            out.add(key(G))
    return out


n_checked = 0
# ---- 1. mec on DAGs: exhaustive p <= 4, sampled p = 5, 6; as 0/1 and as signed weights
dags = []
for p in (1, 2, 3, 4):
    dags += [P for P in all_pdags(p) if not (P & P.T).any() and acyclic(P)]
dags = [dags[i] for i in rng.permutation(len(dags))[:260]]
dags += [random_dag(5, rng.uniform(0.2, 0.9)) for _ in range(60)]
dags += [random_dag(6, rng.uniform(0.2, 0.6)) for _ in range(15)]
for B in dags:
    ref = mec_reference(B)
    assert key(B) in ref
    got = as_set(utils.mec(B.astype(int)), "mec")
    assert got == ref, ("mec", B.astype(int))
    W = B * rng.uniform(0.5, 2, size=B.shape) * rng.choice([-1, 1], size=B.shape)
    assert as_set(utils.mec(W), "mec (weights)") == ref, ("mec weights", W)
    assert as_set(utils.mec(B.astype(float), check_chain=False), "mec (no shortcut)") == ref
    n_checked += 1

# ---- 2. chain graphs up to p = 12: shortcut == general procedure == brute force
for p in range(1, 13):
    A = utils.chain_graph(p)
    ref = mec_reference(A != 0)
    assert len(ref) == p
    assert as_set(utils.mec(A), "chain shortcut") == ref
    assert as_set(utils.mec(A, check_chain=False), "chain general") == ref
    assert as_set(utils.chain_graph_MEC(p), "chain_graph_MEC") == ref
    W = A * rng.uniform(0.5, 2, size=A.shape) * rng.choice([-1, 1], size=A.shape)
    assert as_set(utils.mec(W), "weighted chain") == ref
    n_checked += 1

# ---- 3. all_dags / is_consistent_extension on PDAGs with acyclic directed part
pdags = []
for p in (1, 2, 3):
    pdags += [P for P in all_pdags(p) if acyclic(P & ~P.T)]
p4 = [P for P in all_pdags(4) if acyclic(P & ~P.T)]
pdags += [p4[i] for i in rng.permutation(len(p4))[:250]]
for _ in range(60):
    p = 5
    B = random_dag(p, rng.uniform(0.3, 0.9))
    P = B | (B.T & (rng.uniform(size=(p, p)) < rng.uniform(0.2, 0.9)))
    pdags.append(P)
n_empty = 0
for P in pdags:
    p = len(P)
    ref = extensions(P)
    res = utils.all_dags(P.astype(int))
    got = as_set(res, "all_dags")
    assert got == ref, ("all_dags", P.astype(int))
    assert len(res) == len(ref)
    n_empty += len(ref) == 0
    # membership: the members, plus random DAGs on the same nodes
    cands = [np.array(k).reshape(p, p).astype(bool) for k in ref]
    cands += [random_dag(p, rng.uniform(0.2, 0.9)) for _ in range(4)]
    if p > 1:
        S = P | P.T
        for _ in range(4):  # random acyclic orientations of the skeleton
            perm = rng.permutation(p)
            cands.append(S & (perm[:, None] < perm[None, :]))
    for G in cands:
        assert acyclic(G)
        verdict = utils.is_consistent_extension(G.astype(int), P.astype(int))
        assert bool(verdict) == (key(G) in ref), ("is_consistent_extension", G.astype(int), P.astype(int))
    n_checked += 1
assert n_empty > 0  # PDAGs without consistent extension were covered

# a graph which is not a DAG must be refused
try:
    utils.is_consistent_extension(np.array([[0, 1], [1, 0]]), np.array([[0, 1], [1, 0]]))
    sys.exit("is_consistent_extension accepted a graph with an undirected edge")
except ValueError:
    pass
try:
    utils.mec(np.array([[0, 1, 0], [0, 0, 1], [1, 0, 0]]))
    sys.exit("mec accepted a cyclic graph")
except ValueError:
    pass

print("C07 holds on %d inputs (%d PDAGs without extension)" % (n_checked, n_empty))
