"""C18: add_edges / remove_edges change exactly the requested number of edges.

Independent reference: acyclicity by DFS on python sets, counts on python sets.
Run as PYTHONPATH=<checkout> /venv/bin/python demo_B.py ; exits 0 when the property holds.
"""
import sys
import numpy as np
import sempler.utils as utils


def edge_set(M):
    M = np.asarray(M)
    return {(int(i), int(j)) for i in range(M.shape[0]) for j in range(M.shape[1]) if M[i, j] != 0}


def acyclic(edges, p):
    children = {i: [] for i in range(p)}
    for (i, j) in edges:
        children[i].append(j)
    state = [0] * p
    for root in range(p):
        if state[root]:
            continue
        stack = [(root, iter(children[root]))]
        state[root] = 1
        while stack:
            node, it = stack[-1]
            for c in it:
                if state[c] == 1:
                    return False
                if state[c] == 0:
                    state[c] = 1
                    stack.append((c, iter(children[c])))
                    break
            else:
                state[node] = 2
                stack.pop()
    return True


def random_dag(rng, p, density, weighted):
    perm = rng.permutation(p)
    A = np.zeros((p, p))
    for a in range(p):
        for b in range(a + 1, p):
            if rng.random() < density:
                A[perm[a], perm[b]] = rng.uniform(-2, 2) if weighted else 1
    if weighted:
        A[(A != 0) & (np.abs(A) < 0.05)] = 0.5
        return A
    return A.astype(int)


def check(cond, msg):
    if not cond:
        print("FAIL:", msg)
        sys.exit(1)


def check_one(A, seed, rng):
    p = len(A)
    E = edge_set(A)
    m = len(E)
    backup = A.copy()
    # ---- remove_edges
    counts = sorted({0, m, int(rng.integers(0, m + 1)), int(rng.integers(0, m + 1))})
    for k in counts:
        S = utils.remove_edges(A, k, random_state=seed)
        S2 = utils.remove_edges(A, k, random_state=seed)
        check(np.shape(S) == (p, p), "remove: shape")
        ES = edge_set(S)
        check(ES <= E, "remove: not a subgraph")
        check(len(ES) == m - k, "remove: wrong count %d vs %d" % (len(ES), m - k))
        check(ES == edge_set(S2), "remove: not deterministic in random_state")
        check((A == backup).all(), "remove: input modified")
    try:
        utils.remove_edges(A, m + 1, random_state=seed)
        check(False, "remove: no ValueError for m+1")
    except ValueError:
        pass
    # ---- add_edges
    can_add = p * (p - 1) // 2 - m
    counts = sorted({0, can_add, int(rng.integers(0, can_add + 1)), int(rng.integers(0, can_add + 1))})
    for k in counts:
        S = utils.add_edges(A, k, random_state=seed)
        S2 = utils.add_edges(A, k, random_state=seed)
        check(np.shape(S) == (p, p), "add: shape")
        ES = edge_set(S)
        check(E <= ES, "add: not a supergraph")
        check(len(ES) == m + k, "add: wrong count")
        check(all(i != j for (i, j) in ES), "add: self loop")
        check(all((j, i) not in ES for (i, j) in ES), "add: two-cycle")
        check(acyclic(ES, p), "add: cycle")
        check(ES == edge_set(S2), "add: not deterministic in random_state")
        check((A == backup).all(), "add: input modified")
    try:
        utils.add_edges(A, can_add + 1, random_state=seed)
        check(False, "add: no ValueError for can_add+1")
    except ValueError:
        pass
    check((A == backup).all(), "input modified")


def main():
    rng = np.random.default_rng(2024)
    n = 0
    for trial in range(300):
        p = int(rng.integers(2, 10))
        density = float(rng.choice([0.0, 0.2, 0.5, 0.8, 1.0]))
        A = random_dag(rng, p, density, weighted=bool(trial % 2))
        check_one(A, int(rng.integers(0, 10**6)), rng)
        n += 1
    # the seed matters: over many seeds more than one result appears
    A = random_dag(rng, 8, 0.4, False)
    m = int((A != 0).sum())
    if 0 < m:
        outs = {tuple(np.asarray(utils.remove_edges(A, 1, random_state=s)).astype(int).ravel()) for s in range(40)}
        check(len(outs) > 1 or m == 1, "remove: seed ignored")
    outs = {tuple(np.asarray(utils.add_edges(A, 1, random_state=s)).astype(int).ravel()) for s in range(40)}
    check(len(outs) > 1, "add: seed ignored")
    print("C18 holds on %d DAGs" % n)
    sys.exit(0)


if __name__ == "__main__":
    main()
