"""C14: models are immutable under use and caller data is never modified.

Random histories of sample / marginal / conditional / regress / mse calls on LGANM,
NormalDistribution and ANM models, plus graph-utility calls on caller-owned data.
Independent reference: snapshots (deep copies) taken right after construction, a
hand-written observational law (I - W^T)^-1, and fresh twin models. Exits 0 if OK.
"""
import sys
import copy
import numpy as np
import sempler
import sempler.utils as utils
import sempler.noise as noise

rng = np.random.default_rng(2026)
fails = []


def check(cond, msg):
    if not cond:
        fails.append(msg)


def close(a, b):
    return np.allclose(np.asarray(a, dtype=float), np.asarray(b, dtype=float), rtol=1e-8, atol=1e-10)


def random_dag(p):
    A = np.triu(rng.uniform(size=(p, p)) < 0.5, k=1)
    W = A * rng.uniform(0.5, 1.5, size=(p, p)) * rng.choice([-1, 1], size=(p, p))
    perm = rng.permutation(p)
    return W[perm, :][:, perm]


def random_interventions(p):
    def one():
        d = {}
        for t in rng.choice(p, size=rng.integers(0, p), replace=False):
            kind = rng.integers(3)
            key = int(t) if rng.integers(2) else np.int64(t)
            if kind == 0:
                d[key] = (float(rng.normal()), float(rng.uniform(0.1, 2)))
            elif kind == 1:
                d[key] = float(rng.normal())
            else:
                d[key] = (int(rng.integers(-3, 3)), int(rng.integers(0, 3)))
        return d
    return dict(do_interventions=one(), shift_interventions=one(), noise_interventions=one())


def reference_law(W, means, variances):
    p = len(W)
    A = np.linalg.inv(np.eye(p) - W.T)
    return A @ means, A @ np.diag(variances) @ A.T


def dist_history(dist, steps):
    """Random query calls on a NormalDistribution; mutate the outputs and the index inputs' copies."""
    p = dist.p
    for _ in range(steps):
        op = rng.integers(5)
        idx = list(rng.permutation(p))
        k = int(rng.integers(1, p)) if p > 1 else 1
        Y, X = idx[:k], idx[k:]
        Ya, Xa = np.array(Y), np.array(X, dtype=int)
        x = rng.normal(size=len(X))
        Y0, X0, x0 = Ya.copy(), Xa.copy(), x.copy()
        try:
            if op == 0:
                out = dist.sample(int(rng.integers(1, 5)), random_state=int(rng.integers(100)))
                outs = [out]
            elif op == 1:
                m = dist.marginal(Ya)
                outs = [m.mean, m.covariance]
            elif op == 2:
                c = dist.conditional(Ya, Xa, x)
                outs = [c.mean, c.covariance]
            elif op == 3:
                coefs, _ = dist.regress(Y[0], Xa)
                outs = [coefs]
            else:
                dist.mse(Y[0], Xa)
                outs = []
        except np.linalg.LinAlgError:  # degenerate law (zero-variance do-intervention): undefined query
            outs = []
        check((Ya == Y0).all() and (Xa == X0).all() and (x == x0).all(), "query modified its index/value arguments")
        for o in outs:
            check(not np.shares_memory(o, dist.mean) and not np.shares_memory(o, dist.covariance),
                  "query output aliases the distribution's storage")
            check(not np.shares_memory(o, x) and not np.shares_memory(o, Xa) and not np.shares_memory(o, Ya),
                  "query output aliases caller arrays")
            o[...] = 12345  # mutate the output


# ---------------------------------------------------------------- LGANM
for trial in range(120):
    p = int(rng.integers(1, 7))
    W = random_dag(p)
    if trial % 4 == 0:
        W = (W != 0).astype(int)
    means = rng.normal(size=p) if trial % 3 else rng.integers(-3, 3, size=p)
    variances = rng.uniform(0.5, 2, size=p) if trial % 5 else rng.integers(1, 4, size=p)
    W0, m0, v0 = W.copy(), means.copy(), variances.copy()
    model = sempler.LGANM(W, means, variances)
    twin = sempler.LGANM(W0.copy(), m0.copy(), v0.copy())
    check(not np.shares_memory(model.W, W) and not np.shares_memory(model.means, means)
          and not np.shares_memory(model.variances, variances), "LGANM constructor aliases caller arrays")
    # later changes to the caller's arrays do not affect the model
    W[...] = 7
    means[...] = 7
    variances[...] = 7
    check((model.W == W0).all() and (model.means == m0).all() and (model.variances == v0).all() and model.p == p,
          "LGANM changed when the caller changed its arrays")
    snap = (model.W.copy(), model.means.copy(), model.variances.copy(), model.W.dtype, model.means.dtype, model.variances.dtype)
    # history of calls
    for step in range(int(rng.integers(1, 6))):
        kw = random_interventions(p)
        kw0 = copy.deepcopy(kw)
        if rng.integers(2):
            d = model.sample(population=True, **kw)
            check(not np.shares_memory(d.mean, model.means) and not np.shares_memory(d.covariance, model.W),
                  "population distribution aliases the model")
            dist_history(d, 3)
        else:
            seed = int(rng.integers(1000))
            s = model.sample(int(rng.integers(1, 6)), random_state=seed, **kw)
            s[...] = -1
        check(all(list(kw[k].items()) == list(kw0[k].items()) for k in kw), "intervention dict modified")
        check(all(type(a) == type(b) for k in kw for a, b in zip(kw[k].values(), kw0[k].values())), "intervention dict values modified")
    # attributes as after construction
    check((model.W == snap[0]).all() and (model.means == snap[1]).all() and (model.variances == snap[2]).all()
          and model.p == p and (model.W.dtype, model.means.dtype, model.variances.dtype) == snap[3:],
          "LGANM attributes changed by use")
    # observational distribution as after construction, and equal to the hand-written law
    obs = model.sample(population=True)
    ref_mean, ref_cov = reference_law(W0.astype(float), m0.astype(float), v0.astype(float))
    check(close(obs.mean, ref_mean) and close(obs.covariance, ref_cov), "observational law changed after use")
    # results do not depend on earlier calls: used model == fresh twin
    kw = random_interventions(p)
    a, b = model.sample(population=True, **kw), twin.sample(population=True, **kw)
    check(close(a.mean, b.mean) and close(a.covariance, b.covariance), "interventional law depends on history")
    check(close(model.sample(4, random_state=5, **kw), twin.sample(4, random_state=5, **kw)), "seeded sample depends on history")
    # mutate a returned distribution, ask again
    a.mean[...] = 0
    a.covariance[...] = 0
    a2 = model.sample(population=True, **kw)
    check(close(a2.mean, b.mean) and close(a2.covariance, b.covariance), "mutating a result changed later results")

# ---------------------------------------------------------------- NormalDistribution
for trial in range(120):
    p = int(rng.integers(2, 7))
    B = rng.normal(size=(p, p))
    cov = B @ B.T + np.eye(p)
    mean = rng.normal(size=p)
    if trial % 4 == 0:
        mean, cov = list(mean), [list(r) for r in cov]
    mean0, cov0 = np.array(mean), np.array(cov)
    dist = sempler.NormalDistribution(mean, cov)
    twin = sempler.NormalDistribution(mean0.copy(), cov0.copy())
    if isinstance(mean, np.ndarray):
        check(not np.shares_memory(dist.mean, mean) and not np.shares_memory(dist.covariance, cov), "NormalDistribution aliases caller arrays")
        mean[...] = 3
        cov[...] = 3
    dist_history(dist, int(rng.integers(1, 8)))
    check((dist.mean == mean0).all() and (dist.covariance == cov0).all() and dist.p == p, "NormalDistribution changed by use")
    idx = list(rng.permutation(p))
    k = int(rng.integers(1, p))
    Y, X, x = idx[:k], idx[k:], rng.normal(size=p - k)
    c1, c2 = dist.conditional(Y, X, x), twin.conditional(Y, X, x)
    # independent reference for the conditional
    Sxx, Syx, Syy = cov0[np.ix_(X, X)], cov0[np.ix_(Y, X)], cov0[np.ix_(Y, Y)]
    ref_m = mean0[Y] + Syx @ np.linalg.inv(Sxx) @ (x - mean0[X])
    ref_c = Syy - Syx @ np.linalg.inv(Sxx) @ Syx.T
    check(close(c1.mean, c2.mean) and close(c1.covariance, c2.covariance), "conditional depends on history")
    check(np.allclose(c1.mean, ref_m, atol=1e-7) and np.allclose(c1.covariance, ref_c, atol=1e-7), "conditional wrong after use")
    m1 = dist.marginal(Y)
    check(close(m1.mean, mean0[Y]) and close(m1.covariance, Syy), "marginal wrong after use")
    r1, r2 = dist.regress(Y[0], X), twin.regress(Y[0], X)
    check(close(r1[0], r2[0]) and close(r1[1], r2[1]) and close(dist.mse(Y[0], X), twin.mse(Y[0], X)), "regress/mse depend on history")
    check(close(dist.sample(3, random_state=1), twin.sample(3, random_state=1)), "seeded sample depends on history")

# ---------------------------------------------------------------- ANM
for trial in range(60):
    p = int(rng.integers(1, 6))
    A = (random_dag(p) != 0).astype(int)
    A0 = A.copy()
    assignments = [None if A0[:, i].sum() == 0 else (lambda x: np.sum(np.tanh(x), axis=1)) for i in range(p)]
    noises = [noise.normal(0, 1) for _ in range(p)]
    assignments0, noises0 = list(assignments), list(noises)
    model = sempler.ANM(A, assignments, noises)
    twin = sempler.ANM(A0.copy(), list(assignments0), list(noises0))
    check(not np.shares_memory(model.A, A), "ANM aliases the caller's adjacency")
    A[...] = 1
    check((model.A == A0).all() and model.p == p, "ANM changed when the caller changed A")
    check(assignments == assignments0 and noises == noises0, "ANM constructor modified the caller's lists")
    ordering0 = list(model.ordering)
    for step in range(int(rng.integers(1, 5))):
        kw = {k: {int(t): noise.normal(1, 2) for t in rng.choice(p, size=rng.integers(0, p), replace=False)}
              for k in ("do_interventions", "shift_interventions", "noise_interventions")}
        keys0 = {k: list(v.items()) for k, v in kw.items()}
        s = model.sample(int(rng.integers(1, 5)), random_state=int(rng.integers(50)), **kw)
        s[...] = 9
        check(all(list(kw[k].items()) == keys0[k] for k in kw), "ANM intervention dict modified")
    check((model.A == A0).all() and model.p == p and list(model.ordering) == ordering0 and len(model.assignments) == p
          and len(model.noise_distributions) == p, "ANM attributes changed by use")
    if list(twin.ordering) == ordering0:
        check(close(model.sample(5, random_state=3), twin.sample(5, random_state=3)), "ANM seeded sample depends on history")

# ---------------------------------------------------------------- graph utilities
calls = [
    lambda G, i, j, S: utils.is_dag(G), lambda G, i, j, S: utils.topological_ordering(G),
    lambda G, i, j, S: utils.ancestors(i, G), lambda G, i, j, S: utils.descendants(i, G),
    lambda G, i, j, S: utils.pa(i, G), lambda G, i, j, S: utils.ch(i, G), lambda G, i, j, S: utils.neighbors(i, G),
    lambda G, i, j, S: utils.adj(i, G), lambda G, i, j, S: utils.na(i, j, G), lambda G, i, j, S: utils.is_clique(S, G),
    lambda G, i, j, S: utils.skeleton(G), lambda G, i, j, S: utils.moral_graph(G), lambda G, i, j, S: utils.vstructures(G),
    lambda G, i, j, S: utils.only_directed(G), lambda G, i, j, S: utils.only_undirected(G),
    lambda G, i, j, S: utils.dag_to_cpdag(G), lambda G, i, j, S: utils.transitive_closure(G),
    lambda G, i, j, S: utils.induced_subgraph(S, G), lambda G, i, j, S: utils.dag_to_icpdag(G, S),
    lambda G, i, j, S: utils.semi_directed_paths(i, j, G), lambda G, i, j, S: utils.directed_edges(G),
    lambda G, i, j, S: utils.undirected_edges(G), lambda G, i, j, S: utils.degrees(G),
    lambda G, i, j, S: utils.all_dags(utils.dag_to_cpdag(G)), lambda G, i, j, S: utils.pdag_to_dag(utils.dag_to_cpdag(G)),
    lambda G, i, j, S: utils.chain_component(i, G), lambda G, i, j, S: utils.edge_weights(G),
]
for trial in range(40):
    p = int(rng.integers(2, 6))
    G = (random_dag(p) != 0).astype(int)
    for n, call in enumerate(calls):
        Gc, i, j = G.copy(), int(rng.integers(p)), int(rng.integers(p))
        S = set(int(t) for t in rng.choice(p, size=rng.integers(0, p), replace=False))
        S0 = set(S)
        try:
            out = call(Gc, i, j, S)
        except Exception as e:  # whether a call is defined for this input is not part of C14
            out = None
        check((Gc == G).all() and Gc.dtype == G.dtype, "graph utility #%d modified its matrix" % n)
        check(S == S0, "graph utility #%d modified its set" % n)
        if isinstance(out, np.ndarray):
            check(not np.shares_memory(out, Gc), "graph utility #%d returned a view of its input" % n)

if fails:
    print("C14 VIOLATED: %d failures, e.g. %s" % (len(fails), sorted(set(fails))[:5]))
    sys.exit(1)
print("C14 holds on all inputs tried")
sys.exit(0)
