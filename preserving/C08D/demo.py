"""C08: dag_to_cpdag / pdag_to_cpdag return the essential graph of the Markov equivalence class.

Independent brute-force reference: a class is the set of all acyclic orientations of the skeleton with
the same v-structures (Verma & Pearl); the essential graph is the union of the members' edge sets.
Run as  PYTHONPATH=<checkout> /venv/bin/python demo_X.py  ; exits 0 iff the property holds.
"""
import itertools
import sys
import numpy as np
import sempler.utils as U

rng = np.random.default_rng(8)
failures = []


def fail(msg):
    failures.append(msg)
    if len(failures) <= 10:
        print("FAIL:", msg)


def acyclic(B):
    B = B.copy()
    alive = np.ones(len(B), dtype=bool)
    while alive.any():
        src = [i for i in np.flatnonzero(alive) if not B[alive, i].any()]
        if not src:
            return False
        alive[src] = False
    return True


def vstructs(B):
    """v-structures i -> k <- j (directed edges only, i, j non adjacent) of a PDAG pattern."""
    D = B & ~B.T
    S = B | B.T
    out = set()
    for k in range(len(B)):
        par = np.flatnonzero(D[:, k])
        for i, j in itertools.combinations(par, 2):
            if not S[i, j]:
                out.add((int(i), int(k), int(j)))
    return frozenset(out)


def extensions(P, target=None):
    """All consistent extensions of the PDAG pattern P (bool), by brute force."""
    D = P & ~P.T
    und = [(i, j) for i in range(len(P)) for j in range(i + 1, len(P)) if P[i, j] and P[j, i]]
    target = vstructs(P) if target is None else target
    found = []
    for bits in itertools.product((0, 1), repeat=len(und)):
        G = D.copy()
        for (i, j), b in zip(und, bits):
            if b:
                G[i, j] = True
            else:
                G[j, i] = True
        if acyclic(G) and vstructs(G) == target:
            found.append(G)
    return found


_class_cache = {}


def reference(B):
    """(essential graph, members) of the Markov equivalence class of the DAG pattern B."""
    key = ((B | B.T).tobytes(), len(B), vstructs(B))
    if key not in _class_cache:
        S = B | B.T
        members = extensions(S, vstructs(B))
        E = np.zeros_like(B)
        for G in members:
            E |= G
        _class_cache[key] = (E, members)
    return _class_cache[key]


def pattern(M):
    M = np.asarray(M)
    return M != 0


def presentations(B):
    yield "int", B.astype(int)
    yield "bool", B.copy()
    W = rng.uniform(0.5, 2, size=B.shape) * rng.choice([-1, 1], size=B.shape)
    yield "float", W * B


def check_dag(B, kinds=("int", "bool", "float")):
    E, members = reference(B)
    if not any((B == G).all() for G in members):
        fail("reference broken")
    for name, G in presentations(B):
        if name not in kinds:
            continue
        try:
            C = pattern(U.dag_to_cpdag(G))
        except Exception as e:
            fail("dag_to_cpdag raised %r on %s\n%s" % (e, name, B.astype(int)))
            continue
        if C.shape != E.shape or not (C == E).all():
            fail("dag_to_cpdag (%s) is not the essential graph\n%s\n%s" % (name, B.astype(int), C.astype(int)))


def check_pdag(P, kinds=("int",)):
    exts = extensions(P)
    for name, Q in presentations(P):
        if name not in kinds:
            continue
        try:
            C = pattern(U.pdag_to_cpdag(Q))
        except ValueError:
            if exts:
                fail("pdag_to_cpdag raised ValueError on an extendable PDAG\n%s" % P.astype(int))
            continue
        except Exception as e:
            fail("pdag_to_cpdag raised %r\n%s" % (e, P.astype(int)))
            continue
        if not exts:
            fail("pdag_to_cpdag did not raise on a PDAG without extension\n%s" % P.astype(int))
        elif not (C == reference(exts[0])[0]).all():
            fail("pdag_to_cpdag (%s) is not the essential graph\n%s" % (name, P.astype(int)))


def all_pdags(p, states):
    pairs = list(itertools.combinations(range(p), 2))
    for conf in itertools.product(states, repeat=len(pairs)):
        P = np.zeros((p, p), dtype=bool)
        for (i, j), s in zip(pairs, conf):
            if s & 1:
                P[i, j] = True
            if s & 2:
                P[j, i] = True
        if acyclic(P & ~P.T):
            yield P


def random_dag(p, m):
    perm = rng.permutation(p)
    pairs = list(itertools.combinations(range(p), 2))
    B = np.zeros((p, p), dtype=bool)
    for k in rng.choice(len(pairs), size=min(m, len(pairs)), replace=False):
        i, j = pairs[k]
        B[perm[i], perm[j]] = True
    return B


n_dags = n_pdags = 0
# 1. all DAGs, p <= 4, in three presentations; a sample for p = 5
for p in (1, 2, 3, 4):
    for B in all_pdags(p, (0, 1, 2)):
        check_dag(B)
        n_dags += 1
dags5 = list(all_pdags(5, (0, 1, 2)))
assert len(dags5) == 29281
for k in rng.choice(len(dags5), size=400, replace=False):
    check_dag(dags5[k], kinds=("int", "float") if k % 2 else ("bool",))
    n_dags += 1
# 2. larger sparse DAGs
for _ in range(40):
    p = int(rng.integers(6, 9))
    check_dag(random_dag(p, int(rng.integers(3, 11))), kinds=("float", "bool"))
    n_dags += 1
# 3. every class: the consistent extensions of the CPDAG are exactly the class
for E, members in list(_class_cache.values()):
    C = pattern(U.dag_to_cpdag(members[-1].astype(int)))
    got = sorted(G.tobytes() for G in extensions(C))
    if got != sorted(G.tobytes() for G in members):
        fail("extensions of the CPDAG differ from the class\n%s" % C.astype(int))
# 4. all PDAGs with acyclic directed part, p <= 4; sampled p = 5, 6
for p in (1, 2, 3, 4):
    for k, P in enumerate(all_pdags(p, (0, 1, 2, 3))):
        check_pdag(P, kinds=("int",) if k % 5 else ("int", "bool", "float"))
        n_pdags += 1
for _ in range(300):
    p = int(rng.integers(5, 7))
    B = random_dag(p, int(rng.integers(2, 9)))
    if rng.random() < 0.5:
        B = reference(B)[0].copy()  # start from the CPDAG, orient / unorient a few edges
    P = B | (B.T & (rng.random(B.shape) < 0.4))
    check_pdag(P, kinds=("int", "float"))
    n_pdags += 1

print("checked %d DAGs (%d classes), %d PDAGs: %d failures" % (n_dags, len(_class_cache), n_pdags, len(failures)))
sys.exit(1 if failures else 0)
