"""C10 demo: imec / dag_to_icpdag / pdag_to_icpdag are exact.

Independent reference: brute force over all orientations of the
skeleton (Verma-Pearl: same skeleton + same v-structures), filtered by
the parents of the targets. Exits 0 iff the property holds.
"""
import itertools
import sys
import numpy as np
import sempler.utils as utils


def acyclic(B):
    B = B.copy()
    nodes = list(range(len(B)))
    while nodes:
        src = [v for v in nodes if not B[nodes, v].any()]
        if not src:
            return False
        nodes = [v for v in nodes if v not in src]
    return True


def vstr(B):
    p = len(B)
    out = set()
    for c in range(p):
        par = [i for i in range(p) if B[i, c]]
        for i, j in itertools.combinations(par, 2):
            if not B[i, j] and not B[j, i]:
                out.add((i, c, j))
    return out


def ref_imec(B, I):
    """Set of members (as bytes keys -> bool matrix)."""
    p = len(B)
    edges = [(i, j) for i in range(p) for j in range(i + 1, p) if B[i, j] or B[j, i]]
    vs = vstr(B)
    I = sorted(I)
    members = []
    for flips in itertools.product([0, 1], repeat=len(edges)):
        M = np.zeros((p, p), dtype=bool)
        for (i, j), f in zip(edges, flips):
            if f:
                M[j, i] = True
            else:
                M[i, j] = True
        if (M[:, I] != B[:, I]).any():
            continue
        if not acyclic(M) or vstr(M) != vs:
            continue
        members.append(M)
    return members


def key(M):
    return (np.asarray(M) != 0).astype(np.uint8).tobytes()


def check(W, I, rng, check_members=True):
    B = W != 0
    p = len(B)
    ref = ref_imec(B, I)
    refkeys = {key(M) for M in ref}
    assert len(refkeys) == len(ref)
    ess = np.zeros((p, p), dtype=bool)
    for M in ref:
        ess |= M
    for cc in (True, False):
        got = utils.imec(W.copy(), set(I), check_chain=cc)
        gk = [key(M) for M in got]
        assert len(gk) == len(set(gk)), "duplicate members"
        assert set(gk) == refkeys, "imec differs from brute force"
        for M in got:
            M = np.asarray(M)
            assert M.shape == (p, p)
    P = utils.dag_to_icpdag(W.copy(), set(I))
    assert np.asarray(P).shape == (p, p)
    assert ((np.asarray(P) != 0) == ess).all(), "icpdag is not the essential graph"
    if check_members:
        pick = ref if len(ref) <= 6 else [ref[k] for k in rng.choice(len(ref), 6, replace=False)]
        for M in pick:
            for arr in (M.astype(float), M.astype(int)):
                Q = utils.dag_to_icpdag(arr, set(I))
                assert ((np.asarray(Q) != 0) == ess).all(), "icpdag depends on the member"
    # pdag_to_icpdag: from the icpdag itself fine iff no undirected edge at a target
    und = ess & ess.T
    bad = [t for t in I if und[t].any()]
    assert not bad, "essential graph has undirected edge at target"
    Q = utils.pdag_to_icpdag(ess.astype(int), set(I))
    assert ((np.asarray(Q) != 0) == ess).all()
    return refkeys, ess


def rand_dag(p, dens, rng, weights):
    perm = rng.permutation(p)
    U = np.triu(rng.uniform(size=(p, p)) < dens, k=1)
    B = np.zeros((p, p), dtype=bool)
    B[np.ix_(perm, perm)] = U
    if weights == 0:
        return B.astype(float)
    if weights == 1:
        return B.astype(int)
    W = rng.uniform(0.5, 2, size=(p, p)) * rng.choice([-1, 1], size=(p, p))
    return W * B


def main():
    rng = np.random.default_rng(10)
    n = 0
    # exhaustive p <= 3
    for p in (1, 2, 3):
        pairs = [(i, j) for i in range(p) for j in range(p) if i != j]
        for bits in itertools.product([0, 1], repeat=len(pairs)):
            B = np.zeros((p, p))
            for (i, j), b in zip(pairs, bits):
                B[i, j] = b
            if (B * B.T).any() or not acyclic(B != 0):
                continue
            for k in range(p + 1):
                for I in itertools.combinations(range(p), k):
                    check(B, I, rng)
                    n += 1
    # sampled p = 4..6
    for it in range(260):
        p = int(rng.integers(4, 7))
        W = rand_dag(p, rng.choice([0.3, 0.5, 0.8, 1.0] if p < 6 else [0.3, 0.5, 0.7]), rng, it % 3)
        k = int(rng.integers(0, p + 1))
        I = tuple(int(t) for t in rng.choice(p, size=k, replace=False))
        keys, ess = check(W, I, rng, check_members=(it % 4 == 0))
        n += 1
        # consequences
        B = W != 0
        if it % 5 == 0:
            mk, cp = check(W, (), rng, False)
            assert {key(M) for M in utils.mec(W.copy())} == mk
            assert ((np.asarray(utils.dag_to_cpdag(W.copy())) != 0) == cp).all()
            ak, ae = check(W, tuple(range(p)), rng, False)
            assert ak == {key(B)} and (ae == B).all()
            assert keys <= mk
            if k < p:
                extra = [t for t in range(p) if t not in I][0]
                bk, _ = check(W, I + (extra,), rng, False)
                assert bk <= keys, "enlarging I enlarged the class"
            # ValueError for undirected edges at a target
            und = cp & cp.T
            for t in range(p):
                if und[t].any():
                    try:
                        utils.pdag_to_icpdag(cp.astype(int), {t})
                    except ValueError:
                        pass
                    else:
                        raise AssertionError("pdag_to_icpdag did not raise")
    # chain graphs up to p = 12: shortcut vs general path vs closed form
    for p in range(1, 13):
        A = utils.chain_graph(p)
        for rep in range(4):
            k = [0, 1, p, int(rng.integers(0, p + 1))][rep]
            k = min(k, p)
            I = set(int(t) for t in rng.choice(p, size=k, replace=False))
            # closed form: member with root r keeps parents of t iff r < t (t > 0) / r == 0 (t == 0)
            roots = [r for r in range(p) if all((r < t) if t > 0 else (r == 0) for t in I)]
            exp = set()
            ess = np.zeros((p, p), dtype=bool)
            for r in roots:
                M = np.zeros((p, p), dtype=bool)
                for j in range(r, 0, -1):
                    M[j, j - 1] = True
                for j in range(r, p - 1):
                    M[j, j + 1] = True
                exp.add(key(M))
                ess |= M
            a = utils.imec(A.copy(), set(I))
            b = utils.imec(A.copy(), set(I), check_chain=False)
            c = utils.chain_graph_IMEC(A.copy(), set(I))
            for got in (a, b, c):
                gk = [key(M) for M in got]
                assert len(gk) == len(set(gk)) and set(gk) == exp, "chain imec wrong"
            P = utils.dag_to_icpdag(A.copy(), set(I))
            assert ((np.asarray(P) != 0) == ess).all()
            n += 1
    print("C10 demo OK on %d inputs" % n)
    return 0


if __name__ == "__main__":
    sys.exit(main())
