"""C06 demo: population regression / MSE are the least-squares solution.

Exact reference: Gaussian elimination over fractions.Fraction on covariances whose
entries are exactly representable floats. Exits 0 when the property holds.
"""
import sys
import itertools
from fractions import Fraction as F
import numpy as np
import sempler

FOCUS = "B"   # A: badly scaled covariances, B: input forms / call history, C: LGANM + interventions
SEED = {"A": 11, "B": 22, "C": 33}[FOCUS]
N_COV = {"A": 220, "B": 120, "C": 60}[FOCUS]
N_SCM = {"A": 60, "B": 60, "C": 220}[FOCUS]
TOL = 1e-9
rng = np.random.default_rng(SEED)
failures = []


def check(cond, msg):
    if not cond:
        failures.append(msg)
        if len(failures) < 15:
            print("FAIL:", msg)


def fsolve(M, b):
    """Exact solve M x = b (lists of Fractions)."""
    n = len(b)
    M = [row[:] + [b[i]] for i, row in enumerate(M)]
    for c in range(n):
        piv = next(r for r in range(c, n) if M[r][c] != 0)
        M[c], M[piv] = M[piv], M[c]
        for r in range(n):
            if r != c and M[r][c] != 0:
                f = M[r][c] / M[c][c]
                M[r] = [a - f * b_ for a, b_ in zip(M[r], M[c])]
    return [M[i][n] / M[i][i] for i in range(n)]


def exact_fit(mean, cov, y, S):
    """Exact (coefs over S, intercept, mse) with Fractions."""
    S = list(S)
    if S:
        b = fsolve([[F(cov[i, j]) for j in S] for i in S], [F(cov[y, j]) for j in S])
    else:
        b = []
    icpt = F(mean[y]) - sum(bi * F(mean[j]) for bi, j in zip(b, S))
    mse = F(cov[y, y]) - sum(bi * F(cov[y, j]) for bi, j in zip(b, S))
    return b, icpt, mse


def random_cov(p, bad_scale):
    """Positive definite, entries exact in floating point: D (G G' + p I) D."""
    G = rng.integers(-3, 4, size=(p, p)).astype(float)
    C = G @ G.T + p * np.eye(p)
    e = rng.integers(-40, 41, size=p) if bad_scale else rng.integers(-2, 3, size=p)
    d = 2.0 ** e
    return (C * d[:, None]) * d[None, :], d


def forms(S):
    """The same regressor set presented in different ways."""
    S = list(S)
    out = [S, np.array(S, dtype=int)]
    if len(S) == 1:
        out += [S[0], np.int64(S[0])]
    if S and S == list(range(S[0], S[0] + len(S))):
        out.append(range(S[0], S[0] + len(S)))
    return out


def check_distribution(mean, cov, d, tag):
    p = len(mean)
    dist = sempler.NormalDistribution(mean, cov)
    other = sempler.NormalDistribution(mean + rng.integers(-8, 9, size=p) / 4.0, cov)
    y = int(rng.integers(p))
    k = int(rng.integers(0, p + 1))
    S = [int(s) for s in rng.permutation(p)[:k]]
    if rng.random() < 0.25:
        S = sorted(S)
    b_ex, icpt_ex, mse_ex = exact_fit(mean, cov, y, S)
    vy = float(cov[y, y])
    for Sf in forms(S):
        coefs, icpt = dist.regress(y, Sf)
        coefs = np.array(coefs, dtype=float)
        check(coefs.shape == (p,), "%s shape" % tag)
        outside = [j for j in range(p) if j not in S]
        check(all(coefs[j] == 0 for j in outside), "%s nonzero outside S" % tag)
        # coefficients against the exact ones, in units of sd(y)/sd(x_j)
        for bj, j in zip(b_ex, S):
            check(abs(coefs[j] - float(bj)) * d[j] / d[y] < TOL * 1e2, "%s coef %s %s" % (tag, y, S))
        # normal equations, evaluated exactly on the returned floats
        mu_res = F(float(mean[y])) - sum(F(float(coefs[j])) * F(float(mean[j])) for j in S) - F(float(icpt))
        scale = abs(float(mean[y])) + sum(abs(float(mean[j])) * d[y] / d[j] for j in S) * p + d[y]
        check(abs(float(mu_res)) < TOL * scale, "%s residual mean %s %s" % (tag, y, S))
        for s in S:
            c = F(float(cov[y, s])) - sum(F(float(coefs[j])) * F(float(cov[j, s])) for j in S)
            check(abs(float(c)) < TOL * 1e2 * d[y] * d[s] * p, "%s residual cov %s %s" % (tag, y, S))
        check(abs(float(icpt) - float(icpt_ex)) < TOL * 1e2 * scale, "%s intercept" % tag)
        m = float(dist.mse(y, Sf))
        check(abs(m - float(mse_ex)) < TOL * vy, "%s mse %s %s: %r vs %r" % (tag, y, S, m, float(mse_ex)))
        check(m > -TOL * vy, "%s negative mse" % tag)
        check(abs(float(other.mse(y, Sf)) - m) < TOL * vy, "%s mse depends on means" % tag)
        co, _ = other.regress(y, Sf)
        check(np.allclose(np.array(co, dtype=float) * d / d[y], coefs * d / d[y], rtol=0, atol=TOL),
              "%s coefs depend on means" % tag)
    # order invariance and monotonicity
    m = float(dist.mse(y, S))
    for _ in range(3):
        perm = [S[i] for i in rng.permutation(len(S))]
        check(abs(float(dist.mse(y, perm)) - m) < TOL * vy, "%s mse depends on order" % tag)
        cp, ip = dist.regress(y, perm)
        c0, i0 = dist.regress(y, S)
        check(np.allclose(np.array(cp) * d / d[y], np.array(c0) * d / d[y], rtol=0, atol=TOL), "%s coefs order" % tag)
    rest = [j for j in range(p) if j not in S]
    prev = m
    for j in rest:
        S = S + [j]
        cur = float(dist.mse(y, S))
        check(cur <= prev + TOL * vy, "%s mse increased when adding %d" % (tag, j))
        prev = cur
    check(abs(float(dist.mse(y, y))) <= TOL * vy, "%s mse(y, y) != 0" % tag)
    check(abs(float(dist.mse(y, [])) - vy) <= TOL * vy, "%s mse(y, []) != var" % tag)
    # no dependence on the call history: ask again, also after changing the public attributes
    a1 = dist.regress(y, S)
    a2 = dist.regress(y, S)
    check(np.array_equal(np.array(a1[0]), np.array(a2[0])) and float(a1[1]) == float(a2[1]), "%s history" % tag)
    dist.mean = np.array(other.mean)
    b1 = dist.regress(y, S)
    b2 = other.regress(y, S)
    check(np.array_equal(np.array(b1[0]), np.array(b2[0])) and float(b1[1]) == float(b2[1]), "%s stale state" % tag)


def random_scm(p):
    order = rng.permutation(p)
    W = np.zeros((p, p))
    for a in range(p):
        for b in range(a + 1, p):
            if rng.random() < 0.5:
                W[order[a], order[b]] = rng.choice([-1, 1]) * rng.integers(2, 9) / 4.0
    means = rng.integers(-8, 9, size=p) / 4.0
    variances = rng.integers(1, 9, size=p) / 4.0
    return W, means, variances


def check_scm(tag):
    p = int(rng.integers(2, 7))
    W, means, variances = random_scm(p)
    scm = sempler.LGANM(W, means, variances)
    W, means, variances = W.copy(), means.copy(), variances.copy()
    W0, m0, v0 = W.copy(), means.copy(), variances.copy()
    kwargs = {}
    mode = int(rng.integers(4))
    targets = [int(t) for t in rng.permutation(p)[:rng.integers(1, 3)]]
    params = {t: (float(rng.integers(-8, 9) / 4.0), float(rng.integers(1, 9) / 4.0)) for t in targets}
    if mode == 1:
        kwargs["do_interventions"] = params
        for t, (m, v) in params.items():
            W[:, t] = 0
            means[t], variances[t] = m, v
    elif mode == 2:
        kwargs["shift_interventions"] = params
        for t, (m, v) in params.items():
            means[t] += m
            variances[t] += v
    elif mode == 3:
        kwargs["noise_interventions"] = params
        for t, (m, v) in params.items():
            means[t], variances[t] = m, v
    dist = scm.sample(population=True, **kwargs)
    for i in range(p):
        pa = [int(j) for j in np.where(W[:, i] != 0)[0]]
        for Sf in ([pa, np.array(pa, dtype=int)] + ([pa[::-1]] if len(pa) > 1 else [])):
            coefs, icpt = dist.regress(i, Sf)
            check(np.allclose(np.array(coefs, dtype=float), W[:, i], rtol=0, atol=1e-7), "%s weights" % tag)
            check(abs(float(icpt) - means[i]) < 1e-7, "%s intercept" % tag)
            check(abs(float(dist.mse(i, Sf)) - variances[i]) < 1e-7, "%s noise variance" % tag)
        # the original parents of a do-target carry no information
        if mode == 1 and i in params:
            opa = [int(j) for j in np.where(scm.W[:, i] != 0)[0]]
            coefs, icpt = dist.regress(i, opa)
            check(np.allclose(np.array(coefs, dtype=float), 0, atol=1e-7), "%s do-target coefs" % tag)
            check(abs(float(dist.mse(i, opa)) - variances[i]) < 1e-7, "%s do-target mse" % tag)
    # the model itself is untouched by population sampling
    check(np.array_equal(scm.W, W0) and np.array_equal(scm.means, m0) and np.array_equal(scm.variances, v0),
          "%s model changed" % tag)


for n in range(N_COV):
    p = int(rng.integers(1, 7))
    bad = (FOCUS == "A" and n % 4 != 0) or (FOCUS != "A" and n % 4 == 0)
    cov, d = random_cov(p, bad)
    mean = rng.integers(-8, 9, size=p) / 4.0 * (d if n % 2 else 1.0)
    check_distribution(mean, cov, d, "cov#%d" % n)
for n in range(N_SCM):
    check_scm("scm#%d" % n)

print("demo_%s: %d failures" % (FOCUS, len(failures)))
sys.exit(1 if failures else 0)
