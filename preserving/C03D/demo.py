"""C03: acyclicity test / topological ordering / constructors are exact for any real weights.
Reference: pure-Python Warshall closure on the pattern of non-zeros (plus brute force over
permutations for small p). Exit 0 iff the property holds on all generated inputs."""
import sys, types, itertools, random
import numpy as np

sys.modules.setdefault("drf", types.ModuleType("drf"))  # BayesianNetwork needs no backend
import sempler
import sempler.utils as utils
try:
    import sempler.semi as semi
    BN = semi.BayesianNetwork
except Exception:
    BN = None

rnd = random.Random(20261005)
MAGS = [1.0, 0.5, 3.0, 1e-300, 1e300, 5e-324, 1e-13, 7.25, 2.0 ** -40]


def ref_acyclic(W):
    p = len(W)
    R = [[W[i][j] != 0 for j in range(p)] for i in range(p)]
    for k in range(p):
        for i in range(p):
            if R[i][k]:
                for j in range(p):
                    if R[k][j]:
                        R[i][j] = True
    return not any(R[i][i] for i in range(p))


def brute_acyclic(W):
    p = len(W)
    edges = [(i, j) for i in range(p) for j in range(p) if W[i][j] != 0]
    for perm in itertools.permutations(range(p)):
        pos = {v: k for k, v in enumerate(perm)}
        if all(pos[i] < pos[j] for i, j in edges):
            return True
    return False


def random_matrix(p):
    kind = rnd.randrange(6)
    W = [[0.0] * p for _ in range(p)]
    perm = list(range(p)); rnd.shuffle(perm)
    dens = rnd.choice([0.1, 0.3, 0.6, 1.0])
    for a in range(p):
        for b in range(a + 1, p):
            if rnd.random() < dens:
                W[perm[a]][perm[b]] = rnd.choice([-1, 1]) * rnd.choice(MAGS)
    if kind == 1 and p >= 1:          # (negative) self-loop
        i = rnd.randrange(p); W[i][i] = -rnd.choice(MAGS)
    elif kind == 2 and p >= 2:        # two-cycle whose weights cancel
        i, j = rnd.sample(range(p), 2); w = rnd.choice(MAGS); W[i][j] = w; W[j][i] = -w
    elif kind == 3 and p >= 3:        # long cycle with non-positive total weight
        k = rnd.randrange(3, p + 1); nodes = rnd.sample(range(p), k)
        for a in range(k):
            W[nodes[a]][nodes[(a + 1) % k]] = -rnd.choice(MAGS)
    elif kind == 4 and p >= 2:        # one random extra edge (may or may not close a cycle)
        i, j = rnd.sample(range(p), 2); W[i][j] = -rnd.choice(MAGS)
    elif kind == 5 and p >= 3:        # parents whose weights cancel
        c = perm[-1]; a, b = perm[0], perm[1]; W[a][c] = 2.5; W[b][c] = -2.5
    return W


def presentations(W):
    A = np.array(W, dtype=float).reshape(len(W), len(W))
    yield A
    yield np.asfortranarray(A)
    big = np.zeros((2 * len(W), 2 * len(W))); big[::2, ::2] = A
    yield big[::2, ::2]
    if np.all(np.abs(A) < 1e15) and np.all((A == 0) | (np.abs(A) >= 1)):
        yield A.astype(int)
    ro = A.copy(); ro.setflags(write=False)
    yield ro


def check_order(order, A):
    p = len(A)
    order = list(order)
    assert sorted(int(i) for i in order) == list(range(p)), order
    pos = {int(v): k for k, v in enumerate(order)}
    for i, j in zip(*np.nonzero(A)):
        assert pos[int(i)] < pos[int(j)], (order, i, j)


def raises_value_error(f):
    try:
        f()
    except ValueError:
        return True
    return False


def check(W):
    p = len(W)
    acyclic = ref_acyclic(W)
    if p <= 5:
        assert acyclic == brute_acyclic(W)
    for A in presentations(W):
        before = A.copy()
        assert bool(utils.is_dag(A)) == acyclic, (A, acyclic)
        if acyclic:
            check_order(utils.topological_ordering(A), A)
            check_order(utils.topological_ordering(A), A)  # asking again must not matter
        else:
            assert raises_value_error(lambda: utils.topological_ordering(A)), A
        assert (A == before).all()
    A = np.array(W, dtype=float).reshape(p, p)
    data = [np.zeros((3, p)), np.ones((2, p))]
    if acyclic:
        m = sempler.LGANM(A, (0, 0), (1, 1)); assert (m.W == A).all() and m.p == p
        a = sempler.ANM(A, [None] * p, [None] * p); assert a.p == p
        check_order(a.ordering, A)
        if BN is not None:
            b = BN(A, data); assert b.p == p; check_order(b._ordering, A)
    else:
        assert raises_value_error(lambda: sempler.LGANM(A, (0, 0), (1, 1)))
        assert raises_value_error(lambda: sempler.ANM(A, [None] * p, [None] * p))
        if BN is not None:
            assert raises_value_error(lambda: BN(A, data))
    return acyclic


count = {True: 0, False: 0}
for p in range(1, 4):                       # exhaustive patterns for p <= 3
    for bits in itertools.product([0, 1], repeat=p * p):
        W = [[(-1) ** (i + j) * rnd.choice(MAGS) * bits[i * p + j] for j in range(p)] for i in range(p)]
        count[check(W)] += 1
for _ in range(400):
    count[check(random_matrix(rnd.randrange(1, 10)))] += 1
for p in (40, 120):                         # larger: permuted dense DAG, then one back edge
    perm = list(range(p)); rnd.shuffle(perm)
    W = [[0.0] * p for _ in range(p)]
    for a in range(p):
        for b in range(a + 1, p):
            if b == a + 1 or rnd.random() < 0.2:
                W[perm[a]][perm[b]] = rnd.choice([-1, 1]) * rnd.choice(MAGS)
    assert check(W)
    W[perm[-1]][perm[0]] = -1e-300
    assert not check(W)
# buffer reuse / call history: the same array object modified in place between calls
for _ in range(100):
    p = rnd.randrange(2, 8)
    A = np.zeros((p, p)); perm = list(range(p)); rnd.shuffle(perm)
    for a in range(p - 1):
        A[perm[a], perm[a + 1]] = rnd.choice([-1, 1]) * rnd.choice(MAGS)
    assert utils.is_dag(A); check_order(utils.topological_ordering(A), A)
    A[perm[-1], perm[0]] = -A[perm[0], perm[1]]
    assert not utils.is_dag(A) and raises_value_error(lambda: utils.topological_ordering(A))
    assert raises_value_error(lambda: sempler.LGANM(A, (0, 0), (1, 1)))
    A[perm[-1], perm[0]] = 0
    assert utils.is_dag(A); check_order(utils.topological_ordering(A), A)
    assert utils.is_dag(-A * 1e-200) and not utils.is_dag(A + A.T)
    order = utils.topological_ordering(A); order.append(99)  # result is the caller's to modify
    check_order(utils.topological_ordering(A), A)
assert count[True] > 100 and count[False] > 100, count
print("C03 holds on", count, "semi checked:", BN is not None)
