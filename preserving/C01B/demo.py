"""C01 demo: the population law of LGANM.sample equals the Gaussian law of the
solution of the intervened structural equations (exact rational reference).
Run as: PYTHONPATH=<checkout> /venv/bin/python demo_B.py ; exits 0 if the property holds."""
import sys
import random
from fractions import Fraction as Fr
import numpy as np
import sempler

N_MODELS = 400
TOL = 1e-9  # relative to the largest exact entry (plus 1)
rnd = random.Random(977331)


def rand_number(kind):
    """A python number: int or float, any sign, a few magnitudes."""
    mag = rnd.choice([1e-3, 0.1, 1, 1, 1, 10, 40])
    x = rnd.uniform(-1, 1) * mag
    if kind == 'int':
        x = rnd.randint(-6, 6)
        return x if x != 0 else 1
    return x


def rand_dag(p, kind):
    perm = list(range(p))
    rnd.shuffle(perm)
    dens = rnd.choice([0.2, 0.5, 0.9])
    W = [[0] * p for _ in range(p)]
    for a in range(p):
        for b in range(a + 1, p):
            if rnd.random() < dens:
                W[perm[a]][perm[b]] = rand_number(kind)
    return np.array(W, dtype=int if kind == 'int' else float).reshape(p, p), perm


def rand_param(nonneg_var=True):
    """(mean, var) tuple or scalar, ints or floats."""
    form = rnd.choice(['tuple', 'tuple', 'int', 'float'])
    if form == 'int':
        return rnd.randint(-5, 5)
    if form == 'float':
        return rnd.uniform(-5, 5)
    m = rnd.choice([rnd.randint(-5, 5), rnd.uniform(-5, 5)])
    v = rnd.choice([0, rnd.randint(0, 4), rnd.uniform(0, 4), 0.0])
    return (m, v)


def as_mv(param):
    if isinstance(param, tuple):
        return Fr(param[0]), Fr(param[1])
    return Fr(param), Fr(0)  # scalar = point mass


def exact_law(W, means, variances, perm, do, noise, shift):
    """Exact mean / covariance of the solution of the intervened equations."""
    p = len(W)
    mu = [Fr(int(x)) if isinstance(x, (int, np.integer)) else Fr(float(x)) for x in means]
    var = [Fr(int(x)) if isinstance(x, (int, np.integer)) else Fr(float(x)) for x in variances]
    Wx = [[Fr(int(W[i, j])) if W.dtype.kind == 'i' else Fr(float(W[i, j])) for j in range(p)] for i in range(p)]
    for j in range(p):
        if j in do:  # do overrides noise overrides shift
            mu[j], var[j] = as_mv(do[j])
            for i in range(p):
                Wx[i][j] = Fr(0)
        elif j in noise:
            mu[j], var[j] = as_mv(noise[j])
        elif j in shift:
            m, v = as_mv(shift[j])
            mu[j] += m
            var[j] += v
    # X_j = sum_i W[i,j] X_i + N_j, solved along the (known) causal order
    coef = [[Fr(0)] * p for _ in range(p)]  # X = coef @ N
    for j in perm:
        coef[j][j] = Fr(1)
        for i in range(p):
            if Wx[i][j] != 0:
                for k in range(p):
                    coef[j][k] += Wx[i][j] * coef[i][k]
    mean = [sum(coef[j][k] * mu[k] for k in range(p)) for j in range(p)]
    cov = [[sum(coef[a][k] * var[k] * coef[b][k] for k in range(p)) for b in range(p)] for a in range(p)]
    return mean, cov


def maybe(d):
    """Pass an empty set of interventions as {} or None."""
    if d:
        return d
    return rnd.choice([{}, None])


worst = 0.0
failures = 0
for it in range(N_MODELS):
    p = rnd.randint(1, 7)
    wkind = rnd.choice(['int', 'float'])
    W, perm = rand_dag(p, wkind)
    mkind, vkind = rnd.choice(['int', 'float']), rnd.choice(['int', 'float'])
    means = np.array([rnd.randint(-4, 4) if mkind == 'int' else rnd.uniform(-4, 4) for _ in range(p)],
                     dtype=int if mkind == 'int' else float)
    variances = np.array([rnd.randint(0, 3) if vkind == 'int' else rnd.choice([0.0, rnd.uniform(0, 3)]) for _ in range(p)],
                         dtype=int if vkind == 'int' else float)
    model = sempler.LGANM(W, means, variances)
    W0, m0, v0 = model.W.copy(), model.means.copy(), model.variances.copy()
    for rep in range(3):
        do, noise, shift = {}, {}, {}
        keys = list(range(p))
        rnd.shuffle(keys)
        for j in keys:
            mask = rnd.choice([0, 0, 1, 2, 4, 3, 5, 6, 7]) if rep else 0
            if mask & 1:
                do[j] = rand_param()
            if mask & 2:
                noise[j] = rand_param()
            if mask & 4:
                shift[j] = rand_param()
        dist = model.sample(population=True, do_interventions=maybe(do),
                            noise_interventions=maybe(noise), shift_interventions=maybe(shift))
        mean, cov = exact_law(W, means, variances, perm, do, noise, shift)
        got_m = np.asarray(dist.mean, dtype=float)
        got_c = np.asarray(dist.covariance, dtype=float)
        ok = got_m.shape == (p,) and got_c.shape == (p, p)
        if ok:
            sm = 1 + max(abs(float(x)) for x in mean)
            sc = 1 + max(abs(float(x)) for row in cov for x in row)
            em = max(abs(float(Fr(float(got_m[j])) - mean[j])) for j in range(p)) / sm
            ec = max(abs(float(Fr(float(got_c[a, b])) - cov[a][b])) for a in range(p) for b in range(p)) / sc
            worst = max(worst, em, ec)
            ok = em <= TOL and ec <= TOL
        # the observational model is left untouched
        ok = ok and np.array_equal(model.W, W0) and np.array_equal(model.means, m0) \
            and np.array_equal(model.variances, v0)
        if not ok:
            failures += 1
            print("MISMATCH model", it, "p", p, "do", do, "noise", noise, "shift", shift)

# Ranges: one draw per variable, inside the range
for it in range(200):
    p = rnd.randint(1, 8)
    W, _ = rand_dag(p, 'float')
    lo_m = rnd.uniform(-5, 5); hi_m = lo_m + rnd.choice([0, rnd.uniform(0, 3)])
    lo_v = rnd.uniform(0, 2); hi_v = lo_v + rnd.choice([0, rnd.uniform(0, 3)])
    model = sempler.LGANM(W, (lo_m, hi_m), (lo_v, hi_v), random_state=rnd.choice([None, it]))
    ok = np.shape(model.means) == (p,) and np.shape(model.variances) == (p,) \
        and np.all(model.means >= lo_m) and np.all(model.means <= hi_m) \
        and np.all(model.variances >= lo_v) and np.all(model.variances <= hi_v)
    if p >= 4 and hi_m > lo_m and hi_v > lo_v:  # one draw per variable, not a single shared one
        ok = ok and len(set(model.means.tolist())) > 1 and len(set(model.variances.tolist())) > 1
    if not ok:
        failures += 1
        print("RANGE VIOLATION", it, p, (lo_m, hi_m), (lo_v, hi_v), model.means, model.variances)

print("worst relative error %.3g, failures %d" % (worst, failures))
sys.exit(1 if failures else 0)
